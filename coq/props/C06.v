(* C06 Cleaning never destroys what StepUp does not own.
   Property theorems only; proofs live in proofs/CleanProofs.v and proofs/CleanDirs.v. *)
From Coq Require Import List NArith Bool.
From SV Require Import lib.Bytes.
From SV Require Import gen.GenClean.
From SV Require Import model.TrellisDD.
From SV Require Import model.Clean.
From SV Require Import proofs.TrellisDDProofs.
From SV Require Import proofs.CleanProofs.
From SV Require Import proofs.CleanDirs.
From SV Require Import proofs.CleanLinks.
From SV Require Import proofs.CleanPhases.
From SV Require Import model.CleanParents.
From SV Require Import proofs.CleanParents.
Import ListNotations.
Open Scope N_scope.

(* Invariant over all histories of writes to file.state (the operation alphabet is the list of
   writers found in stepup/core by the translator, with the tables regenerated from the source):
   a row in an output-role state (PLANNED, BUILT, OUTDATED, VOLATILE) always has a path that some
   step declared as output or volatile output. *)
Theorem C06_ever_output_invariant :
  forall ops, let h := run_fops ops empty_hist in
    forall r, In r (h_rows h) -> is_output_role (fr_state r) = true -> In (fr_path r) (h_ever h).
Proof. exact ever_output_invariant. Qed.

(* Builder.finalize (guard chain and cleanup calls regenerated from builder.py): every path removed as a file
   belongs to a file node of the graph whose path is in ever_output, which is not in a static state; what was
   there was a regular file or a symbolic link (of which only the link goes: see C06_dir_removed_only_if_empty,
   nothing else vanishes); and the node is volatile, or reading through the path (stat, following links the way
   the kernel does) gave a regular file with exactly the recorded hash.  The branch in front of the hash
   comparison is regenerated from the AST of remove_deletable_files (rdf_hash_checked, by kind of path), and so
   is the shape of the loop (rdf_decide_first). *)
Theorem C06_removed_only_owned :
  forall c g f ever,
    (forall n, In n (gnodes g) -> nkind n = KFILE -> is_output_role (nfstate n) = true -> In (nlabel n) ever) ->
    forall p, In p (s_files (finalize c (init_state g f))) ->
      exists n, In n (gnodes g) /\ nkind n = KFILE /\ nlabel n = p /\
        In p ever /\ memN (nfstate n) static_states = false /\ is_output_role (nfstate n) = true /\
        (lkind f p = KRegular \/ lkind f p = KSymlink) /\
        (memN (nfstate n) volatile_states = true \/ (exists h0, stat f p = SFile h0 /\ nfhash n = Some h0) \/
         false = true).
Proof. exact removed_only_owned_finalize. Qed.

(* remove_deletable_files on its own, for every queue (whoever filled it: File.before_delete or
   revert_optional_steps) and every tree: a path is removed as a file only if it is queued, could be unlinked, and
   is queued as volatile or reads, on the tree before the cleanup, as exactly the queued hash. *)
Theorem C06_rdf_removes_only_queued :
  forall q f p, In p (r_files (remove_deletable_files q f)) ->
    is_unlinkable (fs_get f p) = true /\
    (qfile_get q p = Some None \/ exists h0, stat f p = SFile h0 /\ qfile_get q p = Some (Some h0)).
Proof. exact (fun q f p H => proj2 (rdf_trace q f) p H). Qed.

(* The same split by what was at the path: a regular file went only if volatile or with exactly the recorded
   hash; a symbolic link went only if volatile or if it led to a regular file (another entry q of the tree) with
   exactly the recorded hash. *)
Theorem C06_removed_by_kind :
  forall c g f ever,
    (forall n, In n (gnodes g) -> nkind n = KFILE -> is_output_role (nfstate n) = true -> In (nlabel n) ever) ->
    forall p, In p (s_files (finalize c (init_state g f))) ->
      exists n, In n (gnodes g) /\ nkind n = KFILE /\ nlabel n = p /\
        ((exists h, fs_get f p = Some (FFile h) /\
                    (memN (nfstate n) volatile_states = true \/ nfhash n = Some h)) \/
         (exists t, fs_get f p = Some (FLink t) /\
                    (memN (nfstate n) volatile_states = true \/
                     exists h q, stat f p = SFile h /\ nfhash n = Some h /\ fs_get f q = Some (FFile h)))).
Proof. exact removed_file_kinds. Qed.

(* What a removed symbolic link pointed to -- like any other path -- still holds exactly what it held, unless it was
   itself reported removed (and is then covered by the theorems above on its own account). *)
Theorem C06_untouched_unless_reported :
  forall c g f q e, fs_get f q = Some e ->
    let r := finalize c (init_state g f) in
    fs_get (s_fs r) q = Some e \/ In q (s_files r) \/ In q (s_dirs r).
Proof. exact untouched_unless_reported. Qed.

(* Workflow.to_be_deleted lives as long as the Workflow object, i.e. across the build phases of one director (watch
   mode).  remove_deletable_files ends by clearing it and nothing follows the clear() (regenerated:
   rdf_requeues_failed = false): after a cleanup that ran the queue is empty, a guarded finalize leaves it as it
   was, so -- whatever happens to graph and tree between the phases -- no entry outlives the phase that queued it. *)
Theorem C06_queue_empty_after_cleanup :
  forall c s, existsb (guard_fires c) finalize_guards = false -> s_q (finalize c s) = empty_queue.
Proof. exact queue_empty_after_cleanup. Qed.

Theorem C06_queue_empty_across_phases :
  forall phs s, s_q s = empty_queue -> s_q (fold_left next_phase phs s) = empty_queue.
Proof. exact queue_empty_across_phases. Qed.

(* Ownership for every phase of a director, judged on that phase's own graph and tree (a path the user adopted
   as static between two phases is static in the later phase's graph): for every sequence of phases with arbitrary
   graphs, trees and guards. *)
Definition C06_removed_only_owned_across_phases : Prop :=
  forall phs ph ever,
    (forall n, In n (gnodes (ph_g ph)) -> nkind n = KFILE -> is_output_role (nfstate n) = true -> In (nlabel n) ever) ->
    forall p, In p (s_files (next_phase (run_phases phs) ph)) ->
      exists n, In n (gnodes (ph_g ph)) /\ nkind n = KFILE /\ nlabel n = p /\
        In p ever /\ memN (nfstate n) static_states = false /\ is_output_role (nfstate n) = true /\
        (lkind (ph_fs ph) p = KRegular \/ lkind (ph_fs ph) p = KSymlink) /\
        (memN (nfstate n) volatile_states = true \/
         (exists h0, stat (ph_fs ph) p = SFile h0 /\ nfhash n = Some h0) \/ false = true).

Theorem C06_removed_only_owned_across_phases_holds : C06_removed_only_owned_across_phases.
Proof. exact removed_only_owned_across_phases_holds. Qed.

(* A variant of remove_deletable_files that puts failed removals back into the queue after the clear() (recognised
   by the translator: rdf_requeues_failed = true) violates it: phase 1 cannot remove a volatile output the user
   replaced by a directory, phase 2 deletes the file the user put there and declared static.  The refutation is
   about the model with the flag as a parameter and is checked on every run. *)
Theorem C06_requeue_variant_refuted : ~ removed_only_owned_across_phases_rq true.
Proof. exact removed_only_owned_across_phases_requeue_refuted. Qed.

Theorem C06_requeue_variant_is_the_code :
  rdf_requeues_failed = true -> ~ C06_removed_only_owned_across_phases.
Proof. exact requeue_variant_is_the_code. Qed.

(* Directories on the way to an output that are symbolic links (outside assumption A-links of model/Clean.v; modelled
   in model/CleanParents.v: the kernel redirects the path at the first directory component that is a link).
   Finding linked-parent-directory: "os.remove(p) takes away nothing but p" is FALSE -- the user copied the results
   to b/, made r a link to b/, and the queued output r/o (which reads as the recorded hash through the link) is the
   user's own b/o, which vanishes although no step ever declared it.  With the has_linked_parent guard (flags
   rdf_skips_linked_parents / clean_skips_linked_parents, regenerated) the removal primitive is only applied to paths
   without a linked directory on the way, and then it is exactly the rm_file of model/Clean.v: the entry p goes and
   nothing else. *)
Theorem C06_unlink_behind_linked_directory_refuted : ~ unlink_removes_only_its_path.
Proof. exact unlink_removes_only_its_path_refuted. Qed.

Theorem C06_unlink_guarded :
  forall f p f', has_linked_parent f p = false -> kernel_unlink f p = (f', true) ->
    forall q, fs_get f q <> None -> fs_get f' q = None -> q = p.
Proof. exact unlink_removes_only_its_path_guarded. Qed.

Theorem C06_guarded_unlink_is_model_unlink :
  forall f p, has_linked_parent f p = false -> kernel_unlink f p = rm_file f p.
Proof. exact guarded_unlink_is_model_unlink. Qed.

(* The regenerated branching itself: the recorded hash is compared whatever lstat reports for the queued path,
   and for the path handed to `stepup clean`.  (Whether `clean` decides "missing" with exists() or lexists() is
   regenerated too and no longer pinned: C06_removed_only_owned_clean is proved for both.) *)
Theorem C06_hash_compared_for_every_kind :
  (forall k, rdf_hash_checked k = true) /\ (forall k, clean_hash_checked k = true).
Proof. exact (conj gen_rdf_hash_checked gen_clean_hash_checked). Qed.

(* The same for `stepup clean` (selection logic and state filter regenerated from clean.py), with
   the --unsafe exception; without --commit nothing is removed at all. *)
Theorem C06_removed_only_owned_clean :
  forall g a trs f ever,
    (forall n, In n (gnodes g) -> nkind n = KFILE -> is_output_role (nfstate n) = true -> In (nlabel n) ever) ->
    (* only when `missing` is decided without following links (lexists): rows in a hashed output state carry a
       hash -- the CHECK constraint of the file table; vacuous for the code as it is (exists) *)
    (forall n, In n (gnodes g) -> clean_missing_follows_links = false ->
               memN (nfstate n) volatile_states = false -> nfhash n <> None) ->
    forall p, In p (k_files (clean_tool g a trs f)) ->
      exists n, In n (gnodes g) /\ nkind n = KFILE /\ nlabel n = p /\
        In p ever /\ memN (nfstate n) static_states = false /\ is_output_role (nfstate n) = true /\
        (lkind f p = KRegular \/ lkind f p = KSymlink) /\
        (memN (nfstate n) volatile_states = true \/ (exists h0, stat f p = SFile h0 /\ nfhash n = Some h0) \/
         negb (a_safe a) = true).
Proof. exact removed_only_owned_clean. Qed.

Theorem C06_clean_without_commit :
  forall g a trs f, a_commit a = false -> k_files (clean_tool g a trs f) = [].
Proof. exact clean_without_commit. Qed.

(* A directory is only removed when it is empty: every removed directory was a directory, all that
   was below it was itself removed by the same cleanup (files: see above), nothing else vanishes and
   nothing is altered. *)
Theorem C06_dir_removed_only_if_empty :
  forall c g f, let r := finalize c (init_state g f) in
    (forall d, In d (s_dirs r) -> fs_get f d = Some FDir /\
       forall p, under d p = true -> fs_get f p <> None -> In p (s_files r) \/ In p (s_dirs r)) /\
    (forall p, fs_get f p <> None -> fs_get (s_fs r) p = None -> In p (s_files r) \/ In p (s_dirs r)) /\
    (forall p e, fs_get (s_fs r) p = Some e -> fs_get f p = Some e).
Proof. exact dir_removed_only_if_empty_finalize. Qed.

Theorem C06_dir_removed_only_if_empty_clean :
  forall g a trs f, let r := clean_tool g a trs f in
    (forall d, In d (k_dirs r) -> fs_get f d = Some FDir /\
       forall p, under d p = true -> fs_get f p <> None -> In p (k_files r) \/ In p (k_dirs r)) /\
    (forall p, fs_get f p <> None -> fs_get (k_fs r) p = None -> In p (k_files r) \/ In p (k_dirs r)) /\
    (forall p e, fs_get (k_fs r) p = Some e -> fs_get f p = Some e).
Proof. exact dir_removed_only_if_empty_clean. Qed.

(* The primitive used for every directory removal (finalize and the clean tool alike). *)
Theorem C06_rmdir_primitive :
  forall f d f' b, rmdir_if_empty f d = (f', b) ->
    (b = true /\ fs_get f d = Some FDir /\ dir_empty f d = true /\ f' = fs_del f d) \/ (b = false /\ f' = f).
Proof. exact rmdir_if_empty_spec. Qed.

(* Targets given, a return code that is non-zero apart from WARNING, or cleaning disabled: finalize
   changes neither disk, nor graph, nor queue. *)
Theorem C06_no_cleanup_when_guarded :
  forall c s, c_targets c = true \/ N.ldiff (c_returncode c) RC_WARNING <> 0 \/ c_clean c = false ->
    finalize c s = s.
Proof. exact no_cleanup_when_guarded. Qed.

(* A former output (BUILT/OUTDATED) re-declared static goes through File.initialize_row with
   UNCONFIRMED; the file_clear_hash trigger (WHEN clause regenerated) drops its hash, the row is in
   a static state, File.before_delete no longer queues it and the clean tool no longer selects it. *)
Theorem C06_static_adoption_forgets_output_hash :
  forall r, memN (fr_state r) clear_pair_old = true ->
    let r' := write_state r (init_row_state FS_UNCONFIRMED (fr_state r)) (fr_hash r) in
    fr_state r' = FS_UNCONFIRMED /\ fr_hash r' = None /\ is_output_role (fr_state r') = false /\
    memN (fr_state r') clean_select_states = false /\
    memN (fr_state r') bd_volatile_states = false /\ memN (fr_state r') bd_hashed_states = false.
Proof. exact static_adoption_forgets_output_hash. Qed.

(* D12 (finding): the directory rule above is all the code guarantees for directories. The stronger
   statement "no removed directory is the root of a static tree that is still declared" is FALSE of
   the faithful model: File.before_delete marks the parent of every deleted file node, including the
   unused file of an attached static tree that Workflow.delete_detached detaches first. Witness:
   tree data/ (attached), its file data/d1.txt (deleted by the user, no consumer left), a dropped
   step with output o.txt; finalize removes o.txt and then the emptied, still declared data/. *)
Definition C06_dirs_spare_attached_static_trees : Prop :=
  forall c g f d t,
    let r := finalize c (init_state g f) in
    In d (s_dirs r) -> In t (gnodes (s_g r)) -> nkind t = KTREE -> ndet t = false -> nlabel t <> d ++ [SLASH].

Theorem C06_dirs_spare_attached_static_trees_refuted :
  mark_dir_skips_static_trees = false -> ~ C06_dirs_spare_attached_static_trees.
Proof. exact dirs_spare_attached_static_trees_refuted. Qed.

(* D12, positive side (the code since fix 656d12c; the flag is regenerated from
   Workflow.mark_dir_to_be_deleted on every run): with the static-tree exemption no directory removed
   by Builder.finalize is the root of, or lies inside, a static tree that is attached in the resulting
   graph (tree labels end in a separator, so `nlabel t` is a prefix of `d/` in both cases).  For all
   guards, graphs and file systems. *)
Theorem C06_dirs_spare_attached_static_trees_fixed :
  mark_dir_skips_static_trees = true ->
  forall c g f d t,
    let r := finalize c (init_state g f) in
    In d (s_dirs r) -> In t (gnodes (s_g r)) -> nkind t = KTREE -> ndet t = false ->
    is_prefix (nlabel t) (d ++ [SLASH]) = false.
Proof. exact dirs_spare_attached_static_trees_fixed. Qed.

Theorem C06_dirs_spare_attached_static_trees_holds :
  mark_dir_skips_static_trees = true -> C06_dirs_spare_attached_static_trees.
Proof. exact dirs_spare_attached_static_trees_holds. Qed.

(* Non-vacuity: a dropped step with a regular output the user modified (kept), an unmodified one
   (removed, then its directory), a volatile one (removed whatever its content) and a static file. *)
Example C06_example :
  let root := (KROOT, []) in let s := (KSTEP, [115]) in
  let a := [100; 47; 97] in let b := [98] in let v := [118] in let u := [117] in
  let g := mkGraph [mkNode root (Some root) false 0 None false 0 0;
                    mkNode s None true 0 None true 32 23;
                    mkNode (KFILE, a) (Some s) true FS_BUILT (Some 1) false 0 0;
                    mkNode (KFILE, b) (Some s) true FS_BUILT (Some 2) false 0 0;
                    mkNode (KFILE, v) (Some s) true FS_VOLATILE None false 0 0;
                    mkNode (KFILE, u) (Some root) false FS_CONFIRMED (Some 5) false 0 0]
                   [(s, (KFILE, a)); (s, (KFILE, b)); (s, (KFILE, v))] in
  let f := [([100], FDir); (a, FFile 1); (b, FFile 99); (v, FFile 42); (u, FFile 5)] in
  let r := finalize (mkCtx false 8 true) (init_state g f) in
  s_files r = [v; a] /\ s_dirs r = [[100]] /\ s_fs r = [(b, FFile 99); (u, FFile 5)] /\
  finalize (mkCtx true 0 true) (init_state g f) = init_state g f /\
  finalize (mkCtx false 16 true) (init_state g f) = init_state g f.
Proof. vm_compute. repeat split; reflexivity. Qed.

(* Non-vacuity with symbolic links: a dropped step with five regular outputs (recorded hashes 1..5) that the user
   replaced by: a link to a user file with other content (kept), a link to a user file with the recorded content
   (the link goes, the user file stays), a dangling link (kept), a link to a directory (kept), a link to itself
   (kept); and a volatile output replaced by a link to a user file (the link goes, the user file stays).  *)
Example C06_example_links :
  let root := (KROOT, []) in let s := (KSTEP, [115]) in
  let o1 := [111; 49] in let o2 := [111; 50] in let o3 := [111; 51] in let o4 := [111; 52] in let o5 := [111; 53] in
  let v := [118] in let u := [117] in let w := [119] in let d := [100] in let nowhere := [110] in
  let out k h := mkNode (KFILE, k) (Some s) true FS_BUILT (Some h) false 0 0 in
  let g := mkGraph [mkNode root (Some root) false 0 None false 0 0;
                    mkNode s None true 0 None true 32 23;
                    out o1 1; out o2 2; out o3 3; out o4 4; out o5 5;
                    mkNode (KFILE, v) (Some s) true FS_VOLATILE None false 0 0]
                   [(s, (KFILE, o1)); (s, (KFILE, o2)); (s, (KFILE, o3)); (s, (KFILE, o4)); (s, (KFILE, o5));
                    (s, (KFILE, v))] in
  let f := [(d, FDir); (u, FFile 77); (w, FFile 2);
            (o1, FLink u); (o2, FLink w); (o3, FLink nowhere); (o4, FLink d); (o5, FLink o5); (v, FLink u)] in
  let kept := [(d, FDir); (u, FFile 77); (w, FFile 2);
               (o1, FLink u); (o3, FLink nowhere); (o4, FLink d); (o5, FLink o5)] in
  let r := finalize (mkCtx false 0 true) (init_state g f) in
  s_files r = [v; o2] /\ s_dirs r = [] /\ s_fs r = kept /\
  (* the clean tool stops at the link to a directory (HashFailedError escapes) ... *)
  k_files (clean_tool g (mkArgs true true true) [[46]] f) = [v] /\
  k_crash (clean_tool g (mkArgs true true true) [[46]] f) = true /\
  (* ... and without that link decides like finalize *)
  k_files (clean_tool g (mkArgs true true true) [[46]] (fs_del f o4)) = [v; o2].
Proof. vm_compute. repeat split; reflexivity. Qed.

(* Non-vacuity of the positive D12 statement: on the witness of the finding (tree data/ attached, its
   only used file deleted by the user, a dropped step with output o.txt) the fixed code removes o.txt
   and leaves the emptied, still declared data/ alone. *)
Example C06_example_d12_fixed :
  mark_dir_skips_static_trees = true ->
  let r := finalize (mkCtx false 0 true) (init_state d12_graph d12_fs) in
  s_files r = [d12_o] /\ s_dirs r = [] /\ s_fs r = [(d12_data, FDir)].
Proof.
  intros Hflag. unfold mark_dir_skips_static_trees in Hflag.
  first [ discriminate Hflag | vm_compute; repeat split; reflexivity ].
Qed.
