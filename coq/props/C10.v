(* C10 Dispatch is exact: nothing ineligible starts, nothing eligible is left.
   Property theorems only; proofs live in proofs/SchedProofs.v, the model in model/Sched.v, the
   SQL fragments, trigger bodies and constants in gen/GenSched.v (regenerated from the repository).

   Reading guide.  `FlagInv g` says which cached values may be stale in a snapshot g:
     _safe/_safe_ignoring_hold of s may differ from safe_spec only if s or a step ancestor of s
       carries _check_safe;
     _implied_need of an attached s may differ from max(declared need, target elevation, cached
       values of its attached two-hop consumers) only if s or one of those consumers carries
       _check_after;
     _ready of s may differ from ready_spec only if s carries _check_ready.
   `AllCorrect g` says that every cached attribute of every step equals its definition (for
   _implied_need: of every attached step) and that no flag is left.
   Two facts read from the repository on every run carry the full theorems: `safe_merge`
   (FILL_SAFE_UPDATE keeps the trace row of maximal depth, since repo commit 21289e7) and
   `trg_dep_del` (the dependency delete trigger also flags the producers of the source file, since
   f76dbc9).  If either regresses, the proofs of the `_repo` lemmas stop compiling.  The two
   `_refuted_for_...` theorems record what was wrong with the earlier shapes. *)
From Coq Require Import List NArith Bool Arith.
From SV Require Import model.Graph model.GraphInv.
From SV Require Import lib.Bytes lib.SqlExpr gen.GenSched model.Sched proofs.SchedProofs proofs.SchedPrims
  proofs.SchedSeq proofs.SchedTermination proofs.SchedSkel model.SchedDefer proofs.SchedDeferProofs.
From SV Require Import model.SchedGraph proofs.SchedGraphCpl proofs.SchedGraphBelow
  proofs.SchedGraphSim proofs.SchedGraphErase proofs.SchedGraphAcyclic proofs.SchedGraphDelete proofs.SchedGraphMachine proofs.SchedGraphRefl.
Import ListNotations.
Open Scope N_scope.

(* ---- update_meta ---- *)

(* After the three metadata updates of pop_next_job every cached attribute equals its definition,
   from any snapshot in which every possibly stale value is flagged. Includes termination of the
   propagation loop (update_meta returns Some); g' differs from g only in cached columns and flags. *)
Theorem C10_update_meta_correct :
  forall g, WF g -> Acyclic g -> FlagInv g ->
    exists g', update_meta g = Some g' /\ AllCorrect g' /\ (exists f, keeps f /\ g' = mapg f g).
Proof. exact update_meta_correct_repo. Qed.

(* For any merge policy: with MIN the extra hypothesis NoStaleLow is needed (no flagged step has a
   creator whose cached _safe is lower than its definition). *)
Theorem C10_update_meta_correct_any_merge :
  forall pol g, WF g -> Acyclic g -> FlagInv g ->
    (pol = MergeDeepest \/ NoStaleLow g) ->
    exists g', update_meta_with pol g = Some g' /\ AllCorrect g' /\ (exists f, keeps f /\ g' = mapg f g).
Proof. exact update_meta_with_correct. Qed.

(* D18 (was C10-D11), fixed by 21289e7: with MIN as merge the statement is false; a step that is
   eligible by definition is left undispatched (witness: a flagged step under a flagged creator
   whose cached _safe is 0). *)
Theorem C10_update_meta_refuted_for_min_merge :
  exists g, WF g /\ Acyclic g /\ FlagInv g /\ HasHashInv g /\
    exists g', update_meta_with MergeMin g = Some g' /\ ~ AllCorrect g' /\
      exists s, In s (g_steps g') /\ eligible_spec g' s = true /\ ~ In s (dispatch_set g').
Proof. exact update_meta_min_merge_refuted. Qed.

(* The driver loop Scheduler._update_meta_after is TRANSLATED as far as its first iteration goes (generated
   after_first_round = the initial value of its variable `first`).  With `first = False` -- only seeds whose value
   changes are written and propagated from -- C10_update_meta_correct is false: a flagged step whose own value is
   already right hides a stale producer, which stays eligible by definition and is never dispatched. *)
Theorem C10_update_meta_refuted_without_first_round :
  exists g, WF g /\ Acyclic g /\ FlagInv g /\ HasHashInv g /\
    exists g', update_meta_from false g = Some g' /\ ~ AllCorrect g' /\
      exists s, In s (g_steps g') /\ eligible_spec g' s = true /\ ~ In s (dispatch_set g').
Proof. exact update_meta_without_first_round_refuted. Qed.

(* The three updates separately. *)
Theorem C10_update_meta_ready_correct :
  forall g, FlagInv_ready g ->
    forall s, In s (g_steps (update_meta_ready g)) ->
      s_ready s = ready_spec (update_meta_ready g) (s_key s) /\ s_chk_ready s = false.
Proof. exact update_meta_ready_correct. Qed.

Theorem C10_update_meta_after_correct :
  forall g, WF g -> DepAcyclic g -> FlagInv_need g ->
    exists g', update_meta_after g = Some g' /\
      forall s, In s (g_steps g') ->
        s_chk_after s = false /\ (s_detached s = false -> s_ineed s = need_spec g' (s_key s)).
Proof. exact update_meta_after_correct. Qed.

Theorem C10_update_meta_safe_correct_any_merge :
  forall pol g, CreatorAcyclic g -> FlagInv_safe g -> (pol = MergeDeepest \/ NoStaleLow g) ->
    forall s, In s (g_steps (update_meta_safe_with pol g)) ->
      (s_safe s, s_safe_nh s) = safe_spec (update_meta_safe_with pol g) s /\ s_chk_safe s = false.
Proof. exact update_meta_safe_correct_gen. Qed.

(* ---- what the generated predicates say ---- *)

Theorem C10_dispatch_where_meaning :
  forall st safe hh safe_nh df ineed rdy,
    sholds (senv_vals st safe hh safe_nh df ineed rdy) gen_dispatch_where =
    (st =? ST_PENDING) && (safe || (hh && safe_nh)) && negb df && (ND_OPTIONAL <? ineed) && rdy.
Proof. exact dispatch_where_meaning. Qed.

Theorem C10_unavailable_input_meaning :
  forall f d,
    sholds (ienv f d) gen_unavailable_input =
    (f_state f =? FS_VOLATILE)
    || (d_dyn d && negb (f_detached f) && mem_N (f_state f) [FS_PLANNED; FS_OUTDATED])
    || (negb (d_dyn d) && (f_detached f || negb (mem_N (f_state f) [FS_BUILT; FS_CONFIRMED]))).
Proof. exact unavailable_meaning. Qed.

(* ---- dispatch ---- *)

(* The set of steps the dispatch query can return is exactly the set of eligible steps. *)
Theorem C10_dispatch_only_eligible :
  forall g, WF g -> Acyclic g -> FlagInv g -> HasHashInv g ->
    exists g', update_meta g = Some g' /\ AllCorrect g' /\
      forall s, In s (dispatch_set g') <-> (In s (g_steps g') /\ eligible_spec g' s = true).
Proof. exact dispatch_only_eligible_repo. Qed.

(* The WHERE clause of SELECT_NEXT_STEP is TRANSLATED conjunct by conjunct (GenSched.sn_where; the frame -- FROM, JOIN,
   ORDER BY, LIMIT -- is compared).  With the four conjuncts of the repository (generated fact sn_where_repo) the
   query selects exactly the eligible steps of a snapshot whose cached attributes are correct ... *)
Theorem C10_select_next_step_selects_the_eligible_steps :
  forall g s, AllCorrect g -> HasHashInv g -> In s (g_steps g) ->
    (In s (dispatch_set_q sn_full [RuRunning] g) <-> eligible_spec g s = true).
Proof. exact dispatch_set_q_full_is_eligible. Qed.
(* ... and without `NOT node.detached` it hands out a detached step *)
Theorem C10_select_next_step_refuted_without_attached_conjunct :
  exists g, WF g /\ Acyclic g /\ AllCorrect g /\ HasHashInv g /\
    exists s, In s (dispatch_set_q sn_no_attached [RuRunning] g) /\ s_detached s = true /\ eligible_spec g s = false.
Proof. exact dispatch_without_attached_conjunct_refuted. Qed.

(* The named-resource term of the dispatch query is TRANSLATED (GenSched.ru_where: the conjuncts that say which
   steps' units are subtracted from the available ones).  With the conjuncts [RuRunning] -- the units of every
   RUNNING step, attached or not: the repository's query, generated fact ru_where_repo -- the dispatch set of a
   snapshot whose cached attributes are correct is exactly the set of eligible steps ... *)
Theorem C10_dispatch_set_is_eligible_for_running_usage :
  forall g s, AllCorrect g -> HasHashInv g -> In s (g_steps g) ->
    (In s (dispatch_set_with [RuRunning] g) <-> eligible_spec g s = true).
Proof. exact dispatch_set_with_running_is_eligible. Qed.

(* ... and NOT when only attached steps are counted: a step that was detached while RUNNING (it is not killed)
   still holds its units; a snapshot with every cached attribute correct has a step in the dispatch set whose
   named resource is not free. *)
Theorem C10_dispatch_refuted_for_usage_ignoring_detached_running_steps :
  exists g, WF g /\ Acyclic g /\ AllCorrect g /\ HasHashInv g /\
    exists s, In s (dispatch_set_with ru_attached_only g) /\ eligible_spec g s = false /\
              s_hash_stored s = false /\ res_unavailable g s = true.
Proof. exact dispatch_ignoring_detached_running_refuted. Qed.

(* Every step in the dispatch set is pending, attached, not deferred, needed above the threshold,
   has all inputs available, is created by steps that are RUNNING/SUCCEEDED and not holding (or has
   a stored hash and only a hold stands in the way: it is then only checked), and has its resources
   free unless it is only checked. *)
Theorem C10_eligible_means :
  forall g s, eligible_spec g s = true ->
    s_state s = ST_PENDING /\ s_detached s = false /\ s_deferred s = false /\
    ND_OPTIONAL < need_spec g (s_key s) /\ g_threshold g < need_spec g (s_key s) /\
    ready_spec g (s_key s) = true /\
    (fst (safe_spec g s) = true \/ (s_hash_stored s = true /\ snd (safe_spec g s) = true)) /\
    (s_hash_stored s = true \/ res_unavailable g s = false).
Proof. exact eligible_spec_meaning. Qed.

(* Builder.job_loop of a scheduler that is not draining returns only when nothing runs, nothing
   waits to be handled, and no step of the graph is eligible. *)
Theorem C10_phase_end_nothing_eligible :
  forall g njob running done hs,
    WF g -> Acyclic g -> FlagInv g -> HasHashInv g -> 0 < njob ->
    job_loop_may_end njob running done hs (job_loop_pop njob running hs false g) = true ->
    running = 0 /\ done = 0 /\
    exists g', update_meta g = Some g' /\ AllCorrect g' /\
               forall s, In s (g_steps g') -> eligible_spec g' s = false.
Proof. exact phase_end_nothing_eligible_repo. Qed.

(* ---- defer cap ---- *)

(* Counting from any state, with no SUCCEEDED in between: the defer that takes defer_count beyond
   the cap leaves the step FAILED; below the cap it leaves it PENDING. *)
Theorem C10_defer_cap_bound :
  forall cap s l u, Forall no_success l -> cap < s_defer_count s + count_defers l + 1 ->
    s_state (run_events cap s (l ++ [EvDefer u])) = ST_FAILED.
Proof. exact defer_cap_bound_gen. Qed.

Theorem C10_defer_within_cap_stays_pending :
  forall cap s l u, Forall no_success l -> s_defer_count s + count_defers l + 1 <= cap ->
    s_state (run_events cap s (l ++ [EvDefer u])) = ST_PENDING.
Proof. exact defer_within_cap_pending. Qed.

Theorem C10_defer_count_counts_defers :
  forall cap l s, Forall no_success l ->
    s_defer_count (run_events cap s l) = s_defer_count s + count_defers l.
Proof. exact defer_count_run. Qed.

(* ---- the outcome of a job never hands the same job out again without an intervening change ---- *)

(* Only PENDING steps that are not deferred are dispatched. *)
Theorem C10_dispatched_step_is_pending_and_not_deferred :
  forall g s, In s (dispatch_set g) -> s_state s = ST_PENDING /\ s_deferred s = false.
Proof. intros g s H. split; [eapply dispatch_set_pending | eapply dispatch_set_not_deferred]; exact H. Qed.

(* validate_dynamic_job with an unchanged digest puts the step back with the state and the deferred flag
   read from the repository's executor.py (PENDING, deferred since d760e3e): whatever the metadata
   updates compute, the step is in no dispatch set until something clears the flag
   (Workflow.mark_step_pending, when one of its inputs changes). *)
Theorem C10_validate_unchanged_not_dispatched :
  forall g k g' s,
    update_meta (set_step_state g k validate_unchanged_state validate_unchanged_deferred) = Some g' ->
    In s (dispatch_set g') -> s_key s <> k.
Proof. exact validate_unchanged_not_dispatched_repo. Qed.

(* Executor._reset_step_to_pending (hash mismatch, changed dynamic inputs) deletes the stored hash: the
   next job of the step is a run, which ends with Step.mark_completed: SUCCEEDED, FAILED, or PENDING
   with defer_count + 1 <= cap (C10_defer_cap_bound). *)
Theorem C10_reset_to_pending_next_job_runs :
  forall g k r,
    In r (g_steps (set_step_state (set_step_hash g k false) k ST_PENDING false)) -> s_key r = k ->
    dispatched_state r = dispatch_state_without_hash.
Proof. exact reset_to_pending_next_job_runs. Qed.

(* D36 (fixed by d760e3e): with Step.set_state(PENDING) -- not deferred -- after an unchanged validation,
   there is a snapshot with every cached attribute correct in which a step with a stored hash is
   dispatched (CHECKING), validated as unchanged, and then is in the dispatch set again with the same
   state, defer count and stored hash, over the same files and edges: the same job is handed out for
   ever and the build phase never ends. *)
Theorem C10_validate_without_defer_refuted :
  exists g k, WF g /\ Acyclic g /\ AllCorrect g /\ HasHashInv g /\
    let dispatched := set_step_state g k dispatch_state_with_hash false in
    let outcome := set_step_state dispatched k ST_PENDING false in
    exists g', update_meta outcome = Some g' /\ AllCorrect g' /\ same_decision g g' k = true /\
               g_files g' = g_files g /\ g_deps g' = g_deps g.
Proof. exact validate_without_defer_refuted. Qed.

(* ---- D39: a parked step waits for something (model/SchedDefer.v) ----
   `deferred` is set by mark_completed (defer) and by the "digest unchanged" outcome of validate_dynamic_job.
   DeferInv g = unique keys, and every deferred step is PENDING and has a dynamic input that is detached or not
   CONFIRMED / BUILT.  Events: set_state, the validation outcome, defer, a file state change (with
   mark_consuming_steps_pending when the file becomes CONFIRMED / BUILT), detached flags set or cleared,
   new edges, reset_for_rerun + set_state, the metadata updates.  `dstep u c`: u = the trigger
   step_node_undefer_reattached exists, c = the flag of the validation outcome is
   step.has_unusable_dynamic_input() evaluated in the outcome transaction. *)

(* The repaired shape, ALL histories: the invariant is kept ... *)
Theorem C10_deferred_is_justified_with_repair :
  forall evs g, DeferInv g -> DeferInv (drun true true evs g).
Proof. exact repaired_history_keeps_invariant. Qed.

(* ... hence at every moment, in particular whenever a phase ends, no step is PENDING and deferred while
   all its dynamic inputs are attached and CONFIRMED / BUILT.  (A database without deferred steps, e.g. a new
   one, satisfies the invariant: nothing_deferred_inv.) *)
Theorem C10_nothing_parked_with_repair :
  forall evs g s, DeferInv g -> In s (g_steps (drun true true evs g)) ->
    parked_for_nothing (drun true true evs g) s = false.
Proof. exact repaired_nothing_parked. Qed.

(* For the shape the repository has (generated facts trg_undefer_on_reattach = true, validate_unchanged_computed =
   true since repo 84081f2; if either regresses this proof stops compiling and the two witness histories below are
   replayed on the real Workflow + Scheduler by the oracle in every run). *)
Theorem C10_deferred_is_justified_repo :
  forall evs g, DeferInv g -> DeferInv (drun_repo evs g).
Proof. exact (repo_history_keeps_invariant eq_refl). Qed.

(* D39: NOT true for the three other shapes -- repo d760e3e..3ce20a7 (no trigger, literal True), the trigger
   alone (the outcome of a validation job that was in flight during the recycle is committed afterwards), the
   computed flag alone (sequential history).  Witness: the history of findings.d/C10-D39.json from a
   snapshot without any deferred step; `user` ends PENDING, deferred, all dynamic inputs usable. *)
Theorem C10_deferred_is_justified_refuted_without_repair :
  forall u c, u && c = false ->
  exists g evs s, DeferInv g /\ (forall x, In x (g_steps g) -> s_deferred x = false) /\
    In s (g_steps (drun u c evs g)) /\ parked_for_nothing (drun u c evs g) s = true /\
    ~ DeferInv (drun u c evs g).
Proof. exact unrepaired_shapes_refuted. Qed.

(* ---- D39-refine: the trigger wakes only the consumers that have nothing left to wait for ----
   dstepR u r c: r = the trigger step_node_undefer_reattached carries the guard AND NOT EXISTS (an unusable dynamic
   input of the step) -- the subquery it shares with Step.has_unusable_dynamic_input (generated: trg_undefer_strict). *)

(* the invariant is kept by ALL histories of the refined shape as well (C10_deferred_is_justified_repo covers
   whichever of the two the repository has) ... *)
Theorem C10_deferred_is_justified_with_refined_trigger :
  forall evs g, DeferInv g -> DeferInv (drunR true true true evs g).
Proof. exact (repaired_history_keeps_invariant_gen true). Qed.

(* ... and now its converse holds at a re-attachment: the flag of a deferred step that still has an unusable
   dynamic input afterwards is NOT cleared (the step is woken by the state change that makes its last input
   usable, Workflow.mark_step_pending) *)
Theorem C10_reattachment_keeps_waiting_steps_deferred :
  forall c g ks t, In t (sks g) -> q_deferred t = true ->
    let gR := dstepR true true c g (DSetDetached ks false) in
    unusable_dyn gR (q_key t) = true ->
    exists t', In t' (sks gR) /\ q_key t' = q_key t /\ q_deferred t' = true /\ q_state t' = q_state t.
Proof. exact refined_reattach_keeps_waiting. Qed.

(* hence "the step is deferred" (mark_completed with wants_defer) and "a declaration re-attaches nodes" commute on
   the deferred flag of the step, from ANY snapshot, whatever is re-attached ... *)
Theorem C10_defer_and_reattachment_commute_on_the_deferred_flag :
  forall c g k within ks sA sB, WF g ->
    In sA (g_steps (dstepR true true c (dstepR true true c g (DDefer k within)) (DSetDetached ks false))) ->
    In sB (g_steps (dstepR true true c (dstepR true true c g (DSetDetached ks false)) (DDefer k within))) ->
    s_key sA = k -> s_key sB = k -> s_deferred sA = s_deferred sB.
Proof. exact defer_reattach_commute. Qed.

(* ... which is false for the unconditional trigger of repo 84081f2 (found by C02): S amended an orphan input f and
   is deferred; another running step declares f static (re-attached, UNCONFIRMED).  Deferred first: the trigger
   wakes S although f is still unusable; declared first: S stays deferred. *)
Theorem C10_defer_and_reattachment_order_matters_with_unconditional_trigger :
  forall c, exists g k r1 r2, DeferInv g /\
    deferred_of (drunR true false c (r1 ++ r2) g) k = false /\
    deferred_of (drunR true false c (r2 ++ r1) g) k = true /\
    unusable_dyn (drunR true false c (r1 ++ r2) g) k = true.
Proof. exact defer_reattach_order_matters_unconditional. Qed.

Example C10_d39_history :
  parked_b (drun false false d39_sequential g_d39) = true /\ parked_b (drun true false d39_race g_d39) = true /\
  parked_b (drun false true d39_sequential g_d39) = true /\
  parked_b (drun true true d39_sequential g_d39) = false /\ parked_b (drun true true d39_race g_d39) = false /\
  parked_b (drunR true true true d39_sequential g_d39) = false /\ parked_b (drunR true true true d39_race g_d39) = false.
Proof. repeat split; vm_compute; reflexivity. Qed.

(* Termination of the validation outcome for both shapes of the source: if the step is in a dispatch set again
   after an unchanged validation, its flag was computed and NO dynamic input was unusable when the outcome was
   recorded -- the job derived then is a hash check (_derive_job: dynamic_inputs_ready), not the same
   validation job. *)
Theorem C10_validate_outcome_redispatched_only_as_check :
  forall g k g' s,
    update_meta (set_step_state g k validate_unchanged_state (validate_flag validate_unchanged_computed g k)) = Some g' ->
    In s (dispatch_set g') -> s_key s = k ->
    validate_unchanged_computed = true /\ unusable_dyn g k = false.
Proof. exact validate_outcome_redispatch. Qed.

(* ---- D8 (fixed by f76dbc9): the earlier dependency delete trigger ---- *)

(* With the trigger body that flags only the two endpoints, deleting a file -> step edge breaks the
   flag invariant of _implied_need; after the next update the producer keeps a stale value and a
   step that is not eligible by definition is in the dispatch set. *)
Theorem C10_del_dep_need_flag_refuted_for_sink_only_trigger :
  exists g d, WF g /\ Acyclic g /\ AllCorrect g /\ HasHashInv g /\
    ~ FlagInv_need (del_dep_with trg_dep_del_sink_only g d) /\
    forall pol, exists g', update_meta_with pol (del_dep_with trg_dep_del_sink_only g d) = Some g' /\
      ~ AllCorrect g' /\ exists s, In s (dispatch_set g') /\ eligible_spec g' s = false.
Proof. exact del_dep_sink_only_refuted. Qed.

(* The narrowed form of that statement ("... AND NOT EXISTS (another attached consumer of the file)", translated as
   the target TProducersOfSourceUnlessShared) is refuted as well: _implied_need is a MAX over the consumers, the one
   that remains may be an OPTIONAL step that nothing needs. *)
Theorem C10_del_dep_need_flag_refuted_for_trigger_skipping_shared_files :
  exists g d, WF g /\ Acyclic g /\ AllCorrect g /\ HasHashInv g /\
    ~ FlagInv_need (del_dep_with trg_dep_del_unless_shared g d) /\
    forall pol, exists g', update_meta_with pol (del_dep_with trg_dep_del_unless_shared g d) = Some g' /\
      ~ AllCorrect g' /\ exists s, In s (dispatch_set g') /\ eligible_spec g' s = false.
Proof. exact del_dep_unless_shared_refuted. Qed.

(* ---- flag soundness of the primitive mutations, with the trigger bodies of the repository ---- *)

(* Step.set_state (UPDATE step SET state, deferred + the AFTER UPDATE OF state triggers) *)
Theorem C10_set_state_preserves_FlagInv :
  forall g k st df, FlagInv g -> FlagInv (set_step_state g k st df).
Proof. exact set_step_state_sound_repo. Qed.

(* Step.hold / Step.release *)
Theorem C10_hold_preserves_FlagInv : forall g k, WF g -> FlagInv g -> FlagInv (hold_step g k).
Proof. exact hold_step_sound. Qed.
Theorem C10_release_preserves_FlagInv :
  forall g k g', WF g -> FlagInv g -> release_step g k = Some g' -> FlagInv g'.
Proof. exact release_step_sound. Qed.

(* INSERT INTO dependency (+ dynamic_dep) *)
Theorem C10_ins_dep_preserves_FlagInv : forall g d, WF g -> FlagInv g -> FlagInv (ins_dep g d).
Proof. exact ins_dep_sound_repo. Qed.

(* DELETE FROM dependency (+ dynamic_dep) *)
Theorem C10_del_dep_preserves_FlagInv : forall g d, WF g -> FlagInv g -> FlagInv (del_dep g d).
Proof. exact del_dep_sound_full_repo. Qed.

(* For any trigger body: sound when it also flags the producers of the source file, or when the sink
   is not an attached step (nobody loses a consumer). *)
Theorem C10_del_dep_need_sound_any_trigger :
  forall g trg d, WF g -> In (FAfter, TSource) trg ->
    (In (FAfter, TProducersOfSource) trg \/
     (forall sy, find_step g (d_snk d) = Some sy -> s_detached sy = true)) ->
    FlagInv_need g -> FlagInv_need (del_dep_with trg g d).
Proof. exact del_dep_need_sound. Qed.

(* File.set_state: _safe and _ready (for _implied_need only a change to or from VOLATILE matters;
   not proved) *)
Theorem C10_set_file_state_preserves_FlagInv_partial :
  forall g k st h, FlagInv_safe g /\ FlagInv_ready g ->
    FlagInv_safe (set_file_state g k st h) /\ FlagInv_ready (set_file_state g k st h).
Proof. exact set_file_state_sound_repo. Qed.

(* File.set_state and _implied_need: sound when no file with that key changes to or from VOLATILE *)
Theorem C10_set_file_state_preserves_FlagInv_need :
  forall g k st h,
    (forall f, In f (g_files g) -> f_key f = k -> (f_state f =? FS_VOLATILE) = (st =? FS_VOLATILE)) ->
    FlagInv_need g -> FlagInv_need (set_file_state g k st h).
Proof. exact set_file_state_need_sound. Qed.

(* A new step row (Step.initialize_row on a node without step row: no incoming edge -- Trellis.create
   cuts the sources of a recycled node, its old sinks may remain --, nobody's creator; a row created
   with _safe = 1 must not have a step as creator) *)
Theorem C10_create_step_preserves_FlagInv :
  forall g k creator det need safe stored dur res rank,
    ~ In k (map s_key (g_steps g)) ->
    (forall d, In d (g_deps g) -> d_snk d <> k) ->
    (forall s, In s (g_steps g) -> s_creator s <> Some k) ->
    CreatorRank g rank ->
    (safe = true ->
     creator_step (create_step g k creator det need safe stored dur res)
       (mkStep k init_state need false 0 0 det creator safe safe need false stored stored
               (negb safe) true true dur 1 res) = None) ->
    FlagInv g -> FlagInv (create_step g k creator det need safe stored dur res).
Proof.
  intros g k creator det need safe stored dur res rank H1 H2 H3 HR H4 [HFs [HFn HFr]].
  split; [|split].
  - eapply create_step_safe_sound; eassumption.
  - apply create_step_need_sound; assumption.
  - apply create_step_ready_sound; assumption.
Qed.

(* Deleting a step row (DELETE FROM step in Step.initialize_row; DELETE FROM node in delete_detached):
   the step is nobody's creator and has no incoming edge (its outgoing edges may remain); the
   remaining creator forest is well founded.  No other step's specification reads the deleted row. *)
Theorem C10_delete_step_preserves_FlagInv :
  forall g k rank,
    (forall s, In s (g_steps g) -> s_creator s <> Some k) ->
    (forall d, In d (g_deps g) -> d_snk d <> k) ->
    CreatorRank (delete_step g k) rank ->
    FlagInv g -> FlagInv (delete_step g k).
Proof. intros g k rank H1 H2 HR HF. eapply delete_step_sound; eassumption. Qed.

(* Deleting the row of a file without edges (delete_detached: a detached sink-free node whose sources
   were just deleted), creating a file row on a fresh node *)
Theorem C10_delete_file_preserves_FlagInv :
  forall g k, (forall d, In d (g_deps g) -> d_src d <> k /\ d_snk d <> k) ->
    FlagInv g -> FlagInv (delete_file g k).
Proof. exact delete_file_sound. Qed.
Theorem C10_create_file_preserves_FlagInv :
  forall g k label st det cr, (forall d, In d (g_deps g) -> d_src d <> k /\ d_snk d <> k) ->
    FlagInv g -> FlagInv (create_file g k label st det cr).
Proof. exact create_file_sound. Qed.

(* Trellis.create on an existing detached file node (UPDATE node SET creator, detached after its
   incoming edges were deleted): no step row has that node id, no edge leads into it *)
Theorem C10_place_file_preserves_FlagInv :
  forall g k cr det, WF g ->
    (forall s, In s (g_steps g) -> s_key s <> k) ->
    (forall d, In d (g_deps g) -> d_snk d <> k) ->
    FlagInv g -> FlagInv (place_file g k cr det).
Proof. exact place_file_sound. Qed.

(* File.set_state on a file without producer edge (any state change, VOLATILE included) *)
Theorem C10_set_file_state_preserves_FlagInv_need_no_producer :
  forall g k st h, (forall d, In d (g_deps g) -> d_snk d <> k) ->
    FlagInv_need g -> FlagInv_need (set_file_state g k st h).
Proof. exact set_file_state_need_sound_noin. Qed.

(* File.detach on a file that is detached already (a product of a detached step: only the creator
   link is cleared), whatever edges lead into it *)
Theorem C10_detach_detached_file_preserves_FlagInv :
  forall g k, (forall s, In s (g_steps g) -> s_key s <> k) ->
    (forall f, In f (g_files g) -> f_key f = k -> f_detached f = true) ->
    FlagInv g -> FlagInv (detach_file g k).
Proof. exact detach_file_sound_detached. Qed.

(* Step.after_recycle (UPDATE step SET need = ?, _holding = 0) on a row that Step.reattach has just
   flagged; Step.set_duration (with its trigger); Step.set_resources *)
Theorem C10_set_need_preserves_FlagInv :
  forall g k nd, WF g ->
    (forall s, In s (g_steps g) -> s_key s = k -> s_chk_safe s = true /\ s_chk_after s = true) ->
    FlagInv g -> FlagInv (set_step_need g k nd).
Proof. exact set_step_need_sound. Qed.
Theorem C10_set_duration_preserves_FlagInv :
  forall g k d, WF g -> FlagInv g -> FlagInv (set_step_duration g k d).
Proof. exact set_step_duration_sound. Qed.
Theorem C10_set_resources_preserves_FlagInv :
  forall g k r, FlagInv g -> FlagInv (set_step_res g k r).
Proof. exact set_step_res_sound. Qed.

(* Step.detach (Node.detach + RECURSIVE_CHECK_WITH_PRODUCTS + RECURSIVE_CHECK_AFTER_SOURCES) keeps
   FlagInv.  Side conditions (trellis invariants, property C09): no file row has the step's node id;
   a file of the detached subtree has no producer edge from outside the subtree (outputs are created
   by their producer). *)
Theorem C10_detach_preserves_FlagInv :
  forall g k, WF g ->
    (forall f, In f (g_files g) -> f_key f <> k) ->
    (forall d f, In d (g_deps g) -> find_file g (d_snk d) = Some f ->
       mem_N (f_key f) (k :: below g k) = true -> mem_N (d_src d) (k :: below g k) = true) ->
    FlagInv g -> FlagInv (detach_step g k).
Proof. exact detach_step_sound_repo. Qed.

(* The sources query of Step.detach is TRANSLATED (GenSched.cas_where: the conjuncts that select the source
   nodes two hops upstream of the detached subtree), not pinned: Step.detach keeps FlagInv for ANY list of
   conjuncts that hold of every attached producer step (kind = 'step', NOT detached) ... *)
Theorem C10_detach_preserves_FlagInv_any_sources_query :
  forall w g k, forallb cas_atom_total w = true -> WF g ->
    (forall f, In f (g_files g) -> f_key f <> k) ->
    (forall d f, In d (g_deps g) -> find_file g (d_snk d) = Some f ->
       mem_N (f_key f) (k :: below g k) = true -> mem_N (d_src d) (k :: below g k) = true) ->
    FlagInv g -> FlagInv (detach_step_with w g k).
Proof. exact detach_step_with_sound. Qed.

(* ... and NOT for a query that leaves a producer alone while another attached node still consumes the file
   ("that file keeps its source step needed"): from a snapshot with every cached attribute correct, detaching
   the DEFAULT consumer of an OPTIONAL producer's output that an unneeded OPTIONAL step also reads leaves the
   producer's _implied_need stale and unflagged; after the metadata updates the producer is in the dispatch set
   although it is not eligible by definition (nothing needs it). *)
Theorem C10_detach_refuted_for_sources_query_skipping_shared_inputs :
  exists g k, WF g /\ Acyclic g /\ AllCorrect g /\ HasHashInv g /\ prim_ok_b g (PDetach k) = true /\
    ~ FlagInv_need (detach_step_with cas_skip_shared g k) /\
    exists g', update_meta (detach_step_with cas_skip_shared g k) = Some g' /\
      ~ AllCorrect g' /\ exists s, In s (dispatch_set g') /\ eligible_spec g' s = false.
Proof. exact detach_skip_shared_refuted. Qed.

(* Step.reattach under creator c (whose detached flag cdet is inherited by the subtree) keeps FlagInv.
   Same side condition on outputs; when the new creator is itself detached the subtree must already
   be detached (products of a detached node are detached). *)
Theorem C10_reattach_preserves_FlagInv :
  forall g k c cdet, WF g ->
    (forall d f, In d (g_deps g) -> find_file g (d_snk d) = Some f ->
       mem_N (f_key f) (k :: below g k) = true -> mem_N (d_src d) (k :: below g k) = true) ->
    (cdet = true -> forall s, In s (g_steps g) -> mem_N (s_key s) (k :: below g k) = true -> s_detached s = true) ->
    FlagInv g -> FlagInv (reattach_step g k c cdet).
Proof. exact reattach_step_sound_repo. Qed.

(* File.detach (Node.detach on a file node): sound when no step row lives among the touched nodes and
   no dependency edge leads into them (the callers delete the producer edge first, or the file is a
   static declaration) *)
Theorem C10_detach_file_preserves_FlagInv :
  forall g k, no_step_in g (k :: below g k) ->
    (forall d f, In d (g_deps g) -> find_file g (d_snk d) = Some f -> mem_N (f_key f) (k :: below g k) = false) ->
    FlagInv g -> FlagInv (detach_file g k).
Proof. exact detach_file_sound_repo. Qed.

(* Any sequence of the primitives above, each applied where its side condition (prim_ok) holds, keeps
   unique keys and the flag invariant.  Composite operations of step.py / workflow.py are tied to such
   sequences by the correspondence (Step.reset_for_rerun and Workflow.mark_step_pending are replayed as
   primitive sequences on every occurrence in the histories). *)
Theorem C10_primitive_sequences_preserve_FlagInv :
  forall l g g', WF g -> FlagInv g -> run_ok g l -> run_prims g l = Some g' -> WF g' /\ FlagInv g'.
Proof. exact prims_preserve_FlagInv. Qed.

(* The same with the decidable form of the side conditions, which the harness evaluates on every real
   occurrence of a replayed composite operation. *)
Theorem C10_primitive_sequences_preserve_FlagInv_decidable :
  forall l g g', WF g -> FlagInv g -> run_ok_b g l = true -> run_prims g l = Some g' -> WF g' /\ FlagInv g'.
Proof. exact prims_preserve_FlagInv_b. Qed.

(* ---- the transactions of the stored workflow (property C09's model) keep the flag invariant ---- *)

(* Reading guide.  `step_op o s` is one transaction of model/Graph.v (C09) from the stored workflow s.
   `prims_of_op idf a s o` (model/SchedGraph.v) is the sequence of Sched primitives -- row writes with
   their triggers -- that the transaction performs, for a naming idf of (kind,label) keys by node ids.
   `coupled idf s g`: the scheduling snapshot g has exactly the structural columns of s (cached columns
   and flags are unconstrained).  `J s` = C09's invariant without the holding clause (inv_core_b, which
   every operation preserves from any state) + no static-tree node + acyclic creator links. *)

(* forgetting the emitted primitives gives back the transaction model *)
Theorem C10_projection_erases_to_transaction_model :
  forall idf a o s, erase (step_op_t idf a o s) = step_op o s.
Proof. exact step_op_erase. Qed.

(* the recursive products of a node are the same set in both models *)
Theorem C10_below_is_rec_products :
  forall idf, (forall a b, idf a = idf b -> a = b) ->
  forall s g, coupled idf s g -> GraphNodes.NWl (nodes s) ->
    GraphInvP.RWl (nodes s) (files s) (steps s) (shash s) (envs s) ->
    forall k y, mem_N (idf y) (below g (idf k)) = mem_key y (rec_products k s).
Proof. exact below_cpl_key. Qed.

(* the acyclicity hypotheses of C10_update_meta_correct follow from C09's invariant *)
Theorem C10_acyclic_from_invariant :
  forall idf, (forall a b, idf a = idf b -> a = b) ->
  forall s g, J s -> coupled idf s g -> WF g /\ Acyclic g /\ HasHashInv g.
Proof.
  intros idf Hinj s g HJ C. split; [apply (J_WF idf Hinj s g HJ C)|].
  split; [apply (acyclic_cpl idf Hinj s g HJ C) | apply (HasHashInv_cpl idf s g C)].
Qed.

Theorem C10_invariant_decidable :
  forall s, inv_core_b s && ntc_b s = true -> J s.
Proof. exact J_b_sound. Qed.
Theorem C10_coupling_decidable :
  forall idf s g, coupled_b idf s g = true -> coupled idf s g.
Proof. exact coupled_b_sound. Qed.

(* C10_graph_ops_preserve_FlagInv, full statement: EVERY transaction of the alphabet, projected, keeps
   the flag invariant (all side conditions of the primitives discharged from C09's invariant). *)
Definition C10_graph_ops_preserve_FlagInv_full : Prop :=
  forall idf, (forall a b, idf a = idf b -> a = b) ->
  forall a o s g s', J s -> coupled idf s g -> FlagInv g -> step_op o s = Ok s' ->
    exists g', run_prims g (prims_of_op idf a s o) = Some g' /\ run_ok g (prims_of_op idf a s o) /\
               coupled idf s' g' /\ WF g' /\ FlagInv g' /\ J s'.

(* Proved for eleven of the fourteen operations (proven_op): the ten that neither create nor delete nodes --
   update_file_hashes, dispatch, reset_for_rerun, exec_end (two update_file_hashes + mark_completed, with the defer
   branch and _detach_created_steps), reset_to_pending, validate, mark_step_pending, hold, release, reset_interrupted
   -- and delete_detached (proofs/SchedGraphDelete.v: one deletable node per round; its incoming edges, then its
   row; C09's invariant holds after every round; then the stored hashes of the creators that lost a product).
   NOT proved here (their projection is validated on every real transaction by the correspondence, and certified per
   transaction in C10_cached_equals_spec_at_every_decision_partial): declare_static_files, define_step (new /
   partial recycle / full recycle), amend_step -- the three that go through Trellis.create. *)
Theorem C10_graph_ops_preserve_FlagInv_partial :
  forall idf, (forall a b, idf a = idf b -> a = b) ->
  forall a o s g s', proven_op o = true ->
    J s -> coupled idf s g -> FlagInv g -> step_op o s = Ok s' ->
    exists g', run_prims g (prims_of_op idf a s o) = Some g' /\ run_ok g (prims_of_op idf a s o) /\
               coupled idf s' g' /\ WF g' /\ FlagInv g' /\ J s'.
Proof.
  intros idf Hinj a o s g s' Hp HJ C HF E.
  destruct (step_op_t_ok idf a o s s' E) as [l El].
  unfold prims_of_op. rewrite El. cbn [trace_of].
  destruct (sim_FlagInv idf Hinj s _ _ s' l g (step_op_t_sim_proven idf Hinj a o s HJ Hp) El HJ C HF)
    as [HJ' [g' [Er [C' [O [Hwf HF']]]]]].
  exists g'. split; [exact Er|]. split; [exact O|]. split; [exact C'|]. split; [exact Hwf|]. split; [exact HF' | exact HJ'].
Qed.

(* the start of every history: a fresh database *)
Theorem C10_initial_state :
  forall idf cap targets tdirs avail thr,
    minv idf (init_st cap) (init_graph idf targets tdirs avail thr).
Proof. intros. apply init_minv. Qed.

(* C10_cached_equals_spec_at_every_decision.  `reach idf s g`: the combined state (stored workflow s,
   scheduling snapshot g) is reached from a state satisfying the invariant (e.g. the fresh database) by
   any interleaving of
     - transactions of the proven class (proven_op: the ten that neither create nor delete nodes, and
       delete_detached; any arguments; rejected or crashed ones are rolled back and change nothing),
     - declaring / deleting transactions whose projection is CERTIFIED: the primitive sequence satisfies
       its side conditions, lands on a snapshot coupled to the new state, and the new state satisfies J
       (three decidable conditions -- run_ok_b, coupled_b, inv_core_b && ntc_b -- that the correspondence
       evaluates on every real transaction),
       (also with any other stored workflow the result is coupled to: reach_certified_state, used where
       model/Graph.v lags behind the code, see proofs/SchedGraphMachine.v),
     - a new director run with other targets: Scheduler.initialize + Workflow.reconcile_targets (reach_targets;
       FlagInv proved: C11_target_change_keeps_flag_invariant, whose hypotheses follow from the invariant),
     - the metadata updates of pop_next_job.
     - finalize.revert_optional_steps between two phases (FlagInv proved for it from any state:
       C11_revert_optional_keeps_flag_invariant; the stored workflow its result is coupled to is certified).
   At every such state the three updates terminate, afterwards EVERY cached attribute of EVERY step
   equals its definition and no flag is left, and the dispatch query returns exactly the eligible
   steps.  Partial: without the certificates the statement is C10_graph_ops_preserve_FlagInv_full. *)
Theorem C10_cached_equals_spec_at_every_decision_partial :
  forall idf, (forall a b, idf a = idf b -> a = b) ->
  forall s g, reach idf s g ->
    exists g', update_meta g = Some g' /\ AllCorrect g' /\
      forall x, In x (dispatch_set g') <-> (In x (g_steps g') /\ eligible_spec g' x = true).
Proof. exact cached_equals_spec_at_every_decision. Qed.

(* the combined machine is never stuck on a transaction of the proven class (proven_op): whatever the transaction
   model does, the projected sequence is defined on the coupled snapshot *)
Theorem C10_projection_defined :
  forall idf, (forall a b, idf a = idf b -> a = b) ->
  forall a o s g s', reach idf s g -> proven_op o = true -> step_op o s = Ok s' ->
    exists l g', step_op_t idf a o s = Ok (s', l) /\ run_prims g l = Some g' /\ reach idf s' g'.
Proof. exact reach_progress. Qed.

(* Non-vacuity: the hypotheses are satisfiable by a graph with a chain plan -> c -> b, and the
   refutation witnesses are concrete. *)
Example C10_example_hypotheses :
  wf_b g_d8 = true /\ allcorrect_b g_d8 = true /\ flaginv_need_b g_d8 = true /\
  flaginv_need_b (del_dep_with trg_dep_del_sink_only g_d8 d_d8) = false /\
  flaginv_safe_b g_d11 = true /\ nostalelow_b g_d11 = false.
Proof. vm_compute. repeat split; reflexivity. Qed.
