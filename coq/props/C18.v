(* C18 'Under this directory' selects exactly the paths under it.
   Property theorems only; proofs live in proofs/PrefixProofs.v. *)
From Coq Require Import List NArith Bool.
From SV Require Import lib.Bytes lib.SqlText gen.GenPrefix model.Prefix proofs.PrefixProofs.
Import ListNotations.
Open Scope N_scope.

(* Every idiom the code uses (LIKE with the generated escape chain and the observed case
   sensitivity, substr equality, half-open range with the generated upper bound), applied to a
   directory d ++ "/" and any stored label s, answers exactly "d/ is a prefix of s", code point
   for code point. No bound on the strings, no restriction on their characters. *)
Theorem C18_every_idiom_selects_exact_prefix :
  forall (i : idiom) (d s : str),
    idiom_select i (d ++ [47]) s = Some (is_prefix (d ++ [47]) s).
Proof. exact every_idiom_selects_prefix. Qed.

(* Every call site found in stepup/core uses one of these idioms. *)
Theorem C18_all_sites_recognised :
  forallb (fun si => known_idiom (snd si)) sites = true.
Proof. exact all_sites_known. Qed.

(* The range idiom in isolation, for any separator byte c. *)
Theorem C18_range_selects_prefix :
  forall (d s : str) (c : N),
    lex_le (d ++ [c]) s && lex_lt s (d ++ [c + 1]) = is_prefix (d ++ [c]) s.
Proof. exact range_prefix_gen. Qed.

(* A case-folding LIKE is not a prefix test (defect D1 when like_case_sensitive = false). *)
Theorem C18_like_with_case_folding_refuted :
  exists p s, like true 92 (escape_std p ++ [PCT]) s = true /\ is_prefix p s = false.
Proof. exact like_nocase_refuted. Qed.

(* Non-vacuity: a directory with %, _ and backslash, and a label under it. *)
Example C18_example :
  idiom_select ILike ([97;37;95;92] ++ [47]) [97;37;95;92;47;120] = Some true /\
  idiom_select ILike ([97;37;95;92] ++ [47]) [97;98;99;92;47;120] = Some false /\
  idiom_select IRange ([97] ++ [47]) [97;47;120] = Some true /\
  idiom_select IRange ([97] ++ [47]) [97;48] = Some false /\
  idiom_select ISubstr ([97] ++ [47]) [97;47] = Some true.
Proof. vm_compute. repeat split; reflexivity. Qed.
