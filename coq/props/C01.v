(* C01 An incremental build is equivalent to a build from scratch.
   Property theorems only; proofs in proofs/NoStaleProofs.v (graph level) and
   proofs/EngineProofs.v (abstract engine). *)
From Coq Require Import List NArith Bool.
From SV Require Import lib.Bytes model.Graph model.NoStale proofs.NoStaleProofs.
Import ListNotations.
Open Scope N_scope.

(* ------------------------------------------------------------------------------------------ *)
(* Graph level (model/Graph.v): the invariant K = NoStaleSuccess                               *)
(* ------------------------------------------------------------------------------------------ *)

(* Full statement at this level: K holds after every accepted history of transactions. *)
Definition C01_K_full : Prop :=
  forall cap ops, all_ok ops (init_st cap) = true -> K_b (run_ops ops (init_st cap)) = true.

(* It is false of the faithful model (defect D4): a plan that reruns, no longer declares the
   static file x.txt and re-defines its consumer unchanged gets the consumer back SUCCEEDED
   (full recycle) on a detached input; the from-scratch history leaves that step PENDING. *)
Theorem C01_K_refuted_by_dropped_static :
  all_ok d4_ops (init_st 3) = true /\
  K_b (run_ops d4_build1 (init_st 3)) = true /\
  finished_b (run_ops d4_build1 (init_st 3)) = true /\
  finished_b (run_ops d4_ops (init_st 3)) = true /\
  K_b (run_ops d4_ops (init_st 3)) = false /\
  K_violators (run_ops d4_ops (init_st 3)) = [s_cat] /\
  is_detached (KFile, s_x) (run_ops d4_ops (init_st 3)) = true /\
  sstate_of s_cat (run_ops d4_ops (init_st 3)) = Some SSucceeded /\
  all_ok d4_scratch (init_st 3) = true /\
  sstate_of s_cat (run_ops d4_scratch (init_st 3)) = Some SPending.
Proof. exact K_refuted_by_dropped_static. Qed.

Theorem C01_K_full_refuted : ~ C01_K_full.
Proof. exact K_not_invariant. Qed.

(* Defect D9: after a partial recycle the env_var rows of the old definition survive, so the
   stored workflow differs from the from-scratch one although K holds. *)
Theorem C01_env_rows_refuted_by_partial_recycle :
  all_ok d9_ops (init_st 3) = true /\ all_ok d9_scratch (init_st 3) = true /\
  env_names_of s_S (run_ops d9_ops (init_st 3)) = [s_VA; s_VB] /\
  env_names_of s_S (run_ops d9_scratch (init_st 3)) = [s_VA] /\
  finished_b (run_ops d9_ops (init_st 3)) = true /\
  K_b (run_ops d9_ops (init_st 3)) = true.
Proof. exact env_rows_refuted_by_partial_recycle. Qed.

(* What is proved of K here: it survives dispatch, validate-pending, hold, release and every
   rejected transaction, in all states.  The other operations follow below, each with its side
   conditions (the full-recycle branch of define_step is the refuted one; reset_for_rerun of plan
   steps and update_hashes on BUILT / OUTDATED files are not covered).  declare_static is covered below. *)
Theorem C01_K_preserved_partial :
  forall o s, K_b s = true ->
              (K_safe_op o = true \/ (forall s', step_op o s <> Ok s')) ->
              K_b (apply_op s o) = true.
Proof. exact K_preserved_partial. Qed.

(* Pending propagation preserves K: Workflow.mark_step_pending with its mutual recursion through
   mark_file_outdated (every BUILT output of the step becomes OUTDATED, every consumer of such a
   file PENDING, and so on), in any state with unique step labels (a conjunct of C09's invariant)
   where every file has at most one producing step edge, for any fuel that suffices. *)
From SV Require Import proofs.NoStaleMark.

Theorem C01_K_preserved_by_mark_step_pending :
  forall l s s', unique_labels s -> single_producer s ->
                 mark_step_pending l s = Ok s' -> K_b s = true -> K_b s' = true.
Proof. exact K_mark_step_pending. Qed.

Theorem C01_K_preserved_by_mark_consumers_pending :
  forall f s s', unique_labels s -> single_producer s ->
                 mark_consumers_pending f s = Ok s' -> K_b s = true -> K_b s' = true.
Proof. exact K_mark_consumers_pending. Qed.

(* the transaction of a changed environment variable at startup *)
Theorem C01_K_preserved_by_OpMarkStepPending :
  forall l s, unique_labels s -> single_producer s -> K_b s = true ->
              K_b (apply_op s (OpMarkStepPending l)) = true.
Proof. exact K_op_mark_step_pending. Qed.

(* The startup rescan, the watcher commit and the confirmation of declared files preserve K:
   Workflow.update_file_hashes, with ANY cause, on files whose state is UNCONFIRMED, MISSING or
   CONFIRMED.  The states are written first (which can break K for the consumers of a file that
   is no longer CONFIRMED); handle_updated_file / handle_deleted_file /
   mark_consuming_steps_pending repair it.  NOT covered: an update that names a BUILT or OUTDATED
   file (an output changed from outside: the file becomes PLANNED and only its creator is marked
   pending, its consumers stay SUCCEEDED until the creator has run again). *)
From SV Require Import proofs.NoStaleRescan.

Theorem C01_K_preserved_by_static_rescan :
  forall c hs s s', unique_labels s -> single_producer s -> static_update hs s ->
                    update_file_hashes c hs s = Ok s' -> K_b s = true -> K_b s' = true.
Proof. exact K_update_static_files. Qed.

Theorem C01_K_preserved_by_OpUpdateHashes_static :
  forall c hs s, unique_labels s -> single_producer s -> static_update hs s -> K_b s = true ->
                 K_b (apply_op s (OpUpdateHashes c hs)) = true.
Proof. exact K_op_update_static. Qed.

(* The life cycle of an ordinary step.  Step.reset_for_rerun of a LEAF step (no amended outputs,
   no created steps, no static declarations, no trees; a plan step detaches its declarations,
   which breaks K on purpose until they are re-declared) preserves K; the transaction at the end
   of a successful run or skip (update_file_hashes(new_out_hashes, SUCCEEDED) +
   Step.mark_completed(new_hash)) keeps K for every step and ESTABLISHES it for the completed
   one, under the protocol hypotheses spelled out in the statement. *)
From SV Require Import proofs.NoStaleStep proofs.NoStaleComplete proofs.NoStaleExecEnd.

Theorem C01_K_preserved_by_OpResetForRerun_leaf :
  forall l s, unique_labels s -> single_producer s -> leaf_step l s ->
    (forall f, In f (file_products_in l is_built (rr_pre l s)) -> producers_not_succ (rr_pre l s) f) ->
    K_b s = true -> K_b (apply_op s (OpResetForRerun l)) = true.
Proof. exact K_op_reset_for_rerun_leaf. Qed.

Theorem C01_K_established_by_mark_completed :
  forall l wd s s', unique_labels s -> single_producer s -> K_b s = true ->
    (forall k, In k (file_inputs_of_step l s) -> input_ok k s = true) ->
    (forall f, In f (file_sinks_of_step l s) ->
               output_ok f s = true \/ In f (file_products_in l is_outdated s)) ->
    mark_completed l true wd s = Ok s' -> K_b s' = true.
Proof. exact K_mark_completed_success. Qed.

Theorem C01_K_preserved_by_OpExecEnd_success :
  forall l hs wd s, unique_labels s -> single_producer s -> out_update hs s -> K_b s = true ->
    (forall s1, update_file_hashes CSucceeded hs s = Ok s1 ->
                (forall k, In k (file_inputs_of_step l s1) -> input_ok k s1 = true) /\
                (forall f, In f (file_sinks_of_step l s1) ->
                           output_ok f s1 = true \/ In f (file_products_in l is_outdated s1))) ->
    K_b (apply_op s (OpExecEnd l [] CSucceeded hs true wd)) = true.
Proof. exact K_op_exec_end_success. Qed.

(* The two side conditions above follow from C09's invariant inv_core_b (model/GraphInv.v), which
   holds in EVERY reachable state without any protocol assumption (C09_reachable_inv_core:
   forall cap ops, inv_core_b (run_ops ops (init_st cap)) = true).  [single_producer] speaks of
   ATTACHED files only: a detached file may keep the output edge of a former producer, and K does
   not look at detached outputs.  Only the boolean is imported here, not C09's proofs. *)
From SV Require Import model.GraphInv proofs.NoStaleInv proofs.NoStaleOps proofs.NoStaleDelete
     proofs.NoStaleDeclare proofs.NoStaleAmend proofs.NoStaleDefine proofs.NoStaleAll.

Theorem C01_K_side_conditions_from_C09_invariant :
  forall s, inv_core_b s = true -> unique_labels s /\ single_producer s.
Proof.
  intros s H. split; [exact (inv_core_unique_labels s H)|exact (inv_core_single_producer s H)].
Qed.

(* startup.reset_interrupted_steps: RUNNING -> FAILED, CHECKING -> PENDING, then every attached
   FAILED step is marked pending (with propagation) *)
Theorem C01_K_preserved_by_OpResetInterrupted :
  forall s, inv_core_b s = true -> K_b s = true -> K_b (apply_op s OpResetInterrupted) = true.
Proof. exact K_op_reset_interrupted_inv. Qed.

(* Workflow.delete_detached, the cleanup transaction: deleted nodes are detached, have no
   products and no outgoing edges; the step hashes that after_lost_product removes belong to
   creators of detached nodes, which are detached themselves *)
Theorem C01_K_preserved_by_OpDeleteDetached :
  forall s, inv_core_b s = true -> K_b s = true -> K_b (apply_op s OpDeleteDetached) = true.
Proof. exact K_op_delete_detached. Qed.

(* Workflow.declare_static_files: every declared path is (re-)created through Trellis.create (a new
   node, or a detached one re-attached under the new creator with its producer edges cut and its
   old, detached, creator losing its hash) and put in state UNCONFIRMED.  The file was absent or
   detached, so no attached SUCCEEDED step used it (K); afterwards it is attached but not usable,
   and nobody's output. *)
Theorem C01_K_preserved_by_OpDeclareStatic :
  forall c paths s, inv_core_b s = true -> K_b s = true ->
                    K_b (apply_op s (OpDeclareStatic c paths)) = true.
Proof. exact K_op_declare_static. Qed.

(* Workflow.amend_step, requested by a step that is not SUCCEEDED (the protocol: amend comes from a
   job in flight; C09's protocol_ok has the same clause): supply_files (unknown inputs become
   detached UNDECLARED nodes, input edges file -> step), amended variables, and for every new
   output declare_file(PLANNED / VOLATILE) + an output edge.  File.initialize_row keeps a former
   BUILT state and then outdates the file with propagation; the added edges start or end at the
   amending step. *)
Theorem C01_K_preserved_by_OpAmendStep :
  forall l inp env out vol s, inv_core_b s = true -> sstate_of l s <> Some SSucceeded -> K_b s = true ->
    K_b (apply_op s (OpAmendStep l inp env out vol)) = true.
Proof. exact K_op_amend_step. Qed.

(* Scheduler._reset_step_to_pending (a skip that turned out impossible) of a leaf step:
   reset_for_rerun, the stored hash is dropped, the step goes back to PENDING *)
Theorem C01_K_preserved_by_OpResetToPending_leaf :
  forall l s, inv_core_b s = true -> leaf_step l s ->
    (forall f, In f (file_products_in l is_built (rr_pre l s)) -> producers_not_succ (rr_pre l s) f) ->
    K_b s = true -> K_b (apply_op s (OpResetToPending l)) = true.
Proof. exact K_op_reset_to_pending_leaf_inv. Qed.

(* The end-of-run transaction of a run that FAILED or was DEFERRED (every failure branch of
   Step.mark_completed: failed, deferred, deferred more often than the cap), for a step that
   created no steps.  Protocol hypotheses: nothing is reported for the inputs, the files reported
   with cause FAILED are PLANNED / OUTDATED outputs, no product of the step is BUILT
   (reset_for_rerun outdated them when the run started).  A plan step that fails detaches the
   steps it created, which breaks K on purpose until they are re-declared (D4 family). *)
Theorem C01_K_preserved_by_OpExecEnd_failure_leaf :
  forall l hs wd s, inv_core_b s = true -> unbuilt_update hs s ->
    file_products_in l is_built s = [] -> no_created_steps l s -> K_b s = true ->
    K_b (apply_op s (OpExecEnd l [] CFailed hs false wd)) = true.
Proof. exact K_op_exec_end_failure_leaf_inv. Qed.

(* Workflow.define_step whenever it does NOT take the full-recycle branch (Trellis.try_recycle, the
   branch refuted above: D4).  [recycles l inp env out vol s] = the node exists, is detached and
   can_recycle holds.  Otherwise the step is created anew (a new node, or a detached node
   re-created: partial recycle -- its old creator, detached, loses its hash, its input edges are cut,
   its products, detached like itself, are orphaned) and starts PENDING; inputs, variables and
   outputs are attached as amend_step does it. *)
Theorem C01_K_preserved_by_OpDefineStep_without_full_recycle :
  forall creator l inp env out vol nd s,
    inv_core_b s = true -> recycles l inp env out vol s = false -> K_b s = true ->
    K_b (apply_op s (OpDefineStep creator l inp env out vol nd)) = true.
Proof. exact K_op_define_step_no_recycle. Qed.

(* All of the above in one statement.  [K_side o s] (proofs/NoStaleAll.v) is the side condition of
   transaction [o] in state [s]: True for declare_static, dispatch, validate_pending,
   mark_step_pending, delete_detached, hold, release, reset_interrupted; "every named file is
   UNCONFIRMED / MISSING / CONFIRMED" for update_hashes; "the step is not SUCCEEDED" for
   amend_step; "no full recycle" for define_step; the leaf-step conditions for reset_for_rerun /
   reset_to_pending; the protocol conditions of the success or of the failure branch (leaf step)
   for exec_end. *)
Theorem C01_K_preserved_by_every_transaction_partial :
  forall o s, inv_core_b s = true -> K_side o s -> K_b s = true -> K_b (apply_op s o) = true.
Proof. exact K_preserved_all. Qed.

(* Along every history from the empty workflow whose transactions meet their side conditions, K
   holds at the end.  The premise on inv_core_b is what C09 proves for every history
   (C09_reachable_inv_core); its proof is not imported into this closure. *)
Theorem C01_K_along_histories_partial :
  forall cap ops,
    (forall pre, inv_core_b (run_ops pre (init_st cap)) = true) ->
    sides_ok (init_st cap) ops -> K_b (run_ops ops (init_st cap)) = true.
Proof. exact K_history. Qed.

(* The side conditions are met by a real build: every transaction of build 1 of the D4 history
   (boot, two define_step, dispatch, reset_for_rerun, the successful ends of the plan and of cat,
   delete_detached).  In build 2 the re-definition of cat IS a full recycle. *)
Example C01_K_side_conditions_hold_along_build1 : sides_ok (init_st 3) d4_build1.
Proof. exact sides_ok_build1. Qed.

Example C01_build2_redefinition_is_a_full_recycle :
  recycles s_cat [s_x] [] [s_y] []
           (run_ops (d4_build1 ++ firstn 5 d4_build2) (init_st 3)) = true.
Proof. vm_compute. reflexivity. Qed.

(* The hypotheses are satisfiable: the state after build 1 of the D4 history satisfies the
   invariant and K; and in the middle of that build (cat is RUNNING after reset_for_rerun) the
   protocol hypotheses of the failure theorem hold for cat. *)
Definition d4_cat_running : list op :=
  boot_ops ++
  [ OpDeclareStatic k_plan [s_x]; OpUpdateHashes CConfirmed [(s_x, Some 2)];
    OpDefineStep k_plan s_cat [s_x] [] [s_y] [] NDefault;
    OpExecEnd s_plan [] CSucceeded [] true false; OpDispatch s_cat; OpResetForRerun s_cat ].

Example C01_K_hypotheses_satisfiable :
  let s := run_ops d4_build1 (init_st 3) in
  let t := run_ops d4_cat_running (init_st 3) in
  inv_core_b s = true /\ K_b s = true /\
  inv_core_b t = true /\ K_b t = true /\ sstate_of s_cat t = Some SRunning /\
  file_products_in s_cat is_built t = [] /\ no_created_steps s_cat t /\
  sstate_of s_cat (apply_op t (OpExecEnd s_cat [] CFailed [] false false)) = Some SFailed /\
  sstate_of s_cat (apply_op t (OpExecEnd s_cat [] CFailed [] false true)) = Some SPending.
Proof. vm_compute. repeat split; reflexivity. Qed.

(* ------------------------------------------------------------------------------------------ *)
(* Abstract engine (model/Engine.v): static-DAG fragment                                       *)
(* ------------------------------------------------------------------------------------------ *)
From SV Require Import model.Engine proofs.EngineProofs proofs.EngineRecProofs.

(* The full statement, for ANY incremental build engine: after any sequence of worlds (a world =
   all source files including plan and step scripts, and the tracked environment), building the
   last world on top of what the earlier builds left is equivalent to building it on nothing.
   C01 is [C01_full_for] at the real engine: worlds include the plan scripts, the workflow
   (steps, declarations, sub-plans, optional steps, amended inputs and outputs) is itself computed
   by running plan steps, a plan edit drops / re-adds / redefines steps (recycling of detached
   nodes), [equiv] = same active steps, files, states and relations, same bytes of every declared
   output, same return code, and [build] ranges over restart and watch-mode rebuilds and over all
   schedules.  No Gallina model of that engine exists here; model/Graph.v is its stored-workflow
   part, where the necessary invariant K is refuted above (D4), and harness/p_c01.py compares the
   real engine with itself from scratch on generated histories. *)
Definition C01_full_for {world state : Type} (empty : state) (build : world -> state -> state)
           (equiv : state -> state -> Prop) : Prop :=
  forall (ws : list world) (w : world),
    equiv (build w (fold_left (fun s x => build x s) ws empty)) (build w empty).

Section StaticDag.
  (* the programs run by the steps: any deterministic functions of the declared inputs and of
     the tracked variables *)
  Variable run : N -> list (option N) -> list (option N) -> N -> N.

  (* Skipping is sound: when the recorded trace of a step is valid and its input and output
     ingredients equal the present ones, running the step would leave every file as it is. *)
  Theorem C01_skip_sound :
    forall (s : step) (y : sys) (t : trace),
      NoDup (out s) -> (forall p, In p (inp s) -> ~ In p (out s)) ->
      tr y (sid s) = Some t -> trace_valid run s t -> can_skip s y = true ->
      forall p, fs (do_run run s y) p = fs (do_skip s y) p.
  Proof. exact (skip_sound run). Qed.

  (* A build re-establishes the invariant (valid traces, K = no stale success, closure) and ends
     in a finished state without touching sources or environment. *)
  Theorem C01_build_establishes_K :
    forall (proj : project) (y : sys),
      wf proj = true -> Pre run proj y ->
      Pre run proj (build run proj y) /\ K proj (build run proj y) /\
      Finished run proj (build run proj y) /\ same_world proj y (build run proj y).
  Proof. intros proj y H. apply build_establishes_K. apply wf_WF. exact H. Qed.

  (* Pending propagation keeps the invariant: after any edit of a source or a variable every
     step that is still SUCCEEDED has an unchanged trace, inputs, outputs and producers. *)
  Theorem C01_edit_preserves_K :
    forall (proj : project) (y : sys) (e : edit),
      wf proj = true -> Pre run proj y -> Pre run proj (apply_edit proj y e).
  Proof. intros proj y e H. apply apply_edit_Pre. apply wf_WF. exact H. Qed.

  (* Watch flavour (edits as events): for every static-DAG project, every initial source tree and
     environment and every finite history of edits interleaved with builds, K holds at the end
     and the final state has the step states and the output contents of a from-scratch build of
     the final sources.  No bound on the size of the project or of the history. *)
  Theorem C01_scratch_equiv_static_dag_partial :
    forall (proj : project),
      wf proj = true ->
      forall (hist : list (list edit)) (src env : N -> option N),
        let y := run_history run proj hist (scratch run proj src env) in
        K proj y /\ same_result proj y (scratch run proj (fs y) (ev y)).
  Proof. exact (K_implies_scratch_equiv_static_dag run). Qed.

  (* Restart flavour (absolute worlds, startup rescan): the full statement holds for the engine
     of model/Engine.v on every static DAG. *)
  Theorem C01_full_for_static_dag_partial :
    forall (proj : project),
      wf proj = true ->
      C01_full_for empty_sys (build_world run proj) (same_result proj).
  Proof. intros proj H ws w. apply restart_equiv_scratch_static_dag. exact H. Qed.
End StaticDag.

(* The values recorded for tracked variables (table env_var, column value).  The code does not
   compare the environment with "the previous environment" but with one recorded value per
   (step, variable) row, which the startup rescan rewrites for the rows it found changed
   (startup.rescan_env_vars).  [rsys] = [sys] + these rows, [resync_r] = the rescan on rows. *)

(* After the rescan EVERY row of EVERY step holds the value the rescan saw -- for all projects,
   states (whatever the rows held before) and worlds, and for steps with any number of tracked
   variables of which any number changed. *)
Theorem C01_rescan_records_every_tracked_variable :
  forall (proj : project) (y : rsys) (w : world) (s : step) (n : N),
    In s proj -> In n (envn s) -> rrec (resync_r proj y w) (sid s) n = snd w n.
Proof. exact resync_r_records_all. Qed.

(* On a state whose rows hold the environment of the previous build, the rescan on rows is the
   rescan [resync] of the theorems above. *)
Theorem C01_rescan_with_recorded_values_is_resync :
  forall (proj : project) (y : rsys) (w : world),
    RecOK proj y -> rbase (resync_r proj y w) = resync proj (rbase y) w.
Proof. exact resync_r_base. Qed.

Section Recorded.
  Variable run : N -> list (option N) -> list (option N) -> N -> N.

  (* Detection: after ANY build of a world w1 (no assumption on the state before it), a restart
     on a world w2 that differs from w1 in a variable tracked by a step marks that step PENDING:
     whatever the other variables of the step do, and whether the new value is fresh or one the
     variable had in an earlier build (A -> B -> A over any subset of the variables). *)
  Theorem C01_restart_detects_every_tracked_variable :
    forall (proj : project) (y : rsys) (w1 w2 : world) (s : step) (n : N),
      wf proj = true -> In s proj -> In n (envn s) -> snd w2 n <> snd w1 n ->
      stt (rbase (resync_r proj (build_world_r run proj w1 y) w2)) (sid s) = Pending.
  Proof.
    intros proj y w1 w2 s n H. apply restart_detects_every_tracked_variable.
    destruct (wf_WF proj H) as [Hnd _]. exact Hnd.
  Qed.

  (* Restart flavour, engine with rows: the full statement on every static DAG. *)
  Theorem C01_full_for_static_dag_recorded_partial :
    forall (proj : project),
      wf proj = true ->
      C01_full_for empty_rsys (build_world_r run proj)
                   (fun a b => same_result proj (rbase a) (rbase b)).
  Proof. intros proj H ws w. apply restart_recorded_equiv_scratch. exact H. Qed.
End Recorded.

(* With a write-back of ONE row per step (the list of triples replaced by a dictionary keyed by
   the step) the statement is false: a step tracking two variables, built with (1, 1), then
   (2, 2), then (1, 2): the row of the first variable still holds 1 after the second build, the
   third start sees no change, nothing runs, the output of (2, 2) is kept; from scratch (1, 2). *)
Theorem C01_env_writeback_one_per_step_refuted :
  let w := ab_world 1 2 in
  let one := build_world_with mix_run resync_r_one ab_proj w (ab_after2 resync_r_one) in
  let all := build_world_with mix_run resync_r ab_proj w (ab_after2 resync_r) in
  let scr := build_world_r mix_run ab_proj w empty_rsys in
  wf ab_proj = true /\
  rrec (ab_after2 resync_r_one) 1 7 = Some 1 /\ rrec (ab_after2 resync_r_one) 1 8 = Some 2 /\
  rrec (ab_after2 resync_r) 1 7 = Some 2 /\ rrec (ab_after2 resync_r) 1 8 = Some 2 /\
  build_log mix_run ab_proj ab_proj (rbase (resync_r_one ab_proj (ab_after2 resync_r_one) w)) = [] /\
  build_log mix_run ab_proj ab_proj (rbase (resync_r ab_proj (ab_after2 resync_r) w)) = [(1, true)] /\
  same_result_b ab_proj (rbase one) (rbase scr) = false /\
  same_result_b ab_proj (rbase all) (rbase scr) = true.
Proof. exact writeback_one_per_step_refuted. Qed.

(* What the two static-DAG theorems leave out of C01: (1) dynamic workflows.  Plan edits that add,
   drop or redefine steps BETWEEN builds, with recycling, are covered further down
   (C01_plan_edits_equiv_scratch_partial); still out: the plan being itself a step that runs
   DURING the build (steps, static declarations and globs created while other steps run,
   sub-plans), detached nodes that survive a skipped cleanup and are recycled later (F5 = D29),
   the stored hash kept by a partial recycle; (2) amended inputs, outputs and variables, deferred
   steps; (3) optional steps, targets and the cleanup pass; (4) failing steps, draining,
   interrupted builds; (5) concurrent schedules (the engine processes one topological order;
   C02); (6) the stored value a variable is compared with at startup (F6 = D30: the code compares
   with the value recorded at declaration time, the model with the last one seen). *)

(* The hypotheses are satisfiable: a diamond  1 -> A -> 10 -> {B, C} -> {11, 12} -> D -> 13
   with a second source 2 read by C and a variable 7 tracked by B. *)
Definition diamond : project :=
  [ mkStep 100 [1] [] [10]; mkStep 101 [10] [7] [11]; mkStep 102 [10; 2] [] [12];
    mkStep 103 [11; 12] [] [13] ].
Definition sum_run (id : N) (ins : list (option N)) (envs : list (option N)) (p : N) : N :=
  fold_left (fun a o => match o with Some c => a * 31 + c + 1 | None => a * 31 end) (ins ++ envs) (id + p).
Definition src0 : N -> option N := fun p => if p =? 1 then Some 5 else if p =? 2 then Some 6 else None.
Definition env0 : N -> option N := fun n => if n =? 7 then Some 3 else None.

Example C01_diamond_wf : wf diamond = true.
Proof. vm_compute. reflexivity. Qed.

(* a history on the diamond: change source 2 (only C and D rerun, A and B are kept), then change
   variable 7 (only B and D), then restore source 2; the log of each build lists (step, ran?) *)
Example C01_diamond_history_logs :
  let y0 := scratch sum_run diamond src0 env0 in
  let y1e := apply_edit diamond y0 (EWrite 2 (Some 9)) in
  let y1 := build sum_run diamond y1e in
  let y2e := apply_edit diamond y1 (ESetEnv 7 (Some 4)) in
  build_log sum_run diamond diamond (init diamond src0 env0)
    = [(100, true); (101, true); (102, true); (103, true)] /\
  build_log sum_run diamond diamond y1e = [(102, true); (103, true)] /\
  build_log sum_run diamond diamond y2e = [(101, true); (103, true)] /\
  map (stt y1) [100; 101; 102; 103] = [Succeeded; Succeeded; Succeeded; Succeeded].
Proof. vm_compute. repeat split; reflexivity. Qed.

(* a step is skipped when its inputs come back: delete source 2 and build (C and D stay PENDING),
   put the old content back: C is hash-checked and skipped, D likewise *)
Example C01_diamond_skip :
  let y0 := scratch sum_run diamond src0 env0 in
  let y1 := build sum_run diamond (apply_edit diamond y0 (EWrite 2 None)) in
  let y2e := apply_edit diamond y1 (EWrite 2 (Some 6)) in
  map (stt y1) [100; 101; 102; 103] = [Succeeded; Succeeded; Pending; Pending] /\
  build_log sum_run diamond diamond y2e = [(102, false); (103, false)] /\
  map (fs (build sum_run diamond y2e)) [10; 11; 12; 13] = map (fs y0) [10; 11; 12; 13].
Proof. vm_compute. repeat split; reflexivity. Qed.

(* ------------------------------------------------------------------------------------------ *)
(* Beyond the static DAG: plan edits that add, drop or redefine steps, with recycling          *)
(* ------------------------------------------------------------------------------------------ *)
Section PlanEdits.
  Variable run : N -> list (option N) -> list (option N) -> N -> N.

  (* For every history of (project, world) pairs -- between two builds the plan may add, drop and
     redefine steps (identical definitions are fully recycled with state and trace, everything
     else starts PENDING), and sources, static declarations (a world only shows declared paths)
     and tracked variables may change arbitrarily -- building the last pair on top of what the
     earlier builds left is equivalent to building it on nothing.  The engine is the one of
     model/Engine.v with the rescan [resync], whose pending propagation treats a lost
     declaration like any other change of an input. *)
  Theorem C01_plan_edits_equiv_scratch_partial :
    forall (hist : list (project * world)) (P : project) (w : world),
      (forall pw, In pw hist -> wf (fst pw) = true) -> wf P = true ->
      same_result P (snd (run_dyn run (hist ++ [(P, w)]))) (build_world run P w empty_sys).
  Proof. exact (dyn_equiv_scratch run). Qed.

  (* the step that makes it work: pending propagation repairs the closure after a retargeting *)
  Theorem C01_rescan_repairs_recycled_state :
    forall (P P' : project) (w : world) (y : sys),
      wf P' = true -> Pre run P y ->
      Pre run P' (rebuild_dyn run P y P' w) /\ Finished run P' (rebuild_dyn run P y P' w).
  Proof.
    intros P P' w y H HP. destruct (rebuild_dyn_inv run P P' w y (wf_WF P' H) HP) as (H1 & H2 & _).
    split; assumption.
  Qed.
End PlanEdits.

(* D4 at this level: with the rescan as the code performs it ([resync_code]: a path whose
   declaration was dropped is not a change) the statement is false.  Project: cat reads 10 and
   writes 20; 10 is on disk all the time; the first plan declares it static, the second does not. *)
Definition d4_proj : project := [mkStep 1 [10] [] [20]].
Definition d4_disk : N -> option N := fun p => if p =? 10 then Some 5 else None.
Definition d4_w1 : world := (visible [10] d4_disk, fun _ => None).
Definition d4_w2 : world := (visible [] d4_disk, fun _ => None).

Theorem C01_D4_engine_refuted :
  let hist := [(d4_proj, d4_w1); (d4_proj, d4_w2)] in
  let scr := build_world mix_run d4_proj d4_w2 empty_sys in
  stt (snd (run_dyn_code mix_run hist)) 1 = Succeeded /\ stt scr 1 = Pending /\
  same_result_b d4_proj (snd (run_dyn_code mix_run hist)) scr = false /\
  same_result_b d4_proj (snd (run_dyn mix_run hist)) scr = true.
Proof. vm_compute. repeat split; reflexivity. Qed.

(* drop a step, change its input, re-add it unchanged; redefine a producer: the hypotheses of
   C01_plan_edits_equiv_scratch_partial are satisfiable and the recycled steps do get skipped *)
Example C01_plan_edit_history :
  let A := mkStep 100 [1] [] [10] in
  let B := mkStep 101 [10] [] [11] in
  let A' := mkStep 100 [1; 2] [] [10] in
  let w := (src0, env0) in
  let y1 := snd (run_dyn sum_run [([A; B], w)]) in
  let r2 := retarget [A; B] [A] y1 in
  let y2 := rebuild_dyn sum_run [A; B] y1 [A] w in
  let r3 := resync [A; B] (retarget [A] [A; B] y2) w in
  let y3 := rebuild_dyn sum_run [A] y2 [A; B] w in
  let r4 := resync [A'; B] (retarget [A; B] [A'; B] y3) w in
  wf [A; B] = true /\ wf [A'; B] = true /\
  build_log sum_run [A] [A] (resync [A] r2 w) = [] /\                      (* A fully recycled *)
  build_log sum_run [A; B] [A; B] r3 = [(101, true)] /\                   (* B is new again  *)
  build_log sum_run [A'; B] [A'; B] r4 = [(100, true); (101, true)].      (* A redefined      *)
Proof. vm_compute. repeat split; reflexivity. Qed.

(* ------------------------------------------------------------------------------------------ *)
(* Amended (dynamic) inputs with deferral (model/Engine.v, Section Amend)                      *)
(* ------------------------------------------------------------------------------------------ *)
From SV Require Import proofs.EngineAmendProofs proofs.EngineAmendFull.

(* The statement for this fragment: the ungated engine (remembered amended edges and the deferred
   flag do not block a rerun) with failing steps (builds with --keep-going), on projects whose
   order is topological for amended edges too.  [same_result_a] = same step states (SUCCEEDED /
   FAILED / PENDING), same contents of every output of a SUCCEEDED step.
   Proved below (C01_amend_full_holds): a finished state is determined by the world
   (proofs/EngineAmendProofs.v) and every build from every state that builds reach ends in a
   finished state (proofs/EngineAmendFull.v). *)
Definition C01_amend_full : Prop :=
  forall run amend fails proj, wf_a amend proj ->
    C01_full_for empty_asys (build_world_a run amend fails false proj) (same_result_a proj).

(* For ALL programs [run], ALL amend behaviours (which further inputs a step asks for, as a
   function of the contents of its declared inputs), ALL failure behaviours [fails] (whether the
   command fails, as a function of the contents of declared ++ amended inputs and of the values
   of the tracked variables), ALL projects whose order is topological for declared and amended
   inputs, ALL finite sequences of worlds (sources changed, deleted, restored, scripts switched
   so that other inputs are amended or the step fails / is repaired, variables changed): building
   the last world on top of what the earlier builds left -- recorded traces, remembered amended
   edges, deferred steps, failed steps -- has the step states and the output contents of
   building it on nothing.  No hypothesis besides wf_a. *)
Theorem C01_amend_full_holds : C01_amend_full.
Proof. intros run amend fails proj H ws w. apply amend_equiv_scratch. exact H. Qed.

Section Amended.
  Variable run : N -> list (option N) -> list (option N) -> N -> N.
  Variable amend : N -> list (option N) -> list N.
  Variable fails : N -> list (option N) -> list (option N) -> bool.

  (* Finished_a = at every step, with its amended inputs made explicit: declared and amended
     inputs all available and the command succeeds => SUCCEEDED with outputs run(contents of
     declared ++ amended inputs, variables); all available and the command fails => FAILED;
     otherwise PENDING.  Two finished states with the same sources and environment have the same
     step states and the same outputs of SUCCEEDED steps -- whatever the builds before did and
     whatever amended edges and deferred flags they left. *)
  Theorem C01_amended_finished_state_unique :
    forall (proj : project) (y z : asys),
      wf_a amend proj -> Finished_a run amend fails proj y -> Finished_a run amend fails proj z ->
      same_world proj (abase y) (abase z) -> same_result_a proj y z.
  Proof. exact (finished_a_unique run amend fails). Qed.

  (* The other half.  [InvA] (proofs/EngineAmendFull.v) = recorded traces valid for the step with
     its REMEMBERED amended inputs, remembered amended inputs = what the step amends on the
     recorded declared-input contents, K and closure over declared ++ remembered inputs,
     remembered inputs come from earlier steps, the run that recorded a trace did not fail.  It
     holds in the empty state, survives the startup rescan on any world (which also makes every
     FAILED step PENDING again) and every build of the ungated engine, and a build from a state
     that satisfies it and has no FAILED step ends in a finished state with sources and
     environment untouched. *)
  Theorem C01_amended_build_ends_finished :
    forall (proj : project) (y : asys),
      wf_a amend proj -> InvA run amend fails proj y ->
      (forall q, In q proj -> afail y (sid q) = false) ->
      InvA run amend fails proj (a_build run amend fails false proj y) /\
      Finished_a run amend fails proj (a_build run amend fails false proj y) /\
      same_world proj (abase y) (abase (a_build run amend fails false proj y)).
  Proof. intros proj y H. exact (a_build_ok run amend fails proj H y). Qed.

  Theorem C01_amended_rescan_keeps_invariant :
    forall (proj : project) (y : asys) (w : world),
      wf_a amend proj -> InvA run amend fails proj y ->
      InvA run amend fails proj (resync_a proj y w) /\ (forall id, afail (resync_a proj y w) id = false).
  Proof.
    intros proj y w H HI. destruct (resync_a_inv run amend fails proj H y w HI) as (H1 & _ & _ & H4).
    split; assumption.
  Qed.

  Theorem C01_amended_every_reached_state_finished :
    forall (proj : project) (ws : list world) (w : world),
      wf_a amend proj ->
      Finished_a run amend fails proj
        (build_world_a run amend fails false proj w
           (fold_left (fun s x => build_world_a run amend fails false proj x s) ws empty_asys)).
  Proof.
    intros proj ws w H.
    exact (proj1 (proj2 (build_world_a_inv run amend fails proj H w _
                           (worlds_a_inv run amend fails proj H ws empty_asys
                                         (empty_InvA run amend fails proj))))).
  Qed.
End Amended.

(* D28 at this level.  With the dispatch gating of the code (a remembered amended input that is an
   output of a step that cannot run blocks the consumer) the statement is false: step 2 amended the
   output of step 1 while its script had version 5; then the script changes to version 6 (amends
   nothing) and the source of step 1 disappears: incrementally step 2 is never dispatched, from
   scratch it runs and succeeds.  Without the gating the two agree on this history. *)
Theorem C01_D28_engine_refuted :
  let inc g := bw28 g w28b (bw28 g w28a empty_asys) in
  let scr g := bw28 g w28b empty_asys in
  map (stt (abase (bw28 true w28a empty_asys))) [1; 2] = [Succeeded; Succeeded] /\
  adyn (bw28 true w28a empty_asys) 2 = [10] /\
  a_build_log mix_run (amend_tab tab28) no_fail true p28 p28 (resync_a p28 (bw28 true w28a empty_asys) w28b) = [] /\
  map (stt (abase (inc true))) [1; 2] = [Pending; Pending] /\
  map (stt (abase (scr true))) [1; 2] = [Pending; Succeeded] /\
  same_result_b p28 (abase (inc true)) (abase (scr true)) = false /\
  a_build_log mix_run (amend_tab tab28) no_fail false p28 p28 (resync_a p28 (bw28 false w28a empty_asys) w28b)
    = [(2, true)] /\
  same_result_b p28 (abase (inc false)) (abase (scr false)) = true.
Proof. exact D28_engine_refuted. Qed.

(* the hypothesis wf_a is satisfiable: the project of the witness *)
Example C01_wf_a_p28 : wf_a (amend_tab tab28) p28.
Proof.
  intros y. unfold eproj, p28, eff, extra_now, amend_tab, tab28. cbn [map inp sid envn out].
  destruct (fs y 3); destruct (fs y 2) as [c|]; cbn [find fst snd];
    try (vm_compute; reflexivity).
  all: change (2 =? 2) with true; cbn [andb]; destruct (5 =? c); vm_compute; reflexivity.
Qed.

(* The ungated engine on the D28 project through a deferral: with script version 5 step 2 amends the
   output 10 of step 1.  World C has the script but not the source of step 1: step 2 runs, asks
   for 10, which is not built: DEFERRED (its command ran, it stays PENDING).  World A brings the
   source: step 1 runs, then step 2.  Back to C: step 1 cannot run, step 2 is rerun and deferred
   again; the result is that of building C on nothing (an instance of C01_amend_full_holds). *)
Definition w28c : world := (src_of [(2, 5)], fun _ => None).
Example C01_amend_deferral_history :
  let y1 := bw28 false w28c empty_asys in
  let y2 := bw28 false w28a y1 in
  let y3 := bw28 false w28c y2 in
  a_build_log mix_run (amend_tab tab28) no_fail false p28 p28 (resync_a p28 empty_asys w28c) = [(2, true)] /\
  map (stt (abase y1)) [1; 2] = [Pending; Pending] /\ adyn y1 2 = [10] /\ adef y1 2 = true /\
  a_build_log mix_run (amend_tab tab28) no_fail false p28 p28 (resync_a p28 y1 w28a) = [(1, true); (2, true)] /\
  map (stt (abase y2)) [1; 2] = [Succeeded; Succeeded] /\
  a_build_log mix_run (amend_tab tab28) no_fail false p28 p28 (resync_a p28 y2 w28c) = [(2, true)] /\
  map (stt (abase y3)) [1; 2] = [Pending; Pending] /\
  same_result_b p28 (abase y3) (abase y1) = true.
Proof. vm_compute. repeat split; reflexivity. Qed.

(* A failing step that is repaired (ungated engine, builds with --keep-going).  Project: step 1
   reads source 3 and writes 10; step 2 = script 2 reads 10 (declared) and writes 20; step 3 reads
   20 and writes 30; step 4 reads source 3 and writes 40.  Script version 6 fails, versions 5 and 7
   work.  Build with version 5: everything runs.  Version 6: step 2 runs and FAILS, 3 stays
   PENDING (its input is no longer built), 1 and 4 are untouched.  The source changes while the
   script is still broken: 1 and 4 rerun (keep going), 2 fails again.  Version 7 repairs it: 2
   and 3 run.  After every build the state equals the one of a build from scratch of that world
   (instances of C01_amend_full_holds). *)
Definition pF : project :=
  [mkStep 1 [3] [] [10]; mkStep 2 [2; 10] [] [20]; mkStep 3 [20] [] [30]; mkStep 4 [3] [] [40]].
Definition ftabF : list (N * N) := [(2, 6)].
Definition wF (script src : N) : world := (src_of [(2, script); (3, src)], fun _ => None).
Definition bwF (w : world) (y : asys) : asys :=
  build_world_a mix_run (amend_tab []) (fail_tab ftabF) false pF w y.
Definition logF (w : world) (y : asys) : list (N * bool) :=
  a_build_log mix_run (amend_tab []) (fail_tab ftabF) false pF pF (resync_a pF y w).
Definition same_result_ab (proj : project) (y z : asys) : bool :=
  same_result_b proj (abase y) (abase z) &&
  forallb (fun s => Bool.eqb (afail y (sid s)) (afail z (sid s))) proj.

Example C01_wf_a_pF : wf_a (amend_tab []) pF.
Proof.
  intros y. unfold eproj, pF, eff, extra_now, amend_tab. cbn [map inp sid envn out find].
  destruct (fs y 3); destruct (fs y 2); destruct (fs y 20); vm_compute; reflexivity.
Qed.

Example C01_failing_step_repaired :
  let y1 := bwF (wF 5 1) empty_asys in
  let y2 := bwF (wF 6 1) y1 in
  let y3 := bwF (wF 6 2) y2 in
  let y4 := bwF (wF 7 2) y3 in
  logF (wF 5 1) empty_asys = [(1, true); (2, true); (3, true); (4, true)] /\
  logF (wF 6 1) y1 = [(2, true)] /\
  map (stt (abase y2)) [1; 2; 3; 4] = [Succeeded; Pending; Pending; Succeeded] /\
  map (afail y2) [1; 2; 3; 4] = [false; true; false; false] /\
  logF (wF 6 2) y2 = [(1, true); (2, true); (4, true)] /\
  map (afail y3) [1; 2; 3; 4] = [false; true; false; false] /\
  logF (wF 7 2) y3 = [(2, true); (3, true)] /\
  map (stt (abase y4)) [1; 2; 3; 4] = [Succeeded; Succeeded; Succeeded; Succeeded] /\
  map (afail y4) [1; 2; 3; 4] = [false; false; false; false] /\
  same_result_ab pF y2 (bwF (wF 6 1) empty_asys) = true /\
  same_result_ab pF y3 (bwF (wF 6 2) empty_asys) = true /\
  same_result_ab pF y4 (bwF (wF 7 2) empty_asys) = true.
Proof. vm_compute. repeat split; reflexivity. Qed.

From SV Require Import model.EnginePlan proofs.EnginePlanProofs.

(* ------------------------------------------------------------------------------------------ *)
(* Dynamic plans: steps defined by steps while the build runs (model/EnginePlan.v)             *)
(* ------------------------------------------------------------------------------------------ *)
(* The full statement for the engine in which the plan is part of the build: for ALL programs,
   ALL plan behaviours (which steps a step defines, as a function of what it read), ALL
   well-formed universes of definitions and ALL finite sequences of worlds, building the last
   world on what the earlier builds left has the trusted region (the workflow that the plans
   define), the step states and the output contents of building it on nothing. *)
Definition C01_plan_full : Prop :=
  forall run plan U, wf_u U = true ->
    C01_full_for (p_empty U) (build_world_p run plan U) (same_result_p U).

(* One half holds for all universes: the result of a build from scratch is DETERMINED by the
   world.  [Finished_p] = in the trusted region the creator links are what the creators define on
   the present contents, and a trusted step is SUCCEEDED with outputs run(inputs, variables) iff
   its inputs are available through trusted producers.  Two such states with the same sources and
   environment have the same trusted region, the same states and the same outputs, whatever else
   (detached nodes, products of plans that cannot rerun, stored hashes) they carry. *)
Theorem C01_plan_finished_state_unique_partial :
  forall run plan (U : universe) (y z : psys),
    wf_u U = true -> Finished_p run plan U y -> Finished_p run plan U z -> same_world_p U y z ->
    same_result_p U y z.
Proof. exact finished_p_unique. Qed.

(* The other half -- every build ends in such a state -- is FALSE for the engine as the code has
   it.  Witness 1 (= finding F9 / D43, replayed on the real system by the guard case
   subplan-input-deleted): plan.py (1) defines the sub-plan p1 (2, inputs p1.py and data/cfg.txt)
   and step u (4: o.txt -> u.txt); p1 defines step t (3: s.txt -> o.txt).  After a first build
   data/cfg.txt disappears: p1 is PENDING and cannot run, its product t stays attached and
   SUCCEEDED, so u stays SUCCEEDED; from scratch t is never defined and u is PENDING. *)

Example C01_wf_u_uF9 : wf_u uF9 = true.
Proof. exact wf_u_uF9. Qed.

Theorem C01_plan_memory_refuted :
  let inc := bwF9 wF9b (bwF9 wF9a (p_empty uF9)) in
  let scr := bwF9 wF9b (p_empty uF9) in
  map (fun id => (attached uF9 inc id, trusted uF9 inc id, is_succ (stt (pbase inc) id))) [1; 2; 3; 4]
  = [(true, true, true); (true, true, false); (true, false, true); (true, true, true)] /\
  map (fun id => (attached uF9 scr id, trusted uF9 scr id, is_succ (stt (pbase scr) id))) [1; 2; 3; 4]
  = [(true, true, true); (true, true, false); (false, false, false); (true, true, false)] /\
  same_result_pb uF9 inc scr = false.
Proof. exact plan_memory_refuted. Qed.

Theorem C01_plan_full_refuted : ~ C01_plan_full.
Proof. exact plan_full_refuted. Qed.

(* Witness 2 (D4 inside one build): the sub-plan p1 is edited (version 2 defines nothing): its
   rerun drops the producer t, the consumer u of the main plan keeps SUCCEEDED (the cleanup pass
   even keeps the detached producer because u still uses its output); from scratch u is PENDING.
   Switching p1 back recycles t with its state: nothing runs. *)

Theorem C01_plan_D4_in_build_refuted :
  let y1 := bwD4 (wD4 1) (p_empty uF9) in
  let inc := bwD4 (wD4 2) y1 in
  let scr := bwD4 (wD4 2) (p_empty uF9) in
  logD4 (wD4 2) y1 = [(2, true)] /\
  map (fun id => (attached uF9 inc id, is_succ (stt (pbase inc) id))) [1; 2; 3; 4]
  = [(true, true); (true, true); (false, true); (true, true)] /\
  map (fun id => (attached uF9 scr id, is_succ (stt (pbase scr) id))) [1; 2; 3; 4]
  = [(true, true); (true, true); (false, false); (true, false)] /\
  same_result_pb uF9 inc scr = false /\
  logD4 (wD4 1) inc = [(2, true)] /\
  same_result_pb uF9 (bwD4 (wD4 1) inc) y1 = true.
Proof. exact plan_D4_in_build_refuted. Qed.

(* A history on which the engine does agree with a build from scratch: the source of t changes
   (t and u rerun), then plan.py is rerun by an edit that keeps its definitions (every consumer
   of a static file it declares is re-validated by its hash and skipped). *)
Example C01_plan_history_agrees :
  let y1 := bwOK (wOK 1 1) (p_empty uF9) in
  let y2 := bwOK (wOK 1 2) y1 in
  let y3 := bwOK (wOK 2 2) y2 in
  p_build_log mix_run (plan_tab tabOK) uF9 uF9 (p_resync uF9 y1 (wOK 1 2)) = [(3, true); (4, true)] /\
  p_build_log mix_run (plan_tab tabOK) uF9 uF9 (p_resync uF9 y2 (wOK 2 2)) = [(1, true); (2, false); (3, false); (4, false)] /\
  same_result_pb uF9 y3 (bwOK (wOK 2 2) (p_empty uF9)) = true.
Proof. vm_compute. repeat split; reflexivity. Qed.

(* ------------------------------------------------------------------------------------------ *)
(* Environment overrides of a step (model/EngineOvr.v)                                         *)
(* ------------------------------------------------------------------------------------------ *)
From SV Require Import model.EngineOvr proofs.EngineOvrProofs.

(* The overrides (leading VAR=value words of the command, the env_overrides argument) are part of
   the step definition and an ingredient of its hash, but not of its label.  Encoding: step id =
   [oid key o] (node key, code of the override set; 0 = none).  The encoding loses nothing, and
   every theorem above quantifies over all ids, hence over all override codes: for the recycle
   rule of the model a plan edit that adds, changes or removes the overrides of a step is a
   re-definition and C01_plan_edits_equiv_scratch_partial applies. *)
Theorem C01_override_encoding_injective :
  forall k k' o o', o < ovr_base -> o' < ovr_base -> oid k o = oid k' o' -> k = k' /\ o = o'.
Proof. exact oid_inj. Qed.

(* Finding F10 (replayed on the real system: guard cases env-overrides:...): the recycle test of the
   code compares key, inputs, variables and outputs, not the overrides, and keeps the state: the
   step whose overrides 7 were removed stays SUCCEEDED, nothing runs ([]), its output is the one
   produced under the overrides and differs from a build from scratch; with the recycle rule of
   the model the step reruns and the results agree. *)
Theorem C01_F10_engine_refuted :
  let y1 := rebuild_dyn mix_run [] empty_sys (f10_P 7) f10_w in
  let inc_code := rebuild_ovr_code mix_run (f10_P 7) y1 (f10_P 0) f10_w in
  let inc := rebuild_dyn mix_run (f10_P 7) y1 (f10_P 0) f10_w in
  let scr := rebuild_dyn mix_run [] empty_sys (f10_P 0) f10_w in
  wf (f10_P 0) = true /\
  stt y1 (oid 1 7) = Succeeded /\
  build_log mix_run (f10_P 0) (f10_P 0) (resync (f10_P 0) (retarget_ovr_code (f10_P 7) (f10_P 0) y1) f10_w) = [] /\
  stt inc_code (oid 1 0) = Succeeded /\ same_result_b (f10_P 0) inc_code scr = false /\
  build_log mix_run (f10_P 0) (f10_P 0) (resync (f10_P 0) (retarget (f10_P 7) (f10_P 0) y1) f10_w)
  = [(oid 1 0, true)] /\
  same_result_b (f10_P 0) inc scr = true.
Proof. exact F10_engine_refuted. Qed.

(* ------------------------------------------------------------------------------------------ *)
(* Dynamic plans, the other direction: a build from scratch ends in a finished state           *)
(* ------------------------------------------------------------------------------------------ *)
(* [ustat_later_b U]: the static files that a step declares are inputs of later steps only
   (plan.py comes first and declares the sources).  For ALL programs, plan behaviours, such
   universes and worlds: the build of the world on nothing ends in a state with the defining
   equations [Finished_p], with the sources and the environment of the world.  Invariant [Inv]
   along the pass (proofs/EnginePlanProofs.v): steps that did not have their turn are PENDING
   without trace, links are exactly what SUCCEEDED creators defined, SUCCEEDED steps are trusted,
   the equation holds at every step that had its turn and survives later runs (loc3_frame), the
   re-declaration of static files marks nobody (mark_pointwise_id), the cleanup pass changes
   nothing that the equations look at. *)
Theorem C01_plan_scratch_build_ends_finished :
  forall run plan (U : universe) (w : world),
    wf_u U = true -> ustat_later_b U = true ->
    Finished_p run plan U (build_world_p run plan U w (p_empty U)) /\
    (forall p, is_output (uproj U) p = false ->
               fs (pbase (build_world_p run plan U w (p_empty U))) p = fst w p) /\
    (forall n, ev (pbase (build_world_p run plan U w (p_empty U))) n = snd w n).
Proof.
  intros run plan U w H1 H2.
  exact (scratch_finished run plan U (wf_u_WFU U H1) (ustat_later_b_ok U H2) w).
Qed.

(* Hence [Finished_p] characterises the from-scratch result: ANY state that satisfies the
   equations and has the sources and environment of [w] -- whatever history produced it -- has the
   trusted region, the states and the outputs of the build of [w] on nothing. *)
Theorem C01_plan_finished_state_is_scratch_result :
  forall run plan (U : universe) (w : world) (y : psys),
    wf_u U = true -> ustat_later_b U = true ->
    Finished_p run plan U y -> has_world U w y ->
    same_result_p U y (build_world_p run plan U w (p_empty U)).
Proof. exact finished_is_scratch. Qed.

(* C01_plan_full with one hypothesis left: for ALL histories of worlds, if the last build ends
   in a state with the defining equations, it is equivalent to the build from scratch (every
   build leaves the sources and environment of its world: build_world_p_world).  The hypothesis
   is exactly what fails in the two refuting witnesses above (F9 = D43, D4): the only way the
   engine can differ from a build from scratch is to stop in a state that is not finished. *)
Theorem C01_plan_history_finished_implies_scratch_partial :
  forall run plan (U : universe),
    wf_u U = true -> ustat_later_b U = true ->
    forall (ws : list world) (w : world),
      let inc := build_world_p run plan U w
                   (fold_left (fun s x => build_world_p run plan U x s) ws (p_empty U)) in
      Finished_p run plan U inc ->
      same_result_p U inc (build_world_p run plan U w (p_empty U)).
Proof. exact plan_history_finished_implies_scratch. Qed.

Example C01_ustat_later_uF9 : ustat_later_b uF9 = true.
Proof. vm_compute. reflexivity. Qed.

(* ------------------------------------------------------------------------------------------ *)
(* Dynamic plans: the full statement holds for a repaired engine (model/EnginePlanFix.v)       *)
(* ------------------------------------------------------------------------------------------ *)
From SV Require Import model.EnginePlanFix proofs.EnginePlanFixProofs.

(* The engine of EnginePlan.v with two repairs -- R1: an input is available only through a
   TRUSTED SUCCEEDED producer (F9 = D43); R2: a SUCCEEDED step one of whose inputs is not
   available is made PENDING when it gets its turn (D4) -- and without the forgetting of the
   cleanup pass.  For ALL programs, ALL plan behaviours (which steps a step defines, as a function
   of what it read), ALL well-formed universes whose static declarations feed later steps only,
   and ALL finite histories of worlds (sources changed, deleted, restored, plan scripts switched:
   children dropped, re-added and recycled with state, sub-plans blocked and unblocked): the last
   build has the trusted region (the workflow that the plans define), the step states and the
   output contents of building the last world on nothing.  Invariant GInv for every stored step,
   attached or not: valid traces, K, links = what the traced run defined (proofs/
   EnginePlanFixProofs.v). *)
Definition C01_plan_full_for_repaired_engine : Prop :=
  forall run plan (U : universe), wf_u U = true -> ustat_later_b U = true ->
    C01_full_for (p_empty U) (build_world_r run plan U) (same_result_p U).

Theorem C01_plan_full_repaired : C01_plan_full_for_repaired_engine.
Proof. intros run plan U H1 H2 ws w. exact (repaired_plan_full run plan U H1 H2 ws w). Qed.

(* every build of the repaired engine, from every state that builds reach, ends finished *)
Theorem C01_plan_repaired_build_ends_finished :
  forall run plan (U : universe) (ws : list world) (w : world),
    wf_u U = true -> ustat_later_b U = true ->
    Finished_p run plan U
      (build_world_r run plan U w (fold_left (fun s x => build_world_r run plan U x s) ws (p_empty U))).
Proof.
  intros run plan U ws w H1 H2.
  exact (proj1 (proj2 (build_world_r_ok run plan U (wf_u_WFU U H1) (ustat_later_b_ok U H2) w _
           (history_ginv run plan U (wf_u_WFU U H1) (ustat_later_b_ok U H2) ws _ (empty_ginv run plan U))))).
Qed.

(* on the two histories that refute the engine as the code has it, the repaired engine agrees
   with the build from scratch (F9: the consumer of the blocked sub-plan's product is reset; D4:
   the consumer of the dropped producer is reset, and runs again after the producer is back) *)
Example C01_repaired_engine_on_the_refuting_histories :
  let brF9 := build_world_r mix_run (plan_tab tabF9) uF9 in
  let brD4 := build_world_r mix_run (plan_tab tabD4) uF9 in
  same_result_pb uF9 (brF9 wF9b (brF9 wF9a (p_empty uF9))) (brF9 wF9b (p_empty uF9)) = true /\
  same_result_pb uF9 (brD4 (wD4 2) (brD4 (wD4 1) (p_empty uF9))) (brD4 (wD4 2) (p_empty uF9)) = true /\
  same_result_pb uF9 (brD4 (wD4 1) (brD4 (wD4 2) (brD4 (wD4 1) (p_empty uF9)))) (brD4 (wD4 1) (p_empty uF9)) = true /\
  is_succ (stt (pbase (brF9 wF9b (brF9 wF9a (p_empty uF9)))) 4) = false.
Proof. vm_compute. repeat split; reflexivity. Qed.

(* ------------------------------------------------------------------------------------------ *)
(* Dynamic plans: the hypothesis "the last build ends finished" can be evaluated               *)
(* ------------------------------------------------------------------------------------------ *)
From SV Require Import model.EnginePlanCheck proofs.EnginePlanCheckProofs.

Theorem C01_plan_finished_check_sound :
  forall run plan (U : universe) (y : psys),
    finished_pb run plan U y = true -> Finished_p run plan U y.
Proof. exact finished_pb_sound. Qed.

(* For a concrete history (worlds as source tables, the last one [w]) whose final state passes
   the check, the engine as the code has it ends with the result of the build of [w] on nothing.
   harness/c01_plan.py evaluates [final_finished_p] for every generated history and, when it is
   true, requires the real incremental result to equal the real from-scratch result. *)
Theorem C01_plan_checked_history_equals_scratch :
  forall (tab : list (N * N * list N)) (U : universe) (ws : list (list (N * N))) (w : list (N * N)),
    wf_u U = true -> ustat_later_b U = true ->
    final_finished_p tab U (ws ++ [w]) = true ->
    same_result_p U (final_hist_p tab U (ws ++ [w]))
                  (build_world_p mix_run (plan_tab tab) U (src_of w, src_of []) (p_empty U)).
Proof. exact checked_history_equals_scratch. Qed.
