(* C01 An incremental build is equivalent to a build from scratch.
   Property theorems only; proofs in proofs/NoStaleProofs.v (graph level) and
   proofs/EngineProofs.v (abstract engine). *)
From Coq Require Import List NArith Bool.
From SV Require Import lib.Bytes model.Graph model.NoStale proofs.NoStaleProofs.
Import ListNotations.
Open Scope N_scope.

(* ------------------------------------------------------------------------------------------ *)
(* Graph level (model/Graph.v): the invariant K = NoStaleSuccess                               *)
(* ------------------------------------------------------------------------------------------ *)

(* Full statement at this level: K holds after every accepted history of transactions. *)
Definition C01_K_full : Prop :=
  forall cap ops, all_ok ops (init_st cap) = true -> K_b (run_ops ops (init_st cap)) = true.

(* It is false of the faithful model (defect D4): a plan that reruns, no longer declares the
   static file x.txt and re-defines its consumer unchanged gets the consumer back SUCCEEDED
   (full recycle) on a detached input; the from-scratch history leaves that step PENDING. *)
Theorem C01_K_refuted_by_dropped_static :
  all_ok d4_ops (init_st 3) = true /\
  K_b (run_ops d4_build1 (init_st 3)) = true /\
  finished_b (run_ops d4_build1 (init_st 3)) = true /\
  finished_b (run_ops d4_ops (init_st 3)) = true /\
  K_b (run_ops d4_ops (init_st 3)) = false /\
  K_violators (run_ops d4_ops (init_st 3)) = [s_cat] /\
  is_detached (KFile, s_x) (run_ops d4_ops (init_st 3)) = true /\
  sstate_of s_cat (run_ops d4_ops (init_st 3)) = Some SSucceeded /\
  all_ok d4_scratch (init_st 3) = true /\
  sstate_of s_cat (run_ops d4_scratch (init_st 3)) = Some SPending.
Proof. exact K_refuted_by_dropped_static. Qed.

Theorem C01_K_full_refuted : ~ C01_K_full.
Proof. exact K_not_invariant. Qed.

(* Defect D9: after a partial recycle the env_var rows of the old definition survive, so the
   stored workflow differs from the from-scratch one although K holds. *)
Theorem C01_env_rows_refuted_by_partial_recycle :
  all_ok d9_ops (init_st 3) = true /\ all_ok d9_scratch (init_st 3) = true /\
  env_names_of s_S (run_ops d9_ops (init_st 3)) = [s_VA; s_VB] /\
  env_names_of s_S (run_ops d9_scratch (init_st 3)) = [s_VA] /\
  finished_b (run_ops d9_ops (init_st 3)) = true /\
  K_b (run_ops d9_ops (init_st 3)) = true.
Proof. exact env_rows_refuted_by_partial_recycle. Qed.

(* What is proved of K: it survives dispatch, validate-pending, hold, release and every rejected
   transaction.  The other operations are not covered (define_step is the refuted one). *)
Theorem C01_K_preserved_partial :
  forall o s, K_b s = true ->
              (K_safe_op o = true \/ (forall s', step_op o s <> Ok s')) ->
              K_b (apply_op s o) = true.
Proof. exact K_preserved_partial. Qed.
