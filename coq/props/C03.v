(* C03 A step only succeeds on inputs that were final while it ran.
   Property theorems only; proofs live in proofs/FreshProofs.v.  The functions the statements are
   about (record_run_started/stopped, ran_concurrently, availability, the amend loop, the director's
   amend tail, defer, _classify_execution, mark_completed, _derive_job's input loop,
   UNAVAILABLE_INPUT_WHERE, the post-run state filter) are regenerated from /repo on every run
   (gen/GenFresh.v); model/Fresh.v composes them in the order of pop_next_job / execute_job /
   DirectorHandler.amend_step. *)
From Coq Require Import List NArith Bool.
From SV Require Import lib.StampMap.
From SV Require Import gen.GenFresh.
From SV Require Import model.Fresh.
From SV Require Import model.FreshSkip.
From SV Require Import proofs.FreshProofs.
From SV Require Import proofs.FreshSkipProofs.
From SV Require Import model.FreshStatTypes gen.GenFreshStat model.FreshStat.
From SV Require Import proofs.FreshStatProofs proofs.FreshStatLink proofs.FreshStatFinding.
From SV Require Import proofs.FreshAmendedFinding.
Import ListNotations.
Open Scope N_scope.

(* ---------------------------------------------------------------------------------------- *)
(* Start/stop stamp bookkeeping: pruned entries are never needed.                            *)
(* ---------------------------------------------------------------------------------------- *)

(* For EVERY history of record_run_started / record_run_stopped(succeeded or not) /
   build_completed events of any number of steps, in any interleaving, whose clock readings
   strictly increase, and for every producer p and consumer c: the pruned dictionaries answer
   ran_concurrently(p, c) exactly as the never-pruned history does, i.e. True iff c's command is
   running and p's last successful stop is not before c's current start. *)
Theorem C03_pruning_sound :
  forall (evs : list bev) (p c : N),
    smono 0 evs = true -> ran_conc (brun evs) p c = ran_ref (hrun evs) p c.
Proof. exact pruning_sound. Qed.

(* The same when clock readings may repeat (time.monotonic_ns is only non-decreasing): whenever
   c's current start precedes p's last successful stop in the order of events, the answer is
   True.  This is the direction the property needs (an overlap is never missed); it depends on
   `<=` in ran_concurrently and on `<` in the pruning loop. *)
Theorem C03_pruning_no_missed_overlap :
  forall (evs : list bev) (p c : N),
    mono 0 evs = true -> ran_order evs p c = true -> ran_conc (brun evs) p c = true.
Proof. exact pruning_no_missed_overlap. Qed.

(* ... and True is only answered on the strength of p's last successful stop and c's current
   start (no stale or invented entry), readings ordered start <= stop. *)
Theorem C03_ran_conc_true_is_justified :
  forall (evs : list bev) (p c : N),
    mono 0 evs = true -> ran_conc (brun evs) p c = true -> ran_ref (hrun evs) p c = true.
Proof. exact ran_conc_true_is_justified. Qed.

(* ---------------------------------------------------------------------------------------- *)
(* Dispatch.                                                                                 *)
(* ---------------------------------------------------------------------------------------- *)

(* The command of a step is started only if the scheduler is not draining, the step is PENDING
   and not deferred, and every declared input is attached, BUILT or CONFIRMED, and on disk with
   exactly the recorded content/mode/size; the run starts with no defer request pending. *)
Theorem C03_not_started_before_inputs_available :
  forall (w : world) (t : N) (w' : world),
    do_try w t = (w', RTry true) ->
    draining w = false /\ c_state w = SS_PENDING /\ c_deferred w = false /\
    (forall f, In f (c_init w) ->
       f_detached (files w f) = false /\
       (f_state (files w f) = FS_BUILT \/ f_state (files w f) = FS_CONFIRMED) /\
       disk w f = f_hash (files w f)) /\
    c_state w' = SS_RUNNING /\ c_dyn w' = [] /\ c_error w' = c_error w /\
    exists r, c_run w' = Some r /\ r_unavail r = false /\ r_unfresh r = false /\ r_snap r = snapshot w /\
              forall f, In f (c_init w) -> In (f, f_hash (files w f)) (r_snap r).
Proof. exact not_started_before_inputs_available. Qed.

(* `_ready` is by definition the negation of the unavailable-input predicate; under it none of
   the ConsistencyError branches of _derive_job can fire. *)
Theorem C03_derive_job_sanity_unreachable :
  forall w : world, ready w = true -> derive_error w = false.
Proof. exact derive_job_sanity_unreachable. Qed.

(* ---------------------------------------------------------------------------------------- *)
(* Amended inputs.                                                                           *)
(* ---------------------------------------------------------------------------------------- *)

(* If anywhere inside a command window an accepted amend request reports an unavailable or an
   unfresh input, the answer is carry_on = False and, whatever else happens before the command
   returns (further amends, writes, other transactions, other steps starting and stopping), the
   step does not end SUCCEEDED: PENDING while the defer cap allows, FAILED past the cap, FAILED
   and draining if an input also changed. *)
Theorem C03_amended_input_rule :
  forall (w : world) (r : runst) (pre : list ev) (ps : list N) (post : list ev)
         (unav unfr : list N) (carry : bool) (t : N) (ok : bool),
    c_run w = Some r ->
    forallb in_window pre = true -> forallb in_window post = true ->
    snd (step (run pre w) (EAmend ps)) = RAmend false unav unfr carry ->
    unav <> [] \/ unfr <> [] ->
    let w2 := run (pre ++ EAmend ps :: post) w in
    let w3 := fst (step w2 (EEnd t ok)) in
    carry = false /\ c_state w3 <> SS_SUCCEEDED /\
    (changed_inputs w2 = [] -> c_dc w2 + 1 <= cap w2 -> c_state w3 = SS_PENDING) /\
    (changed_inputs w2 = [] -> cap w2 < c_dc w2 + 1 -> c_state w3 = SS_FAILED) /\
    (changed_inputs w2 <> [] -> c_state w3 = SS_FAILED /\ draining w3 = true).
Proof. exact amended_input_rule. Qed.

(* What one amended input is classified as (the loop body of Workflow.amend_step over
   _SupplyInfo.availability), for the (state, detached) pair that _resolve_supply_file reports:
   unavailable  iff detached or the state is none of UNCONFIRMED, BUILT, CONFIRMED;
   to be confirmed by a promoted hash job  iff attached and UNCONFIRMED;
   unfresh  iff attached, BUILT, created by a step, and ran_concurrently(producer, this step);
   the edge becomes dynamic iff it is new. *)
Theorem C03_amend_classification :
  forall (det : bool) (st : N) (producer_is_step ran new_edge : bool),
    amend_input_gen det st producer_is_step ran new_edge =
    (det || negb ((st =? FS_UNCONFIRMED) || (st =? FS_BUILT) || (st =? FS_CONFIRMED)),
     negb det && (st =? FS_UNCONFIRMED),
     negb det && (st =? FS_BUILT) && producer_is_step && ran,
     new_edge)%bool.
Proof. exact amend_input_spec. Qed.

(* ---------------------------------------------------------------------------------------- *)
(* Inputs that change underneath a running step.                                             *)
(* ---------------------------------------------------------------------------------------- *)

Theorem C03_changed_input_fails_and_drains :
  forall (w : world) (r : runst) (t : N) (ok : bool),
    c_run w = Some r -> changed_inputs w <> [] ->
    let w' := fst (do_end w t ok) in
    c_state w' = SS_FAILED /\ c_deferred w' = false /\ draining w' = true /\ c_run w' = None /\
    bk w' = bstep (bk w) (BStop (c_id w) t false).
Proof. exact changed_input_fails_and_drains. Qed.

Theorem C03_changed_input_before_start_fails_and_drains :
  forall (w : world) (t : N),
    dispatchable w = true -> derive_error w = false -> snap_changed w (snapshot w) = true ->
    let '(w', r) := do_try w t in
    r = RTry false /\ c_state w' = SS_FAILED /\ draining w' = true /\ c_run w' = None.
Proof. exact changed_input_before_start_fails_and_drains. Qed.

(* With clock readings that never decrease, a verdict "not unfresh" (ran_concurrently False) means
   that, in the order of events, the consumer's current start does not precede the producer's
   last successful stop. *)
Theorem C03_fresh_verdict_sound :
  forall (evs : list bev) (p c : N),
    mono 0 evs = true -> ran_conc (brun evs) p c = false -> ran_order evs p c = false.
Proof. exact fresh_verdict_sound. Qed.

(* The same for the stamp maps of ANY world reached from the empty world by events whose clock
   readings never decrease (starts/stops of other steps, c's own start and stop, build_completed,
   writes, other transactions, amend requests): they are the pruned image of one history `bl`;
   "not unfresh" means that c's current start does not precede p's last successful stop in the
   order of bl, and "unfresh" is justified by the never-pruned history. *)
Theorem C03_reachable_verdict_sound :
  forall (cid : N) (init : list N) (capv : N) (kg : bool) (evs : list ev) (p : N),
    times_ok 0 evs ->
    let w := run evs (world0 cid init capv kg) in
    (ran_conc (bk w) p (c_id w) = false ->
       exists bl, bk w = brun bl /\ mono 0 bl = true /\ ran_order bl p (c_id w) = false) /\
    (ran_conc (bk w) p (c_id w) = true -> ran_ref (hs w) p (c_id w) = true).
Proof.
  intros cid init capv kg evs p Ht w.
  destruct (book_hist_run evs _ 0 (book_hist_world0 cid init capv kg) Ht) as [now HB].
  exact (reachable_verdict_sound w now p HB).
Qed.

(* ---------------------------------------------------------------------------------------- *)
(* A step that ends SUCCEEDED.                                                               *)
(* ---------------------------------------------------------------------------------------- *)

(* FULL STATEMENT (not a theorem: refuted below).  If the command of c starts in w0 and c is
   recorded SUCCEEDED after the window `mid`, then every input that counts at the end (declared or
   amended, attached, BUILT or CONFIRMED) had, at every moment of the window, exactly the content,
   mode and size recorded for it. *)
Definition C03_full : Prop :=
  forall w0 t mid t' ok,
    snd (do_try w0 t) = RTry true -> forallb in_window mid = true ->
    let w1 := fst (do_try w0 t) in
    let w2 := run mid w1 in
    let w3 := fst (step w2 (EEnd t' ok)) in
    c_state w3 = SS_SUCCEEDED ->
    forall f, In f (considered w2) ->
      forall m1, prefix_of m1 mid -> disk (run m1 w1) f = f_hash (files w3 f).

(* What IS proved (partial): (A) at the end every counted input is on disk with its recorded hash
   and completion leaves the rows untouched; (B) at the start every declared input was attached,
   BUILT or CONFIRMED and on disk with its recorded hash; (C) every accepted amend request of the
   window reported nothing unavailable or unfresh and answered carry_on = True; (D) for every
   declared input that counts at the end, the hash recorded at the end IS the hash the command
   started from (Executor._flag_inputs_not_final, fix a02f82b; formerly the hypothesis db_stable),
   the file is the same at both ends of the window, and under no_aba (no writer restores the exact
   content, size and mode inside the window) its content equals the recorded hash at every moment
   of the window; (E) an amended input that counts at the end and is BUILT by a step p has
   ran_concurrently(p, c) = False when the command returns (see C03_reachable_verdict_sound for
   what that means in event order).
   Missing for the full statement: no_aba cannot be observed by end-point hashing (refutation
   below: an assumption), and for amended inputs the part of the window before the amend request is
   covered only through the freshness verdict, not through a hash taken at the start. *)
Theorem C03_succeeded_inputs_final_partial :
  forall (w0 : world) (t : N) (mid : list ev) (t' : N) (ok : bool),
    snd (do_try w0 t) = RTry true ->
    forallb in_window mid = true ->
    let w1 := fst (do_try w0 t) in
    let w2 := run mid w1 in
    let w3 := fst (step w2 (EEnd t' ok)) in
    c_state w3 = SS_SUCCEEDED ->
    (forall f, In f (considered w2) -> disk w2 f = f_hash (files w2 f) /\ files w3 f = files w2 f) /\
    (forall f, In f (c_init w0) ->
       f_detached (files w0 f) = false /\
       (f_state (files w0 f) = FS_BUILT \/ f_state (files w0 f) = FS_CONFIRMED) /\
       disk w1 f = f_hash (files w0 f)) /\
    (forall pre ps post unav unfr carry,
       mid = pre ++ EAmend ps :: post ->
       snd (step (run pre w1) (EAmend ps)) = RAmend false unav unfr carry ->
       unav = [] /\ unfr = [] /\ carry = true) /\
    (forall f, In f (c_init w0) -> In f (considered w2) ->
       f_hash (files w3 f) = f_hash (files w0 f) /\ disk w2 f = disk w1 f /\
       (no_aba w1 mid f -> forall m1, prefix_of m1 mid -> disk (run m1 w1) f = f_hash (files w3 f))) /\
    (forall f p, In f (considered w2) -> sm_get f (snapshot w0) = None ->
       f_state (files w2 f) = FS_BUILT -> f_producer (files w2 f) = Some p ->
       ran_conc (bk w2) p (c_id w2) = false).
Proof. exact succeeded_inputs_final_partial. Qed.

(* Refutation of the full statement by A-B-A (the recorded hash never changes): inherent to
   end-point hashing, an ASSUMPTION, not a defect. *)
Theorem C03_full_refuted_by_aba :
  exists w0 t mid t' ok f m1,
    snd (do_try w0 t) = RTry true /\ forallb in_window mid = true /\
    c_state (fst (step (run mid (fst (do_try w0 t))) (EEnd t' ok))) = SS_SUCCEEDED /\
    In f (considered (run mid (fst (do_try w0 t)))) /\ prefix_of m1 mid /\
    db_stable (fst (do_try w0 t)) mid f /\
    disk (run m1 (fst (do_try w0 t))) f <> f_hash (files (fst (step (run mid (fst (do_try w0 t))) (EEnd t' ok))) f).
Proof. exact inputs_final_full_refuted_by_aba. Qed.

Theorem C03_full_refuted : ~ C03_full.
Proof. exact inputs_final_full_refuted. Qed.

(* NOT TRUE (finding C03-amended-record, open): the clause that would turn (D) of
   C03_succeeded_inputs_final_partial into a statement about AMENDED inputs as well: if the step is
   recorded SUCCEEDED, the hash recorded at the end for an input that was available when it was
   amended is the hash recorded when the request was accepted.  For declared inputs this is
   _flag_inputs_not_final (fix of D19); for amended inputs nothing compares the two records: the
   file can be edited and re-recorded (pre-run check of another step, or withdrawn / declared /
   confirmed anew) while the command, which has read it, still runs.  Witness: consumer 5 amends the
   static file 2 (CONFIRMED, hash 4, accepted: nothing unavailable, nothing unfresh, carry_on), the
   file is rewritten (9) and the new hash recorded; the step ends SUCCEEDED with record = disk = 9.
   Replayed on the real Executor (p_c03.WITNESS_AMENDED_RECORD) and through the real serve()
   (c03_repl.amended_record_system: stale output, never rebuilt). *)
Definition C03_amended_record_full : Prop := amended_record_full.

Theorem C03_amended_record_full_refuted_by_reconfirmation :
  let w1 := fst (do_try amrec_w0 1) in
  let w2 := run (EAmend [2] :: amrec_post) w1 in
  let w3 := fst (step w2 (EEnd 4 true)) in
  snd (do_try amrec_w0 1) = RTry true /\ forallb in_window (EAmend [2] :: amrec_post) = true /\
  snd (step w1 (EAmend [2])) = RAmend false [] [] true /\
  In 2 (considered w2) /\ f_state (files w1 2) = FS_CONFIRMED /\ f_hash (files w1 2) = 4 /\ disk w1 2 = 4 /\
  c_state w3 = SS_SUCCEEDED /\ f_hash (files w3 2) = 9 /\ disk w2 2 = 9.
Proof. exact amended_record_witness. Qed.

Theorem C03_amended_record_full_refuted : ~ C03_amended_record_full.
Proof. exact amended_record_full_refuted. Qed.

(* Regression witness (finding D19, fixed by a02f82b).  The producer 8 of the declared input 1 is
   executed again while the command of c runs and rewrites the file (4 -> 7, nothing restored).
   The completion step WITHOUT _flag_inputs_not_final (do_end_gen false, the code before the fix)
   records SUCCEEDED on a content the command did not start from; the current completion step
   (do_end, whose shape is regenerated from execute_job) ends PENDING and not deferred, so the step
   runs again.  If the call disappears from execute_job, exec_flags_inputs_not_final becomes false,
   do_end becomes do_end_gen false, clause (D) above no longer proves, and the oracle replays this
   very trace on the implementation (signature ...hash-re-recorded-by-producer-rerun). *)
Theorem C03_prefix_variant_refuted_by_producer_rerun :
  let w0 := wit_world FS_BUILT 4 (Some 8) in
  let w1 := fst (do_try w0 1) in
  let w2 := run rerun_mid w1 in
  snd (do_try w0 1) = RTry true /\ forallb in_window rerun_mid = true /\
  In 1 (c_init w0) /\ In 1 (considered w2) /\ disk w2 1 <> disk w1 1 /\
  c_state (fst (do_end_gen false w2 4 true)) = SS_SUCCEEDED /\
  disk w1 1 <> f_hash (files (fst (do_end_gen false w2 4 true)) 1) /\
  c_state (fst (do_end w2 4 true)) = SS_PENDING /\ c_deferred (fst (do_end w2 4 true)) = false.
Proof. exact prefix_variant_refuted_by_producer_rerun. Qed.

(* ---------------------------------------------------------------------------------------- *)
(* The CHECKING path: a step that holds a stored hash (model/FreshSkip.v).                   *)
(* A step hash is the pair of ingredient lists of its two digests (C13 licenses comparing the *)
(* lists instead of the SHA-256 values); sh_env stands for label, shell flag, tracked         *)
(* environment values and overrides.                                                          *)
(* ---------------------------------------------------------------------------------------- *)

(* The second way to become SUCCEEDED.  If a dispatch (x0) starts Executor.try_skip_job, any events
   of other actors happen while the outputs are hashed (mid), and try_skip_job then skips, then c
   held a stored hash sh and
   - when the inputs were hashed, EVERY declared and EVERY recorded amended input of c was attached,
     BUILT or CONFIRMED, on disk with exactly the hash recorded for it, and the input ingredients of
     the stored hash are exactly these (file, hash on disk) pairs -- nothing more, nothing less --
     with the same non-file ingredients;
   - when the outputs were hashed, the output ingredients of the stored hash are exactly the
     (output, hash on disk) pairs of c's outputs;
   - c becomes SUCCEEDED keeping the same hash; no command ran and no start/stop stamp was written. *)
Theorem C03_skip_succeeded_describes_files :
  forall (x0 : xworld) (t : N) (x1 : xworld) (mid : list xev) (t' : N) (x3 : xworld),
    do_xtry x0 t false = (x1, XRTry 2 false) -> is_checking x1 = true ->
    forallb xenv_only mid = true ->
    let x2 := xrun mid x1 in
    do_xchk x2 t' false = (x3, XRChk true) ->
    exists sh,
      x_hash x0 = Some sh /\ sh_env sh = x_envc x0 /\
      (forall f, In f (all_inputs (xb x0)) ->
         f_detached (files (xb x0) f) = false /\
         (f_state (files (xb x0) f) = FS_BUILT \/ f_state (files (xb x0) f) = FS_CONFIRMED) /\
         disk (xb x0) f = f_hash (files (xb x0) f) /\
         In (f, disk (xb x0) f) (sh_inp sh)) /\
      (forall f h, In (f, h) (sh_inp sh) -> In f (all_inputs (xb x0)) /\ disk (xb x0) f = h) /\
      (forall o, In o (x_outs x0) -> In (o, disk (xb x2) o) (sh_out sh)) /\
      (forall o h, In (o, h) (sh_out sh) -> In o (x_outs x0) /\ disk (xb x2) o = h) /\
      c_state (xb x3) = SS_SUCCEEDED /\ c_run (xb x3) = None /\ bk (xb x3) = bk (xb x2) /\
      x_hash x3 = Some sh /\ x_chk x3 = None.
Proof. exact skip_succeeded_describes_files. Qed.

(* ... and every output is present, in every state reachable from a world without stored hash:
   a stored hash never lists a missing output (invariant hash_ok, preserved by every event). *)
Theorem C03_skip_outputs_present :
  forall (cid : N) (init outs : list N) (capv : N) (kg : bool) (envc : N) (pre : list xev)
         (t : N) (x1 : xworld) (mid : list xev) (t' : N) (x3 : xworld),
    let x0 := xrun pre (xworld0 cid init outs capv kg envc) in
    do_xtry x0 t false = (x1, XRTry 2 false) -> is_checking x1 = true ->
    forallb xenv_only mid = true ->
    do_xchk (xrun mid x1) t' false = (x3, XRChk true) ->
    forall o, In o (x_outs x0) -> disk (xb (xrun mid x1)) o <> 0.
Proof.
  intros cid init outs capv kg envc pre t x1 mid t' x3 x0.
  apply skip_outputs_present. apply hash_ok_reachable. apply hash_ok_xworld0.
Qed.

(* Every way the dispatch of a step with a stored hash can go when the hash computation is not
   cancelled, for try_skip_job (k = 2) and validate_dynamic_job (k = 3): the command never starts and
   the step is not SUCCEEDED afterwards; an input that differs from its record gives FAILED and
   draining (hash deleted); an input digest that differs from the stored one gives PENDING, not
   deferred, without hash and without amended inputs (so the next dispatch runs the command);
   otherwise try_skip_job stays CHECKING to hash the outputs and validate_dynamic_job puts the step
   back to PENDING with the `deferred` flag that the source passes to set_state there (a TRANSLATED
   expression, validate_unchanged_deferred_gen: since 84081f2 the value of
   step.has_unusable_dynamic_input(), FreshSkip.has_unusable_dyn over the generated per-input test;
   when it is False the whole state is exactly as it was). *)
Theorem C03_checking_outcomes :
  forall (x : xworld) (t : N) (x' : xworld) (k : N) (s : bool) (sh : shash),
    do_xtry x t false = (x', XRTry k s) -> (k = 2 \/ k = 3) -> x_hash x = Some sh ->
    s = false /\ c_run (xb x') = None /\ c_state (xb x') <> SS_SUCCEEDED /\
    (snap_changed (xb x) (snapshot (xb x)) = true ->
       c_state (xb x') = SS_FAILED /\ draining (xb x') = true /\ x_hash x' = None /\ x_chk x' = None) /\
    (snap_changed (xb x) (snapshot (xb x)) = false ->
     inp_equal sh (x_envc x) (canon (snapshot (xb x))) = false ->
       c_state (xb x') = SS_PENDING /\ c_deferred (xb x') = false /\ c_dyn (xb x') = [] /\
       x_hash x' = None /\ x_chk x' = None) /\
    (snap_changed (xb x) (snapshot (xb x)) = false ->
     inp_equal sh (x_envc x) (canon (snapshot (xb x))) = true ->
       x_hash x' = Some sh /\
       (k = 2 -> c_state (xb x') = SS_CHECKING /\
                 x_chk x' = Some (mkChk sh (x_envc x) (canon (snapshot (xb x))) (snapshot (xb x)))) /\
       (k = 3 -> c_state (xb x') = SS_PENDING /\
                 c_deferred (xb x') = validate_unchanged_deferred_gen (has_unusable_dyn (xb x)) /\
                 x_chk x' = x_chk x /\
                 (validate_unchanged_deferred_gen (has_unusable_dyn (xb x)) = false -> x' = x))).
Proof. exact checking_outcomes. Qed.

(* try_skip_job after the output hashing: SUCCEEDED iff not cancelled, the stored output
   ingredients are the outputs as they are on disk now and (only when the source re-reads the input
   records in that transaction: skip_rechecks_inputs, false for /repo d760e3e, finding D37) no input
   record was overtaken; a different output digest gives PENDING without hash; an overtaken record
   gives PENDING with the hash kept. *)
Theorem C03_skip_outcomes :
  forall (x : xworld) (t : N) (cancel : bool) (k : chk),
    x_chk x = Some k ->
    let x' := fst (do_xchk x t cancel) in
    let rc := rechecked skip_rechecks_inputs x k in
    x_chk x' = None /\ c_run (xb x') = c_run (xb x) /\
    (cancel = true ->
       c_state (xb x') = SS_FAILED /\ x_hash x' = None /\ snd (do_xchk x t cancel) = XRChk false /\
       (keep_going (xb x) = false -> draining (xb x') = true)) /\
    (cancel = false -> pairs_eqb (sh_out (k_old k)) (out_ingredients x) = false ->
       c_state (xb x') = SS_PENDING /\ c_deferred (xb x') = false /\ c_dyn (xb x') = [] /\ x_hash x' = None /\
       snd (do_xchk x t cancel) = XRChk false) /\
    (cancel = false -> pairs_eqb (sh_out (k_old k)) (out_ingredients x) = true -> rc = true ->
       c_state (xb x') = SS_PENDING /\ c_deferred (xb x') = false /\ x_hash x' = x_hash x /\
       snd (do_xchk x t cancel) = XRChk false) /\
    (cancel = false -> pairs_eqb (sh_out (k_old k)) (out_ingredients x) = true -> rc = false ->
       c_state (xb x') = SS_SUCCEEDED /\ snd (do_xchk x t cancel) = XRChk true /\
       x_hash x' = Some (mkSH (k_env k) (k_inp k) (sh_out (k_old k))) /\ bk (xb x') = bk (xb x)) /\
    (c_state (xb x') = SS_SUCCEEDED -> cancel = false /\ sh_out (k_old k) = out_ingredients x /\ rc = false).
Proof. exact skip_outcomes. Qed.

(* validate_dynamic_job, cancelled or not, whatever it finds: the command does not start, the step
   ends PENDING or FAILED (never SUCCEEDED), and if the stored hash survives and the source does not
   set `deferred` there, then NOTHING changed. *)
Theorem C03_validate_never_succeeds_never_runs :
  forall (x : xworld) (t : N) (cancel : bool) (x' : xworld) (s : bool),
    do_xtry x t cancel = (x', XRTry 3 s) ->
    s = false /\ c_run (xb x') = None /\ x_chk x' = None /\
    (c_state (xb x') = SS_PENDING \/ c_state (xb x') = SS_FAILED) /\
    (has_hash x' = true -> validate_unchanged_deferred_gen (has_unusable_dyn (xb x)) = false -> x' = x).
Proof. exact validate_never_succeeds_never_runs. Qed.

(* The "digest unchanged" branch of validate_dynamic_job since fix d760e3e (finding D36): the step
   is left PENDING *and deferred* with its hash, and it is NOT dispatched again, whatever other actors
   do, until a transaction changes the row of c itself -- which is what Workflow.mark_step_pending
   does (it clears `deferred`) when an input of c changes, and the trigger
   step_node_undefer_reattached when a detached input is revived (84081f2, fix of D39).  A validation
   job is only derived while a dynamic input is unusable (FreshSkipProofs.unusable_iff_not_ready:
   has_unusable_dynamic_input() is the exact opposite of dynamic_inputs_ready), so within this ONE
   event the translated flag validate_unchanged_deferred_gen is evaluated on True;
   FreshSkipProofs.validate_unchanged_is_deferred (the flag is True when an unusable dynamic input
   exists) breaks if the source stops parking the step in that case. *)
Theorem C03_validate_unchanged_waits :
  forall (x : xworld) (t : N) (x' : xworld) (s : bool),
    do_xtry x t false = (x', XRTry 3 s) -> has_hash x' = true ->
    c_state (xb x') = SS_PENDING /\ c_deferred (xb x') = true /\ x_hash x' = x_hash x /\
    forall mid, forallb not_crow mid = true ->
      forall t' c, do_xtry (xrun mid x') t' c = (xrun mid x', XRTry 0 false).
Proof. exact validate_unchanged_waits. Qed.

(* The other half of the termination argument for D36 since 84081f2 (scheduler side:
   props/C10.v C10_validate_outcome_redispatched_only_as_check).  The source decides the flag in the
   transaction that records the outcome, i.e. in a world y that can differ from the world of the
   dispatch (the inputs may have come back while the job was in flight).  If the flag comes out
   False there, no dynamic input of c is unusable in y, and whatever the row of c is set to, the
   next dispatch of c -- at any clock reading, cancelled or not -- is NOT a validation job again: it
   is a try_skip_job (a check) or no job at all. *)
Theorem C03_validate_outcome_redispatched_only_as_check :
  forall (y : xworld) (st : N) (df : bool) (dc : N) (t : N) (c : bool) (x' : xworld) (k : N) (s : bool),
    validate_unchanged_deferred_gen (has_unusable_dyn (xb y)) = false ->
    do_xtry (set_xb y (set_crow (xb y) st df dc)) t c = (x', XRTry k s) ->
    has_unusable_dyn (xb y) = false /\ k <> 3.
Proof. exact validate_outcome_redispatched_only_as_check. Qed.

(* Step.has_unusable_dynamic_input() (generated per-input test: detached or state not CONFIRMED/BUILT)
   is the exact opposite of the dynamic_inputs_ready test of Scheduler._derive_job, when no sanity
   check of _derive_job fires. *)
Theorem C03_unusable_dynamic_input_iff_not_ready :
  forall w : world, derive_error w = false -> has_unusable_dyn w = negb (dyn_ready w).
Proof. exact unusable_iff_not_ready. Qed.

(* Regression statement for finding D36 (fixed by d760e3e; not a C03 violation but a dispatch loop,
   C10): with the code BEFORE the fix (validate_prefix: set_state(PENDING) without `deferred`), a
   VALIDATE_DYNAMIC dispatch that keeps the hash leaves the whole state exactly as it was, so every
   further dispatch derives the same job with the same result, for ever.  The oracle replays the
   witness (WITNESS_VALIDATE_LOOP, c03_sys.validate_loop_system) and requires that it does NOT loop. *)
Theorem C03_prefix_validate_unchanged_redispatches :
  forall (x : xworld) (t : N) (x' : xworld) (s : bool),
    do_xtry_gen validate_prefix x t false = (x', XRTry 3 s) -> has_hash x' = true ->
    x' = x /\ forall t', do_xtry_gen validate_prefix x t' false = (x, XRTry 3 false).
Proof. exact prefix_validate_unchanged_redispatches. Qed.

(* Hash cancellation (Executor._run_work_thread returning None while the build shuts down), at each
   of its three sites: in _new_run of any job, in the output hashing of try_skip_job (C03_skip_outcomes,
   cancel = true), and in the post-run hashing of execute_job. *)
Theorem C03_cancelled_dispatch_fails :
  forall (x : xworld) (t : N) (x' : xworld) (k : N) (s : bool),
    do_xtry x t true = (x', XRTry k s) -> k <> 0 ->
    s = false /\ c_state (xb x') = SS_FAILED /\ x_hash x' = None /\ x_chk x' = None /\
    c_run (xb x') = None /\ (keep_going (xb x) = false -> draining (xb x') = true).
Proof. exact cancelled_dispatch_fails. Qed.

Theorem C03_cancelled_post_run_hash_not_succeeded :
  forall (x : xworld) (t : N) (ok : bool) (r : runst),
    c_run (xb x) = Some r ->
    let x' := fst (do_xend x t ok true) in
    c_state (xb x') <> SS_SUCCEEDED /\ x_hash x' = None /\ c_run (xb x') = None.
Proof. exact cancelled_post_run_hash_not_succeeded. Qed.

(* The hash a command leaves behind: none unless the step became SUCCEEDED; then its input
   ingredients are exactly the inputs that count at the end with the hash they have on disk and in
   the database, its output ingredients the outputs as they are on disk, all present. *)
Theorem C03_run_succeeded_hash_describes_files :
  forall (x : xworld) (t : N) (ok : bool) (r : runst),
    c_run (xb x) = Some r ->
    let x' := fst (do_xend x t ok false) in
    (c_state (xb x') <> SS_SUCCEEDED -> x_hash x' = None) /\
    (c_state (xb x') = SS_SUCCEEDED ->
       exists sh, x_hash x' = Some sh /\ sh_env sh = x_envc x /\ ok = true /\
         (forall f, In f (considered (xb x)) -> In (f, disk (xb x) f) (sh_inp sh)) /\
         (forall f h, In (f, h) (sh_inp sh) ->
            In f (considered (xb x)) /\ disk (xb x) f = h /\ f_hash (files (xb x) f) = h) /\
         (forall o, In o (x_outs x) -> In (o, disk (xb x) o) (sh_out sh)) /\
         (forall o h, In (o, h) (sh_out sh) -> In o (x_outs x) /\ disk (xb x) o = h /\ h <> 0)).
Proof. exact run_succeeded_hash_describes_files. Qed.

(* A command of c starts only through a non-cancelled dispatch of a step WITHOUT stored hash whose
   pre-run check passed (then C03_not_started_before_inputs_available applies to do_try); neither a
   CHECKING job nor an event of another actor starts it. *)
Theorem C03_command_starts_only_without_hash :
  forall (x : xworld) (e : xev),
    c_run (xb x) = None -> c_run (xb (fst (xstep x e))) <> None ->
    exists t, e = XTry t false /\ x_hash x = None /\ snd (do_try (xb x) t) = RTry true.
Proof. exact command_starts_only_without_hash. Qed.

(* NOT TRUE of the code without a re-check of the input records (finding D37 / C03-skip-window, the
   skip-path analogue of D19): the statement for the moment the skip is RECORDED.  Between the hashing
   of the inputs and the transaction that records the skip, the record of an input can be replaced (its
   producer is executed again: mark_step_pending ignores a CHECKING step, and try_skip_job does not read
   the input records again).  do_xchk_gen false is try_skip_job without such a re-check; it IS do_xchk
   as long as skip_rechecks_inputs = false (true of /repo d760e3e, see gen.golden/GenFresh.v). *)
Definition C03_skip_record_full : Prop :=
  forall x0 t x1 mid t' x3,
    do_xtry x0 t false = (x1, XRTry 2 false) -> is_checking x1 = true ->
    forallb xenv_only mid = true -> do_xchk_gen false (xrun mid x1) t' false = (x3, XRChk true) ->
    forall sh f h, x_hash x3 = Some sh -> In (f, h) (sh_inp sh) -> f_hash (files (xb x3) f) = h.

(* Witness: consumer 5 holds the hash ([(1,4)], [(9,7)]); input 1 is BUILT by step 8; while the
   outputs are hashed, step 8 runs again, rewrites the file (4 -> 7) and completes; the skip is
   recorded: SUCCEEDED, stored hash still lists (1,4), record and disk say 7.  Replayed on the real
   Executor (WITNESS_SKIP_WINDOW) and through the real serve() (c03_sys.skip_window_system).  Last
   clause: once the source re-reads the records (proposed fix), the same history is not a skip. *)
Theorem C03_skip_record_full_refuted_by_producer_rerun :
  let x1 := fst (do_xtry skipwin_x0 1 false) in
  let x2 := xrun skipwin_mid x1 in
  let x3 := fst (do_xchk_gen false x2 4 false) in
  do_xtry skipwin_x0 1 false = (x1, XRTry 2 false) /\ is_checking x1 = true /\
  forallb xenv_only skipwin_mid = true /\
  snd (do_xchk_gen false x2 4 false) = XRChk true /\
  c_state (xb x3) = SS_SUCCEEDED /\ x_hash x3 = Some (mkSH 1 [(1, 4)] [(9, 7)]) /\
  f_hash (files (xb x3) 1) = 7 /\ disk (xb x3) 1 = 7 /\ f_state (files (xb x3) 1) = FS_BUILT /\
  (skip_rechecks_inputs = true ->
     snd (do_xchk_gen true x2 4 false) = XRChk false /\
     c_state (xb (fst (do_xchk_gen true x2 4 false))) = SS_PENDING).
Proof. exact skip_record_refuted_by_producer_rerun. Qed.

Theorem C03_skip_record_full_refuted : ~ C03_skip_record_full.
Proof. exact skip_record_full_refuted. Qed.

(* What the generated decisions are (these break when the source changes them). *)
Theorem C03_job_kind :
  forall d h : bool,
    derive_job_kind_gen d h = (if h then (if d then JK_try_skip else JK_validate) else JK_execute) /\
    get_next_step_state_gen h = (if h then SS_CHECKING else SS_RUNNING).
Proof. intros d h. split; [apply derive_job_kind_spec|apply get_next_step_state_spec]. Qed.

(* ---------------------------------------------------------------------------------------- *)
(* "Has this input changed since it was recorded": FileHash.refreshed, compute_inp_hashes     *)
(* (model/FreshStat.v; refreshed_shortcut, fh_eq_fields, refreshed_build_gen, inp_entry_gen   *)
(* are regenerated from hash.py by translator/gen_fresh_stat.py).                             *)
(* The theorems above compare hash codes (`disk w f` with `f_hash (files w f)`); the code     *)
(* compares a recorded FileHash with `recorded.refreshed(path)`, which recomputes the digest   *)
(* only if one of the compared stat fields differs.  The assumption about the world that makes *)
(* the two agree is the explicit hypothesis `honest` (FreshStat.op_honest, "no_stat_forgery"): *)
(* bytes written in place get another mtime than the recorded one; nobody sets the recorded     *)
(* mtime back on the recorded inode after changing its bytes; the recorded inode number is not  *)
(* given to another file that is moved to the path.  Files that arrive by rename(2) may carry   *)
(* ANY mode, size and mtime, in particular the recorded ones.                                   *)
(* ---------------------------------------------------------------------------------------- *)

(* For every recorded file c0 and every honest history of writes in place, renames over the path,
   utime, chmod and unlink: `recorded.refreshed(path) == recorded` (attrs equality: digest, mode,
   size) holds exactly when the file under the path has the recorded content, size and mode. *)
Theorem C03_refreshed_exact :
  forall (c0 : cfile) (ops : list fsop),
    cf_digest c0 <> 0 -> honest c0 (Some c0) ops = true ->
    let old := record_of c0 in
    let d := fs_run (Some c0) ops in
    fh_eqb (refreshed old d) old = code_eqb (code_of_disk d) (code_of_hash old).
Proof. exact refreshed_exact. Qed.

(* The same for ANY shortcut that compares mode, mtime and inode number with their own stat fields
   (shortcut_covers); refreshed_shortcut of the source is one (FreshStatProofs.shortcut_covers_source,
   by computation on the generated list: it fails when a comparison is dropped from hash.py). *)
Theorem C03_refreshed_exact_for_covering_shortcuts :
  forall (sc : list (hfield * sfield)) (c0 : cfile) (ops : list fsop),
    shortcut_covers sc = true -> cf_digest c0 <> 0 -> honest c0 (Some c0) ops = true ->
    let old := record_of c0 in
    let d := fs_run (Some c0) ops in
    fh_eqb (refreshed_with sc old d) old = code_eqb (code_of_disk d) (code_of_hash old).
Proof. exact refreshed_exact_with. Qed.

(* One path of compute_inp_hashes after an honest history: the path is entered in new_hashes and a
   message (1 = vanished, 2 = changed) is produced iff content, size or mode differ from the record;
   ConsistencyError is not raised. *)
Theorem C03_input_check_exact :
  forall (c0 : cfile) (ops : list fsop),
    cf_digest c0 <> 0 -> honest c0 (Some c0) ops = true ->
    let old := record_of c0 in
    let d := fs_run (Some c0) ops in
    let differs := negb (code_eqb (code_of_disk d) (code_of_hash old)) in
    inp_entry old d = (differs, (if differs then (match d with None => 1 | Some _ => 2 end) else 0), false).
Proof. exact inp_entry_exact. Qed.

(* The whole loop and its two uses in executor.py: `unexpected_input_changes = len(new_inp_hashes) > 0`
   (FAILED + drain) is true iff SOME input handed to the check differs in content, size or mode, and
   `len(messages) > 0` (no step hash) is the same condition. *)
Theorem C03_unexpected_input_changes_exact :
  forall rs : list (cfile * list fsop),
    (forall r, In r rs -> honest_rec r) ->
    inputs_changed (map rec_of rs)
    = existsb (fun r => negb (code_eqb (code_of_disk (snd (rec_of r))) (code_of_hash (fst (rec_of r))))) rs
    /\ inputs_reported (map rec_of rs) = inputs_changed (map rec_of rs).
Proof. exact inputs_changed_exact. Qed.

(* Without any assumption about the world, and for any shortcut: a reported change is a real one. *)
Theorem C03_reported_change_is_real :
  forall (sc : list (hfield * sfield)) (old : fhash) (d : option cfile),
    fh_eqb (refreshed_with sc old d) old = false ->
    code_eqb (code_of_disk d) (code_of_hash old) = false.
Proof. exact changed_is_real. Qed.

(* The two layers together, for any injective numbering `enc` of (digest, mode, size) triples (the
   hash codes of model/Fresh.v): the record of a counted input f was taken from the file c0, an
   honest history leaves other content, size or mode under the path when the command returns.  Then
   the real chain flags the input and the completion step ends FAILED and draining. *)
Theorem C03_replaced_input_fails_and_drains :
  forall (enc : N * N * N -> N), (forall a b, enc a = enc b -> a = b) ->
  forall (w : world) (r : runst) (t : N) (ok : bool) (f : N) (c0 : cfile) (ops : list fsop),
    c_run w = Some r -> In f (considered w) ->
    cf_digest c0 <> 0 -> honest c0 (Some c0) ops = true ->
    f_hash (files w f) = enc (code_of_hash (record_of c0)) /\
    disk w f = enc (code_of_disk (fs_run (Some c0) ops)) ->
    code_of_disk (fs_run (Some c0) ops) <> code_of_hash (record_of c0) ->
    fst (fst (inp_entry (record_of c0) (fs_run (Some c0) ops))) = true /\
    let w' := fst (do_end w t ok) in
    c_state w' = SS_FAILED /\ c_deferred w' = false /\ draining w' = true /\ c_run w' = None.
Proof. exact replaced_input_fails_and_drains. Qed.

(* ... and a history that leaves the recorded content, size and mode under the path (same bytes in
   a new inode, touch, chmod there and back) flags nothing. *)
Theorem C03_unchanged_input_not_flagged :
  forall (enc : N * N * N -> N) (w : world) (f : N) (c0 : cfile) (ops : list fsop),
    cf_digest c0 <> 0 -> honest c0 (Some c0) ops = true ->
    f_hash (files w f) = enc (code_of_hash (record_of c0)) /\
    disk w f = enc (code_of_disk (fs_run (Some c0) ops)) ->
    code_of_disk (fs_run (Some c0) ops) = code_of_hash (record_of c0) ->
    inp_entry (record_of c0) (fs_run (Some c0) ops) = (false, 0, false) /\ ~ In f (changed_inputs w).
Proof. exact unchanged_input_not_flagged. Qed.

(* NOT TRUE of a shortcut that does not compare the inode number (mode, mtime, size only): the
   recorded file (digest 1, mode 0o644, mtime 5, size 3, inode 10) is replaced through rename(2) by
   other bytes in inode 11 with the recorded mode, mtime and size (rsync -t, cp -p + mv) -- an honest
   history.  That shortcut returns the old object: nothing flagged; the full one flags the path.
   Replayed on the real Executor (p_c03.replace_kind_witnesses, kind rename_keep) and through the
   real serve() (c03_repl.py). *)
Theorem C03_shortcut_without_inode_refuted :
  cf_digest wit_c0 <> 0 /\ honest wit_c0 (Some wit_c0) wit_rename_keep = true /\
  code_eqb (code_of_disk (fs_run (Some wit_c0) wit_rename_keep)) (code_of_hash (record_of wit_c0)) = false /\
  inp_entry_with shortcut_without_inode (record_of wit_c0) (fs_run (Some wit_c0) wit_rename_keep)
    = (false, 0, false) /\
  inp_entry_with shortcut_full (record_of wit_c0) (fs_run (Some wit_c0) wit_rename_keep) = (true, 2, false).
Proof. exact without_inode_refuted. Qed.

Theorem C03_refreshed_exact_without_inode_refuted :
  ~ (forall c0 ops, cf_digest c0 <> 0 -> honest c0 (Some c0) ops = true ->
       fh_eqb (refreshed_with shortcut_without_inode (record_of c0) (fs_run (Some c0) ops)) (record_of c0)
       = code_eqb (code_of_disk (fs_run (Some c0) ops)) (code_of_hash (record_of c0))).
Proof. exact exact_without_inode_refuted. Qed.

(* The hypothesis `honest` cannot be dropped (an ASSUMPTION, like no_aba; not a defect): other bytes
   of the same size written in place and the recorded mtime restored by utime leave every stat field
   as recorded; even the full shortcut returns the old object. *)
Theorem C03_refreshed_forgery_is_not_noticed :
  honest wit_c0 (Some wit_c0) wit_forgery = false /\
  code_eqb (code_of_disk (fs_run (Some wit_c0) wit_forgery)) (code_of_hash (record_of wit_c0)) = false /\
  inp_entry_with shortcut_full (record_of wit_c0) (fs_run (Some wit_c0) wit_forgery) = (false, 0, false).
Proof. exact forgery_not_noticed. Qed.

(* A path that is no longer a readable regular file when it is checked (replaced by a directory,
   permissions withdrawn; FileHash.refreshed raises): since 9b8c8cd (fix of D44, found by this check)
   compute_inp_hashes reports it as changed -- entered in new_hashes with message kind 2 -- for every
   record of an existing file, hence unexpected_input_changes is True whatever the other inputs are:
   FAILED and draining like any other modification (C03_changed_input_fails_and_drains: in the hash
   codes of Fresh.v the path now has the code of an absent file).  unreadable_input_reported is the
   generated fact; FreshStatProofs.unreadable_reported_source breaks if the fix is reverted. *)
Theorem C03_unreadable_input_is_reported :
  forall old : fhash, is_unknown_gen old = false ->
    inp_entry_path old PUnreadable = Some (true, 2, false) /\
    forall rest, inputs_changed_gen ((true, 2, false) :: rest) = true.
Proof. intros old H. split; [exact (unreadable_input_is_reported old H)|reflexivity]. Qed.

(* NOT TRUE (finding C03-unreadable-input, fixed by 9b8c8cd: the hash thread no longer fails for such an input; kept as the statement about a hash thread that fails outright): "an input that changes underneath a running step
   makes it fail and stops further dispatch" for EVERY way the post-run hash computation can end.
   When the input is no longer a readable regular file (replaced by a directory, permissions
   withdrawn) FileHash.refreshed raises inside the hash thread; Executor._run_work_thread turns that
   into "run failed, result None", the path of a cancelled computation (do_xend ... true): the step
   FAILS but unexpected_input_changes is False, and with keep_going the scheduler keeps dispatching.
   Replayed through the real serve() (c03_repl.unreadable_input_system: START of an independent step
   after the FAIL).  GenFreshStat.unreadable_input_reported says whether compute_inp_hashes reports
   such an input as changed (the proposed fix) instead of raising. *)
Definition C03_changed_input_stops_dispatch_full : Prop := changed_input_stops_dispatch_full.

Theorem C03_changed_input_stops_dispatch_refuted_by_failed_hash_thread :
  c_run (xb unreadable_x) <> None /\ changed_inputs (xb unreadable_x) = [1] /\
  keep_going (xb unreadable_x) = true /\
  (let x' := fst (do_xend unreadable_x 2 true true) in
   c_state (xb x') = SS_FAILED /\ draining (xb x') = false) /\
  (let x' := fst (do_xend unreadable_x 2 true false) in
   c_state (xb x') = SS_FAILED /\ draining (xb x') = true).
Proof. exact unreadable_input_witness. Qed.

Theorem C03_changed_input_stops_dispatch_full_refuted : ~ C03_changed_input_stops_dispatch_full.
Proof. exact changed_input_stops_dispatch_full_refuted. Qed.

(* Non-vacuity: an honest history that uses every operation (utime, chmod, the same bytes moved in
   with the recorded mtime, a write in place, unlink, other bytes moved in with the recorded stat
   fields) is flagged as changed; touch + same bytes in a new inode is not; unlink is "vanished". *)
Example C03_example_honest_history :
  honest wit_c0 (Some wit_c0) wit_history = true /\
  inp_entry (record_of wit_c0) (fs_run (Some wit_c0) wit_history) = (true, 2, false) /\
  inp_entry (record_of wit_c0) (fs_run (Some wit_c0) [OpUtime 6; OpRename (mkCF 1 420 5 3 12)]) = (false, 0, false) /\
  inp_entry (record_of wit_c0) (fs_run (Some wit_c0) [OpUnlink]) = (true, 1, false).
Proof. exact honest_example. Qed.

(* ---------------------------------------------------------------------------------------- *)
(* Non-vacuity.                                                                              *)
(* ---------------------------------------------------------------------------------------- *)

(* Three steps; 7 starts, 8 succeeds while 7 and 9 run, readings repeat (9 starts at the very
   reading at which 8 stopped, but after it): the overlap of 7 with 8 is reported, the pruned maps
   kept the entry of 8; after 7 and 9 stop everything is cleared. *)
Example C03_example_history :
  let evs := [BStart 7 10; BStart 8 10; BStop 8 12 true; BStart 9 12; BStop 9 13 false] in
  mono 0 evs = true /\ ran_order evs 8 7 = true /\ ran_conc (brun evs) 8 7 = true /\
  ran_order evs 8 9 = false /\
  stops (brun (evs ++ [BStop 7 14 true])) = [].
Proof. vm_compute. repeat split; reflexivity. Qed.

(* A consumer 5 with initial input 1 (CONFIRMED, hash 3 on disk) amends 2 (BUILT by step 8 that
   stopped after 5 started): unfresh, carry_on False, ends PENDING; with an unchanged world and a
   fresh input it ends SUCCEEDED. *)
Definition ex_world (stop8 : N) : world :=
  let w := world0 5 [1] 2 false in
  let w := set_files w (upd (upd (files w) 1 (mkF true FS_CONFIRMED 3 false true None false))
                            2 (mkF true FS_BUILT 4 false true (Some 8) false)) in
  let w := set_disk w (upd (upd (disk w) 1 3) 2 4) in
  run [EBk (BStart 8 1); ETry 2; EBk (BStop 8 stop8 true)] w.

Example C03_example_unfresh :
  snd (step (ex_world 3) (EAmend [2])) = RAmend false [] [2] false /\
  c_state (run [EAmend [2]; EEnd 9 true] (ex_world 3)) = SS_PENDING.
Proof. vm_compute. split; reflexivity. Qed.

Example C03_example_fresh_succeeds :
  let w := run [EBk (BStart 8 0); EBk (BStop 8 1 true)]
               (set_disk (set_files (world0 5 [1] 2 false)
                  (upd (upd (fun _ => frow0) 1 (mkF true FS_CONFIRMED 3 false true None false))
                       2 (mkF true FS_BUILT 4 false true (Some 8) false)))
                  (upd (upd (fun _ => 0) 1 3) 2 4)) in
  snd (step (run [ETry 2] w) (EAmend [2])) = RAmend false [] [] true /\
  c_state (run [ETry 2; EAmend [2]; EEnd 9 true] w) = SS_SUCCEEDED /\
  c_state (run [ETry 2; EAmend [2]; EWrite 1 7; EEnd 9 true] w) = SS_FAILED.
Proof. vm_compute. repeat split; reflexivity. Qed.

(* The CHECKING path.  Consumer 5, declared input 1 (CONFIRMED, hash 3), static file 2 (CONFIRMED,
   hash 4), output 9 (hash 7 on disk), non-file ingredients 1. *)
Definition sx0 : xworld :=
  let x := xworld0 5 [1] [9] 2 false 1 in
  let w := xb x in
  let w := set_files w (upd (upd (files w) 1 (mkF true FS_CONFIRMED 3 false true None false))
                            2 (mkF true FS_CONFIRMED 4 false true None false)) in
  set_xb x (set_disk w (upd (upd (upd (disk w) 1 3) 2 4) 9 7)).
Definition repend : xev := XE (ECRow SS_PENDING false 0).

(* The command runs once and stores the hash ([(1,3)], [(9,7)]); made PENDING again, c is dispatched
   to try_skip_job and skipped (SUCCEEDED without a command); if the output is rewritten while it is
   being checked, or an input digest differs, c goes back to PENDING without hash; if the input file
   itself differs from its record, c FAILS and the scheduler drains. *)
Example C03_example_skip :
  let x := xrun [XTry 1 false; XEnd 2 true false; repend] sx0 in
  x_hash x = Some (mkSH 1 [(1, 3)] [(9, 7)]) /\
  snd (xstep x (XTry 3 false)) = XRTry 2 false /\
  (let y := xrun [XTry 3 false] x in
     snd (xstep y (XChk 4 false)) = XRChk true /\ c_state (xb (fst (xstep y (XChk 4 false)))) = SS_SUCCEEDED /\
     c_run (xb (fst (xstep y (XChk 4 false)))) = None) /\
  (let y := xrun [XTry 3 false; XE (EWrite 9 8)] x in
     snd (xstep y (XChk 4 false)) = XRChk false /\ c_state (xb (fst (xstep y (XChk 4 false)))) = SS_PENDING /\
     x_hash (fst (xstep y (XChk 4 false))) = None) /\
  (let y := xrun [XEnvC 2; XTry 3 false] x in c_state (xb y) = SS_PENDING /\ x_hash y = None) /\
  (let y := xrun [XE (EWrite 1 6); XTry 3 false] x in c_state (xb y) = SS_FAILED /\ draining (xb y) = true) /\
  (let y := xrun [XTry 3 true] x in c_state (xb y) = SS_FAILED /\ x_hash y = None) /\
  (let y := xrun [XTry 3 false; XChk 4 true] x in c_state (xb y) = SS_FAILED /\ x_hash y = None).
Proof. vm_compute. repeat split; reflexivity. Qed.

(* validate_dynamic_job: c amends the static file 2, which is recorded MISSING by another actor while
   the command runs; c SUCCEEDS with a hash that does not list 2 but keeps the edge.  Made PENDING
   again with nothing else changed, c gets a VALIDATE_DYNAMIC job: digest unchanged, c is left PENDING
   and deferred and is not dispatched again; mark_step_pending (repend) wakes it up.  With the code
   before fix d760e3e the job leaves c not deferred (C03_prefix_validate_unchanged_redispatches). *)
Example C03_example_validate_waits :
  let x := xrun [XTry 1 false; XE (EAmend [2]); XE (ERow 2 (mkF true FS_MISSING 0 false true None false));
                 XEnd 2 true false; repend] sx0 in
  x_hash x = Some (mkSH 1 [(1, 3)] [(9, 7)]) /\ c_dyn (xb x) = [2] /\
  snd (xstep x (XTry 3 false)) = XRTry 3 false /\
  (let y := fst (xstep x (XTry 3 false)) in
     c_state (xb y) = SS_PENDING /\ c_deferred (xb y) = true /\ has_hash y = true /\
     snd (xstep y (XTry 4 false)) = XRTry 0 false /\
     snd (xstep (xrun [repend] y) (XTry 5 false)) = XRTry 3 false) /\
  snd (do_xtry_gen validate_prefix x 3 false) = XRTry 3 false /\
  has_hash (fst (do_xtry_gen validate_prefix x 3 false)) = true /\
  c_deferred (xb (fst (do_xtry_gen validate_prefix x 3 false))) = false.
Proof. vm_compute. repeat split; reflexivity. Qed.
