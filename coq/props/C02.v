(* C02 The result of a build does not depend on scheduling.
   Property theorems only; proofs are in proofs/CommuteProofs.v, definitions in model/Commute.v.

   The engine's nondeterminism is the order in which the transactions of concurrently running
   steps commit.  Proved here, on the executable model of the stored workflow (model/Graph.v):
   diamond lemmas for pairs of transactions of different running steps, the generic argument that
   lifts them to interleavings, the restart clause, and -- where the faithful model does NOT
   commute -- refutations with reachable witnesses (each replayed on the real Workflow by
   harness/p_c02.py).  The full statement C02_full is kept visible and is not proved. *)
From Coq Require Import List NArith Bool.
From SV Require Import lib.Bytes model.Graph model.GraphDump model.GraphInv model.Commute model.Dispatch
                       proofs.CommuteProofs proofs.CommuteDefine proofs.CommuteSched
                       proofs.CommuteComplete proofs.CommuteCycle
                       model.CommuteBuild proofs.CommuteBuild.
From SV Require lib.Closure.
From SV Require model.Claims proofs.ClaimsProofs.
From SV Require Import proofs.CommuteText.
Import ListNotations.
Open Scope N_scope.

(* The full statement at transaction granularity (model/Commute.v); NOT proved. *)
Definition C02_full_statement : Prop := C02_full.

(* ---- 0. the Prop-level equivalence used below determines the canonical dump ------------------ *)

(* st_equiv = all look-ups agree (node rows with creator and detached flag, file rows, step rows,
   dependency edges, stored step hashes, env rows, defer cap).  With unique keys in both states
   (uniq_b: conjuncts of inv_b, plus uniqueness of env rows) it implies equality of the canonical
   dumps, i.e. GraphDump.dump_eqb, the equality the E2 correspondence uses. *)
Theorem C02_st_equiv_implies_equal_dumps :
  forall s1 s2, st_equiv s1 s2 -> uniq_b s1 = true -> uniq_b s2 = true -> st_equivb s1 s2 = true.
Proof. exact st_equiv_dump_eqb. Qed.

(* ---- 1. declarations_commute ------------------------------------------------------------- *)

(* (static, static), every state: two static declarations of two different ATTACHED creators.
   If both are accepted in both orders, the stored graphs agree on every look-up: node rows
   (creator and detached flag -- the provenance), file rows (state and hash), step rows,
   dependency edges, stored step hashes (who lost one through after_lost_product), env rows. *)
Theorem C02_declarations_commute_static_static :
  forall (s sa sb s12 s21 : st) (c1 c2 : key) (ps1 ps2 : list str),
    no_file_creator_b s = true ->
    not_file c1 -> not_file c2 -> c1 <> c2 ->
    attached c1 s = true -> attached c2 s = true ->
    NoDup ps1 -> NoDup ps2 ->
    step_op (OpDeclareStatic c1 ps1) s = Ok sa -> step_op (OpDeclareStatic c2 ps2) sa = Ok s12 ->
    step_op (OpDeclareStatic c2 ps2) s = Ok sb -> step_op (OpDeclareStatic c1 ps1) sb = Ok s21 ->
    st_equiv s12 s21.
Proof. exact static_static_commute. Qed.

(* Clause (b) for the same pair, and the hypotheses stated once: Pcs Cs s = the part Pst of inv_b
   that excludes the internal-error branches of Trellis.create on a file node (C02_inv_implies_Pst)
   and every creator of Cs is an attached step.  Two static declarations of different creators
   of Cs are accepted in both orders or in neither; if accepted the graphs agree. *)
Theorem C02_static_static_both_orders_or_neither :
  forall (Cs : list key) (a b : op) (s : st),
    other_creator a b -> static_by Cs a -> static_by Cs b -> Pcs Cs s ->
    accepted2 a b s = accepted2 b a s /\
    (accepted2 a b s = true -> st_equiv (apply_op (apply_op s a) b) (apply_op (apply_op s b) a)).
Proof. exact static_diamond. Qed.

(* Congruence: a static declaration cannot tell two equivalent states apart. *)
Theorem C02_static_declaration_congruent :
  forall (Cs : list key) (o : op) (s s' : st),
    static_by Cs o -> Pcs Cs s -> Pcs Cs s' -> st_equiv s s' ->
    okb o s = okb o s' /\ st_equiv (apply_op s o) (apply_op s' o).
Proof. exact static_cong. Qed.

Theorem C02_inv_implies_Pst : forall s, inv_b s = true -> Pst s.
Proof. exact inv_b_Pst. Qed.

(* (static, define) in the FRESH fragment.  fresh_define L inp out vol s: the label L is new, the
   three path lists are duplicate free and pairwise disjoint, no (re)created row is BUILT (a BUILT
   row would start a propagation through its consumers), no node has a file as creator.  Both
   issuers are attached; deps_closed (absent nodes have no edges) and vol_nohash (a VOLATILE row has
   no hash) follow from inv_b (C02_inv_implies_deps_closed, C02_inv_implies_vol_nohash).  Since
   D32 (bae2038) a creator-less VOLATILE row that is supplied as an input stays VOLATILE; that
   case is covered (nst), not excluded.  If both requests are accepted in both orders the graphs agree
   on every look-up.  Covers the provenance case "one step supplies p as an input, another step
   declares p static": p ends up UNCONFIRMED, attached, owned by the declarer, with the edge
   p -> L, in either order. *)
Theorem C02_declarations_commute_static_define :
  forall (s sa sb s12 s21 : st) (c1 : key) (ps : list str)
         (c2 : key) (L : str) (inp env out vol : list str) (nd : need),
    not_file c1 -> not_file c2 -> NoDup ps -> attached c1 s = true -> attached c2 s = true ->
    fresh_define L inp out vol s -> deps_closed s -> vol_nohash s ->
    step_op (OpDeclareStatic c1 ps) s = Ok sa ->
    step_op (OpDefineStep c2 L inp env out vol nd) sa = Ok s12 ->
    step_op (OpDefineStep c2 L inp env out vol nd) s = Ok sb ->
    step_op (OpDeclareStatic c1 ps) sb = Ok s21 ->
    st_equiv s12 s21.
Proof. exact static_define_commute. Qed.

(* (define, define) in the fresh fragment: two new steps with different labels defined by attached
   creators; the paths of the two requests may overlap (a common input, an output of one that is
   an input of the other).  If both are accepted in both orders the graphs agree on every look-up:
   in particular a path that one step supplies as an input and the other builds is owned by the
   builder, PLANNED, with both edges, whichever request arrived first. *)
Theorem C02_declarations_commute_define_define :
  forall (s sa sb s12 s21 : st)
         (c1 : key) (L1 : str) (i1 e1 o1 v1 : list str) (n1 : need)
         (c2 : key) (L2 : str) (i2 e2 o2 v2 : list str) (n2 : need),
    L1 <> L2 -> not_file c1 -> not_file c2 -> attached c1 s = true -> attached c2 s = true ->
    fresh_define L1 i1 o1 v1 s -> fresh_define L2 i2 o2 v2 s -> deps_closed s ->
    step_op (OpDefineStep c1 L1 i1 e1 o1 v1 n1) s = Ok sa ->
    step_op (OpDefineStep c2 L2 i2 e2 o2 v2 n2) sa = Ok s12 ->
    step_op (OpDefineStep c2 L2 i2 e2 o2 v2 n2) s = Ok sb ->
    step_op (OpDefineStep c1 L1 i1 e1 o1 v1 n1) sb = Ok s21 ->
    st_equiv s12 s21.
Proof. exact define_define_commute. Qed.

(* the look-up characterisation of define_step for a new label that the pair theorems rest on *)
Theorem C02_define_step_new_characterised :
  forall c L inp env out vol nd s s',
    define_step_new c L inp env out vol nd s = Ok s' -> fresh_define L inp out vol s ->
    define_spec c L inp env out vol nd s s'.
Proof. exact define_step_new_spec. Qed.

Theorem C02_inv_implies_deps_closed : forall s, inv_b s = true -> deps_closed s.
Proof. exact inv_b_deps_closed. Qed.
Theorem C02_inv_implies_vol_nohash : forall s, inv_b s = true -> vol_nohash s.
Proof. exact inv_b_vol_nohash. Qed.

(* ---- 1'. where the faithful model does not commute (each witness is a reachable state with
        inv_b = true in which both issuers are RUNNING) ------------------------------------- *)

Theorem C02_stale_volatile_input_refuted :
  refutes w_stale_volatile_input w_stale_volatile_input_r1 w_stale_volatile_input_r2 VDiffSuccess /\
  attached (KStep, [97]) (run_ops w_stale_volatile_input (init_st 3)) = true.
Proof. exact stale_volatile_input_refuted. Qed.

Theorem C02_stale_output_cycle_refuted :
  refutes w_stale_output_cycle w_stale_output_cycle_r1 w_stale_output_cycle_r2 VDiffSuccess.
Proof. exact stale_output_cycle_refuted. Qed.

Theorem C02_recycle_subtree_refuted :
  refutes w_recycle_subtree w_recycle_subtree_r1 w_recycle_subtree_r2 VDiffSuccess.
Proof. exact recycle_subtree_refuted. Qed.

Theorem C02_detached_creator_static_static_refuted :
  refutes w_detached_creator_static_static w_detached_creator_static_static_r1
          w_detached_creator_static_static_r2 VDiffSuccess /\
  attached (KStep, [97]) (run_ops w_detached_creator_static_static (init_st 3)) = false.
Proof. exact detached_creator_static_static_refuted. Qed.

Theorem C02_stale_partial_recycle_refuted :
  refutes w_stale_partial_recycle w_stale_partial_recycle_r1 w_stale_partial_recycle_r2 VDiffGraph.
Proof. exact stale_partial_recycle_refuted. Qed.

(* ---- 2. hash results ---------------------------------------------------------------------- *)

(* One CONFIRMED hash result per transaction (run_hash_job), two different paths, no SUCCEEDED or
   FAILED consumer of either path (calm_path: the completion then starts no propagation through
   built outputs): if both are applied in both orders, the graphs agree on every look-up. *)
Theorem C02_hash_result_commutes :
  forall (s sa sb s12 s21 : st) (p1 p2 : str) (h1 h2 : option N),
    p1 <> p2 -> calm_path p1 s = true -> calm_path p2 s = true ->
    step_op (OpUpdateHashes CConfirmed [(p1, h1)]) s = Ok sa ->
    step_op (OpUpdateHashes CConfirmed [(p2, h2)]) sa = Ok s12 ->
    step_op (OpUpdateHashes CConfirmed [(p2, h2)]) s = Ok sb ->
    step_op (OpUpdateHashes CConfirmed [(p1, h1)]) sb = Ok s21 ->
    st_equiv s12 s21.
Proof. exact hash_result_commutes. Qed.

(* A CONFIRMED hash result against a static declaration (any creator, any state of the declared
   paths: absent, orphaned, stale) that does not mention the confirmed path. *)
Theorem C02_confirm_static_commute :
  forall (s sa sb s12 s21 : st) (p : str) (h : option N) (c : key) (ps : list str),
    no_file_creator_b s = true -> not_file c -> NoDup ps -> ~ In p ps -> calm_path p s = true ->
    step_op (OpUpdateHashes CConfirmed [(p, h)]) s = Ok sa -> step_op (OpDeclareStatic c ps) sa = Ok s12 ->
    step_op (OpDeclareStatic c ps) s = Ok sb -> step_op (OpUpdateHashes CConfirmed [(p, h)]) sb = Ok s21 ->
    st_equiv s12 s21.
Proof. exact confirm_static_commute. Qed.

(* the overlapping case: confirmation and declaration of the SAME path do not commute ... *)
Theorem C02_confirm_vs_static_same_path_refuted :
  refutes w_confirm_vs_static_same_path w_confirm_vs_static_same_path_r1
          w_confirm_vs_static_same_path_r2 VDiffGraph.
Proof. exact confirm_vs_static_same_path_refuted. Qed.
(* ... and the confirmation that the declaration itself requests makes the graphs equal again *)
Theorem C02_confirm_vs_static_same_path_converges :
  let s := run_ops w_confirm_vs_static_same_path (init_st 3) in
  let r1 := w_confirm_vs_static_same_path_r1 in let r2 := w_confirm_vs_static_same_path_r2 in
  st_equivb (apply_op (apply_op (apply_op s r1) r2) r1) (apply_op (apply_op s r2) r1) = true.
Proof. exact confirm_vs_static_same_path_converges. Qed.

(* ---- 4. resumed from a valid database ------------------------------------------------------ *)

(* In a state where nothing is RUNNING or CHECKING and no attached step is FAILED (what a
   successful build leaves behind) the restart transaction changes nothing. *)
Theorem C02_resume_equals_scratch_noop :
  forall s, quiescent_success_b s = true -> step_op OpResetInterrupted s = Ok s.
Proof. exact resume_equals_scratch_noop. Qed.

(* ---- 5. interleavings ---------------------------------------------------------------------- *)

(* Generic: for any class C of transactions, invariant P, equivalence E and swap relation R with
   congruence and the diamond property, two interleavings that differ by adjacent swaps are
   accepted or refused alike and, when accepted, end in equivalent states. *)
Theorem C02_schedule_independent_generic :
  forall (E : st -> st -> Prop) (P : st -> Prop) (R : op -> op -> Prop) (C : op -> Prop),
    (forall s, E s s) ->
    (forall a b c, E a b -> E b c -> E a c) ->
    (forall o s, C o -> P s -> P (apply_op s o)) ->
    (forall o s s', C o -> P s -> P s' -> E s s' ->
                    okb o s = okb o s' /\ E (apply_op s o) (apply_op s' o)) ->
    (forall a b s, R a b -> C a -> C b -> P s ->
                   accepted2 a b s = accepted2 b a s /\
                   (accepted2 a b s = true ->
                    E (apply_op (apply_op s a) b) (apply_op (apply_op s b) a))) ->
    forall l1 l2, swaps R l1 l2 -> Forall C l1 -> forall s, P s ->
      Forall C l2 /\ all_ok l1 s = all_ok l2 s /\
      (all_ok l1 s = true -> E (run_ops l1 s) (run_ops l2 s)).
Proof. exact swaps_sound. Qed.

(* Instantiated: any two arrival orders (related by swaps of requests of different creators) of
   static declarations issued by a set Cs of attached steps are accepted or refused alike, and if
   accepted produce graphs that agree on every look-up.  No bound on the number of requests. *)
Theorem C02_schedule_independent_static_partial :
  forall (Cs : list key) (l1 l2 : list op) (s : st),
    Pcs Cs s -> Forall (static_by Cs) l1 -> swaps other_creator l1 l2 ->
    all_ok l1 s = all_ok l2 s /\ (all_ok l1 s = true -> st_equiv (run_ops l1 s) (run_ops l2 s)).
Proof. exact schedule_independent_static_partial. Qed.

(* ---- non-vacuity --------------------------------------------------------------------------- *)
Definition ex_boot : list op :=
  [OpDeclareStatic root_key [[112]]; OpUpdateHashes CConfirmed [([112], Some 1)];
   OpDefineStep root_key [80] [[112]] [] [] [] NPlan; OpDispatch [80]; OpResetForRerun [80];
   OpDefineStep (KStep, [80]) [97] [] [] [] [] NDefault;
   OpDefineStep (KStep, [80]) [98] [] [] [] [] NDefault;
   OpDispatch [97]; OpResetForRerun [97]; OpDispatch [98]; OpResetForRerun [98]].

(* two attached running steps a, b; a declares x and y, b declares y' and re-declares nothing in
   common: accepted in both orders, equal graphs; with a common path: refused in both orders *)
Example C02_static_static_example :
  let s := run_ops ex_boot (init_st 3) in
  let ra := OpDeclareStatic (KStep, [97]) [[120]; [121]] in
  let rb := OpDeclareStatic (KStep, [98]) [[122]] in
  let rc := OpDeclareStatic (KStep, [98]) [[121]; [122]] in
  inv_b s = true /\ no_file_creator_b s = true /\
  running_step (KStep, [97]) s = true /\ running_step (KStep, [98]) s = true /\
  attached (KStep, [97]) s = true /\ attached (KStep, [98]) s = true /\
  both_orders ra rb s = VCommute /\ both_orders ra rc s = VBothReject /\
  quiescent_success_b s = false /\ quiescent_success_b (init_st 3) = true.
Proof. vm_compute. repeat split; reflexivity. Qed.

(* two unconfirmed static files x (with a PENDING consumer c) and z: both confirmations are accepted
   in both orders, the paths are calm, the graphs are equal *)
Example C02_hash_result_example :
  let s := run_ops (ex_boot ++ [OpDeclareStatic (KStep, [97]) [[120]]; OpDeclareStatic (KStep, [98]) [[122]];
                                OpDefineStep (KStep, [80]) [99] [[120]] [] [] [] NDefault]) (init_st 3) in
  calm_path [120] s = true /\ calm_path [122] s = true /\ step_sinks_of_file [120] s = [[99]] /\
  both_orders (OpUpdateHashes CConfirmed [([120], Some 7)]) (OpUpdateHashes CConfirmed [([122], None)]) s = VCommute /\
  both_orders (OpUpdateHashes CConfirmed [([120], Some 7)]) (OpDeclareStatic (KStep, [98]) [[121]]) s = VCommute.
Proof. vm_compute. repeat split; reflexivity. Qed.

(* the hypotheses of C02_schedule_independent_static_partial hold in the example state, for a
   three-request schedule and its reversal-by-swaps; both are accepted *)
Example C02_schedule_example :
  let s := run_ops ex_boot (init_st 3) in
  let Cs := [(KStep, [97]); (KStep, [98])] in
  let ra := OpDeclareStatic (KStep, [97]) [[120]; [121]] in
  let rb := OpDeclareStatic (KStep, [98]) [[122]] in
  let rc := OpDeclareStatic (KStep, [97]) [[123]] in
  Pcs Cs s /\ Forall (static_by Cs) [ra; rb; rc] /\ swaps other_creator [ra; rb; rc] [rb; ra; rc] /\
  all_ok [ra; rb; rc] s = true.
Proof.
  cbv zeta. split; [|split; [|split]].
  - split; [apply inv_b_Pst; vm_compute; reflexivity|].
    intros c [<-|[<-|[]]]; split; vm_compute; reflexivity.
  - repeat constructor; cbn; auto; intros H; repeat (destruct H as [H|H]; try discriminate); try contradiction.
  - apply (sw_swap other_creator [] _ _ [_]). cbn. discriminate.
  - vm_compute. reflexivity.
Qed.

(* non-vacuity of C02_declarations_commute_static_define: b declares x static while a defines a
   step with input x and output y; accepted in both orders, equal graphs *)
Example C02_static_define_example :
  let s := run_ops ex_boot (init_st 3) in
  let r1 := OpDeclareStatic (KStep, [98]) [[120]] in
  let r2 := OpDefineStep (KStep, [97]) [99] [[120]] [] [[121]] [] NDefault in
  find_node (KStep, [99]) s = None /\ recreated s [120] = true /\
  both_orders r1 r2 s = VCommute.
Proof. vm_compute. repeat split; reflexivity. Qed.

(* non-vacuity of C02_declarations_commute_define_define: a defines c (x -> y), b defines d
   (x, y -> z): common input x, output of one is input of the other; accepted in both orders *)
Example C02_define_define_example :
  let s := run_ops ex_boot (init_st 3) in
  let r1 := OpDefineStep (KStep, [97]) [99] [[120]] [] [[121]] [] NDefault in
  let r2 := OpDefineStep (KStep, [98]) [100] [[120]; [121]] [] [[122]] [] NDefault in
  find_node (KStep, [99]) s = None /\ find_node (KStep, [100]) s = None /\
  both_orders r1 r2 s = VCommute.
Proof. vm_compute. repeat split; reflexivity. Qed.

(* ---- 4'. resumed: the whole canonical dump, stored step hashes included --------------------- *)

(* The dump the E2/E3 comparisons use (node rows, file rows, step rows with their has-hash flag,
   dependency rows, the step_hash rows d_shash, env rows) is unchanged by the restart transaction. *)
Theorem C02_resume_noop_dump :
  forall s, quiescent_success_b s = true ->
    dump_of (apply_op s OpResetInterrupted) = dump_of s /\
    d_shash (dump_of (apply_op s OpResetInterrupted)) = shash s.
Proof. exact resume_noop_dump. Qed.

(* ---- 6. completion versus a declaration by another running step ---------------------------- *)

(* completion_commutes_partial.  The completion transaction of an ATTACHED step l that reports
   success and no output hashes (pre = hs = []: a plan step) and has no OUTDATED file product,
   against a static declaration by any creator c (any state of the declared paths: absent, orphaned,
   stale).  Pst s follows from inv_b (C02_inv_implies_Pst); nodes_uniq sb (unique node keys after the
   declaration) follows from inv_b sb (C02_inv_implies_nodes_uniq; inv_b is preserved, C09).  If both
   are applied in both orders the graphs agree on every look-up, the stored step hashes included. *)
Theorem C02_completion_commutes_partial :
  forall (s sa sb s12 s21 : st) (l : str) (cc : cause) (wd : bool) (c : key) (ps : list str),
    Pst s -> not_file c -> NoDup ps -> attached (KStep, l) s = true ->
    no_outdated_products l s -> nodes_uniq sb ->
    step_op (OpExecEnd l [] cc [] true wd) s = Ok sa -> step_op (OpDeclareStatic c ps) sa = Ok s12 ->
    step_op (OpDeclareStatic c ps) s = Ok sb -> step_op (OpExecEnd l [] cc [] true wd) sb = Ok s21 ->
    st_equiv s12 s21.
Proof. exact completion_commutes_partial. Qed.

Theorem C02_inv_implies_nodes_uniq : forall s, inv_b s = true -> nodes_uniq s.
Proof. exact inv_b_nodes_uniq. Qed.

(* non-vacuity: plan step p (attached, running, no file products) completes while a declares x *)
Example C02_completion_example :
  let s := run_ops ex_boot (init_st 3) in
  let re := OpExecEnd [80] [] CSucceeded [] true false in
  let rd := OpDeclareStatic (KStep, [97]) [[120]] in
  attached (KStep, [80]) s = true /\ file_products_in [80] is_outdated s = [] /\
  inv_b (apply_op s rd) = true /\ both_orders re rd s = VCommute /\
  has_hash [80] (apply_op (apply_op s rd) re) = true.
Proof. vm_compute. repeat split; reflexivity. Qed.

(* ---- 7. interleavings; the dispatch side ---------------------------------------------------- *)

(* Two interleavings of the same per-step request sequences -- every transaction has an issuer, and
   for every issuer c the subsequence of c's transactions is the same in both -- are related by
   adjacent swaps of transactions of different issuers.  (So "swaps different_issuers" in C02_full
   and in the theorems above IS "any two interleavings, each step's own order preserved".) *)
Theorem C02_interleavings_are_swaps :
  forall l1 l2, all_issued l1 -> all_issued l2 -> same_projections l1 l2 ->
                swaps different_issuers l1 l2.
Proof. exact interleavings_swaps. Qed.

(* Instantiated for the fragment with diamond + congruence (static declarations by a set Cs of
   attached steps): ANY two interleavings are accepted or refused alike and, if accepted, end in
   graphs that agree on every look-up.  No bound on the number of steps, requests or paths. *)
Theorem C02_interleavings_static_partial :
  forall (Cs : list key) (l1 l2 : list op) (s : st),
    Pcs Cs s -> Forall (static_by Cs) l1 -> Forall (static_by Cs) l2 -> same_projections l1 l2 ->
    all_ok l1 s = all_ok l2 s /\ (all_ok l1 s = true -> st_equiv (run_ops l1 s) (run_ops l2 s)).
Proof. exact interleavings_static. Qed.

(* The abstract scheduler (model/Dispatch.v): J job slots, a resource pool of capacity cap, an
   arbitrary eligibility test elig on the set of finished steps, and arbitrary durations (at every
   point ANY waiting job that fits may be started, ANY running job may commit its next transaction
   or finish).  Whatever it does, what step c commits during a build is c's script in program order. *)
Theorem C02_build_commits_scripts :
  forall J cap elig jobs tr c,
    wf_jobs jobs -> build_trace J cap elig jobs tr -> proj c tr = pend c (init_cfg jobs).
Proof. exact build_projection. Qed.

(* Hence two builds of the same jobs under ANY two settings (--jobs, resource capacity, eligibility,
   durations / dispatch order) commit interleavings of the same per-step sequences. *)
Theorem C02_builds_are_interleavings :
  forall jobs J1 cap1 elig1 tr1 J2 cap2 elig2 tr2,
    wf_jobs jobs -> build_trace J1 cap1 elig1 jobs tr1 -> build_trace J2 cap2 elig2 jobs tr2 ->
    swaps different_issuers tr1 tr2.
Proof. exact builds_swaps. Qed.

(* A build exists for every job count >= 1 and every capacity that admits each job alone (the -j1
   reference: jobs in list order, each job's transactions en bloc). *)
Theorem C02_sequential_build_exists :
  forall J cap jobs, (1 <= J)%nat -> Forall (fun j => jres j <= cap) jobs ->
    build_trace J cap (fun _ _ => true) jobs (sequential_trace jobs).
Proof. exact sequential_build. Qed.

(* The dispatch side for the proved fragment: jobs that declare static files (each under its own,
   attached step), built under any two settings of job count, resource capacity, eligibility and
   durations: accepted or refused alike and, if accepted, graphs that agree on every look-up. *)
Theorem C02_dispatch_independent_static_partial :
  forall (Cs : list key) (jobs : list job) (s : st) J1 cap1 elig1 tr1 J2 cap2 elig2 tr2,
    Pcs Cs s -> Forall (static_job Cs) jobs -> NoDup (map jkey jobs) ->
    build_trace J1 cap1 elig1 jobs tr1 -> build_trace J2 cap2 elig2 jobs tr2 ->
    all_ok tr1 s = all_ok tr2 s /\ (all_ok tr1 s = true -> st_equiv (run_ops tr1 s) (run_ops tr2 s)).
Proof. exact dispatch_independent_static. Qed.

(* The same for ANY class C of transactions, invariant P, equivalence E and swap relation R that
   contains "different issuers" on C, once congruence and the diamond property (with acceptance
   symmetry) are proved for it: this is what every further fragment (define_step, amend_step,
   completions) has to supply to extend the dispatch theorem; C02_full is the case C = everything. *)
Theorem C02_dispatch_independent_generic :
  forall (E : st -> st -> Prop) (P : st -> Prop) (R : op -> op -> Prop) (C : op -> Prop),
    (forall s, E s s) ->
    (forall a b c, E a b -> E b c -> E a c) ->
    (forall o s, C o -> P s -> P (apply_op s o)) ->
    (forall o s s', C o -> P s -> P s' -> E s s' ->
                    okb o s = okb o s' /\ E (apply_op s o) (apply_op s' o)) ->
    (forall a b s, R a b -> C a -> C b -> P s ->
                   accepted2 a b s = accepted2 b a s /\
                   (accepted2 a b s = true ->
                    E (apply_op (apply_op s a) b) (apply_op (apply_op s b) a))) ->
    (forall a b, C a -> C b -> different_issuers a b -> R a b) ->
    forall jobs s J1 cap1 elig1 tr1 J2 cap2 elig2 tr2,
      wf_jobs jobs -> Forall (fun j => Forall C (jscript j)) jobs -> P s ->
      build_trace J1 cap1 elig1 jobs tr1 -> build_trace J2 cap2 elig2 jobs tr2 ->
      all_ok tr1 s = all_ok tr2 s /\ (all_ok tr1 s = true -> E (run_ops tr1 s) (run_ops tr2 s)).
Proof. exact dispatch_independent_generic. Qed.

(* non-vacuity: two jobs (a: two requests, needs 1 token; b: one request, needs 2 tokens), the
   sequential build under -j1 with 2 tokens and an interleaved build under -j2 with 3 tokens *)
Definition ex_jobs : list job :=
  [mkJob (KStep, [97]) [OpDeclareStatic (KStep, [97]) [[120]; [121]]; OpDeclareStatic (KStep, [97]) [[123]]] 1;
   mkJob (KStep, [98]) [OpDeclareStatic (KStep, [98]) [[122]]] 2].
Example C02_dispatch_example :
  let s := run_ops ex_boot (init_st 3) in
  let Cs := [(KStep, [97]); (KStep, [98])] in
  let ra := OpDeclareStatic (KStep, [97]) [[120]; [121]] in
  let rb := OpDeclareStatic (KStep, [98]) [[122]] in
  let rc := OpDeclareStatic (KStep, [97]) [[123]] in
  Forall (static_job Cs) ex_jobs /\ NoDup (map jkey ex_jobs) /\
  build_trace 1 2 (fun _ _ => true) ex_jobs [ra; rc; rb] /\
  build_trace 2 3 (fun k f => match f with [] => true | _ => negb (key_eqb k (KStep, [97])) end) ex_jobs [ra; rb; rc] /\
  all_ok [ra; rc; rb] s = true.
Proof.
  cbv zeta. split; [|split; [|split; [|split]]].
  - repeat constructor; cbn; auto; intros H; repeat (destruct H as [H|H]; try discriminate); try contradiction.
  - repeat constructor; cbn; intros H; repeat (destruct H as [H|H]; try discriminate); try contradiction.
  - apply (sequential_build 1 2 ex_jobs); [auto | repeat constructor; cbn; discriminate].
  - eexists. split.
    + eapply sr_silent; [apply (sm_start _ _ _ [] (nth 0 ex_jobs (mkJob root_key [] 0)) [(nth 1 ex_jobs (mkJob root_key [] 0), JWaiting)]);
                         cbn; [auto | discriminate | reflexivity]|].
      eapply sr_silent; [apply (sm_start _ _ _ [(_, JRunning _)] (nth 1 ex_jobs (mkJob root_key [] 0)) []);
                         cbn; [auto | discriminate | reflexivity]|].
      eapply sr_commit; [apply (sm_commit _ _ _ [] _ _ _ [_])|].
      eapply sr_commit; [apply (sm_commit _ _ _ [_] _ _ _ [])|].
      eapply sr_commit; [apply (sm_commit _ _ _ [] _ _ _ [_])|].
      eapply sr_silent; [apply (sm_finish _ _ _ [] _ [_])|].
      eapply sr_silent; [apply (sm_finish _ _ _ [_] _ [])|].
      apply sr_nil.
    + repeat constructor.
  - vm_compute. reflexivity.
Qed.

(* ---- 7'. towards congruence of define_step / amend_step: the cycle checks -------------------- *)

(* would_cycle (the model of RECURSE_SINKS behind check_sources_acyclic / add_source) is
   reachability over the dependency edges, with the fuel the model gives it ... *)
Theorem C02_cycle_check_is_reachability :
  forall sink srcs s,
    would_cycle sink srcs s = true <-> exists x, In x srcs /\ Closure.path (dep_edges s) sink x.
Proof. exact would_cycle_spec. Qed.

(* ... hence it cannot tell two states apart that agree on every look-up (the edge lists may be
   permuted): the closure argument that congruence of define_step and amend_step needs. *)
Theorem C02_cycle_check_congruent :
  forall sink srcs s s', st_equiv s s' -> would_cycle sink srcs s = would_cycle sink srcs s'.
Proof. exact would_cycle_equiv. Qed.

(* ---- 8. the text of an error about two conflicting declarations ----------------------------- *)

(* On the model of the declaration layer (model/Claims.v; message templates, verbs and hints are
   regenerated from workflow.py into gen/GenClaims.v on every run): for ANY two single-path
   declarations among {static file, amended output, amended volatile output, define_step with one
   output / one volatile output} -- any creators, any two paths, any two labels -- from any state
   that satisfies the invariant of C08 and in which each request is acceptable on its own, the two
   arrival orders are both accepted or both rejected, and when rejected the printed text is the
   same.  Refuted pair classes (open findings of C08, replayed there): glob pattern versus a planned
   output (pair-asymmetry:glob-after-planned-output-accepted, D3). *)
Theorem C02_conflict_text_order_independent :
  forall gm gr st A B,
    ClaimsProofs.Inv gm gr st -> ClaimsProofs.steps_closed (Claims.steps st) -> creq_ok A -> creq_ok B ->
    ClaimsProofs.accepted (Claims.step gm false gr st (creq_req A)) = true ->
    ClaimsProofs.accepted (Claims.step gm false gr st (creq_req B)) = true ->
    ClaimsProofs.accepted (Claims.run gm false gr st [creq_req A; creq_req B]) =
    ClaimsProofs.accepted (Claims.run gm false gr st [creq_req B; creq_req A]) /\
    err_text (Claims.run gm false gr st [creq_req A; creq_req B]) =
    err_text (Claims.run gm false gr st [creq_req B; creq_req A]).
Proof. exact conflict_text_order_independent. Qed.

(* ... in particular in every state reachable from the empty workflow *)
Theorem C02_conflict_text_reachable :
  forall gm gr st A B,
    ClaimsProofs.reachable gm false gr st -> creq_ok A -> creq_ok B ->
    ClaimsProofs.accepted (Claims.step gm false gr st (creq_req A)) = true ->
    ClaimsProofs.accepted (Claims.step gm false gr st (creq_req B)) = true ->
    err_text (Claims.run gm false gr st [creq_req A; creq_req B]) =
    err_text (Claims.run gm false gr st [creq_req B; creq_req A]).
Proof. exact conflict_text_reachable. Qed.

(* ---- 9. whole builds: state-dependent guards, confluence, hazard classes ---------------------- *)

(* The class arguments above (Forall C l) cannot say "the defined label is new" or "no stale node is
   supplied": those are properties of the STATE a request meets.  guarded G l s (model/CommuteBuild.v):
   every transaction of the run l satisfies the boolean guard G in the state it meets;
   fine G l s = all_ok l s && guarded G l s.

   Generic lifting 1 (clause 1 of C02 separated from clause 2).  From RESULT congruence and the pair
   statement in exactly the shape the pair theorems of section 1 have ("accepted in both orders =>
   equivalent graphs"): if every reordering of a build (swaps of transactions of R-related pairs) is
   accepted and guarded, ALL reorderings end in equivalent states.  Induction on the swap derivation. *)
Theorem C02_confluence_from_pairs_generic :
  forall (E : st -> st -> Prop) (P : st -> Prop) (R : op -> op -> Prop) (G : op -> st -> bool),
    (forall s, E s s) ->
    (forall a b c, E a b -> E b c -> E a c) ->
    (forall o s, P s -> P (apply_op s o)) ->
    (forall o s s', P s -> P s' -> E s s' -> G o s = true -> G o s' = true ->
                    okb o s = true -> okb o s' = true -> E (apply_op s o) (apply_op s' o)) ->
    (forall a b s, R a b -> P s ->
                   G a s = true -> G b (apply_op s a) = true -> G b s = true -> G a (apply_op s b) = true ->
                   accepted2 a b s = true -> accepted2 b a s = true ->
                   E (apply_op (apply_op s a) b) (apply_op (apply_op s b) a)) ->
    forall l1 l2 s, swaps R l1 l2 -> P s -> (forall l, swaps R l1 l -> fine G l s = true) ->
                    E (run_ops l1 s) (run_ops l2 s).
Proof. exact accepted_swaps_sound. Qed.

(* Generic lifting 2 (both clauses).  From congruence and the FORWARD diamond on guarded accepted
   pairs (if a then b is accepted and guarded, so is b then a, with an equivalent result): if ONE
   schedule is accepted and guarded, every reordering is accepted, guarded and ends in an equivalent
   state.  With G = hazard_free (below) this is the shape of the statement that excludes exactly the
   known non-commuting classes by a hypothesis the model decides; its two premises are not proved for
   the whole alphabet (amend_step, completions with outputs: design.d/C02.md). *)
Theorem C02_confluence_guarded_generic :
  forall (E : st -> st -> Prop) (P : st -> Prop) (R : op -> op -> Prop) (G : op -> st -> bool),
    (forall s, E s s) ->
    (forall a b c, E a b -> E b c -> E a c) ->
    (forall o s, P s -> P (apply_op s o)) ->
    (forall o s s', P s -> P s' -> E s s' -> G o s = true -> okb o s = true ->
                    G o s' = true /\ okb o s' = true /\ E (apply_op s o) (apply_op s' o)) ->
    (forall a b s, R a b -> P s ->
                   G a s = true -> okb a s = true -> G b (apply_op s a) = true -> okb b (apply_op s a) = true ->
                   G b s = true /\ okb b s = true /\ G a (apply_op s b) = true /\ okb a (apply_op s b) = true /\
                   E (apply_op (apply_op s a) b) (apply_op (apply_op s b) a)) ->
    forall l1 l2, swaps R l1 l2 -> forall s, P s -> fine G l1 s = true ->
                  fine G l2 s = true /\ E (run_ops l1 s) (run_ops l2 s).
Proof. exact guarded_swaps_sound. Qed.

(* INSTANTIATED for whole runs that mix static declarations and define_step requests of NEW steps
   (decl_guard: the issuer is an attached step; static: duplicate-free paths; define: fresh_define_b =
   the label is new in the state the request meets, path lists duplicate free and pairwise disjoint,
   no (re)created row BUILT).  The requests may overlap arbitrarily: a source one step supplies as an
   input and another declares static, an output of one new step that is an input of another, stale
   outputs taken over.  From ANY state with the core invariant of C09 (inv_core_b: preserved by every
   operation whatsoever, C09_core_inv_preserved), for ANY two interleavings of the same per-step
   sequences: if every interleaving is accepted and meets fresh states (the build succeeds under
   every schedule), all interleavings end in graphs that agree on every look-up -- creators,
   detached flags, file states and hashes, step rows, edges, stored step hashes, env rows.
   Unbounded in the number of steps, requests and paths.  Not covered: clause 2 (that acceptance
   itself is schedule independent) for define_step, amend_step, completions. *)
Theorem C02_successful_declaration_builds_confluent_partial :
  forall (l1 l2 : list op) (s : st),
    inv_core_b s = true -> all_issued l1 -> all_issued l2 -> same_projections l1 l2 ->
    (forall l, swaps different_issuers l1 l -> fine decl_guard l s = true) ->
    st_equiv (run_ops l1 s) (run_ops l2 s).
Proof. exact decl_interleavings_confluent. Qed.

(* ... for builds of the abstract scheduler (model/Dispatch.v): any two settings of job slots,
   resource capacity, eligibility test and durations *)
Theorem C02_dispatch_independent_declarations_partial :
  forall (jobs : list job) (s : st) J1 cap1 elig1 tr1 J2 cap2 elig2 tr2,
    inv_core_b s = true -> wf_jobs jobs ->
    build_trace J1 cap1 elig1 jobs tr1 -> build_trace J2 cap2 elig2 jobs tr2 ->
    (forall l, swaps different_issuers tr1 l -> fine decl_guard l s = true) ->
    st_equiv (run_ops tr1 s) (run_ops tr2 s).
Proof. exact build_graph_confluent_decls. Qed.

(* result congruence of define_step for a new label (the ingredient that was missing): two
   characterised results from equivalent states are equivalent *)
Theorem C02_define_step_result_congruent :
  forall c L inp env out vol nd s t s' t',
    st_equiv s t -> define_spec c L inp env out vol nd s s' -> define_spec c L inp env out vol nd t t' ->
    st_equiv s' t'.
Proof. exact define_cong. Qed.

Theorem C02_fresh_define_b_sound :
  forall L inp out vol s, fresh_define_b L inp out vol s = true -> fresh_define L inp out vol s.
Proof. exact fresh_define_b_sound. Qed.

(* non-vacuity: the example build of model/CommuteBuild.v.  Two plan steps a, b run under the boot
   plan; a declares the source x and defines c : x -> y; b defines d : x, y -> z and declares the
   source w (x is an input of both new steps and declared static by a; y is an output of c and an
   input of d).  The universally quantified hypothesis holds: EVERY reordering of the sequential run
   is one of the six interleavings (swaps_closed), all six are accepted and fresh; the scheduler
   produces the sequential run under -j1 and the state has the invariant.  Hence the theorem applies
   to all 6 x 6 pairs; the last conjunct shows the conclusion on the canonical dumps. *)
Example C02_build_example :
  let s := run_ops xb_boot (init_st 3) in
  inv_core_b s = true /\ inv_b s = true /\ wf_jobs xb_jobs /\
  build_trace 1 2 (fun _ _ => true) xb_jobs [xb_a1; xb_a2; xb_b1; xb_b2] /\
  (forall l, swaps different_issuers [xb_a1; xb_a2; xb_b1; xb_b2] l -> fine decl_guard l s = true) /\
  (forall l, In l xb_all -> st_equiv (run_ops [xb_a1; xb_a2; xb_b1; xb_b2] s) (run_ops l s)) /\
  forallb (fun l => guarded hazard_free l s) xb_all = true /\
  forallb (fun l => st_equivb (run_ops [xb_a1; xb_a2; xb_b1; xb_b2] s) (run_ops l s)) xb_all = true.
Proof.
  cbv zeta.
  assert (HF := xb_every_reordering_fine).
  split; [vm_compute; reflexivity|]. split; [vm_compute; reflexivity|].
  split.
  { split; [repeat constructor | repeat constructor; cbn; intros H; repeat (destruct H as [H|H]; try discriminate); contradiction]. }
  split.
  { apply (sequential_build 1 2 xb_jobs); [auto | repeat constructor; cbn; discriminate]. }
  split; [exact HF|].
  split.
  { intros l Hl. apply decl_runs_confluent; [vm_compute; reflexivity | | exact HF].
    cbn [xb_all In] in Hl.
    assert (S1 : swaps different_issuers [xb_a1; xb_a2; xb_b1; xb_b2] [xb_a1; xb_b1; xb_a2; xb_b2])
      by (apply (sw_swap different_issuers [xb_a1] xb_a2 xb_b1 [xb_b2]); reflexivity).
    assert (S2 : swaps different_issuers [xb_a1; xb_b1; xb_a2; xb_b2] [xb_a1; xb_b1; xb_b2; xb_a2])
      by (apply (sw_swap different_issuers [xb_a1; xb_b1] xb_a2 xb_b2 []); reflexivity).
    assert (S3 : swaps different_issuers [xb_a1; xb_b1; xb_a2; xb_b2] [xb_b1; xb_a1; xb_a2; xb_b2])
      by (apply (sw_swap different_issuers [] xb_a1 xb_b1 [xb_a2; xb_b2]); reflexivity).
    assert (S4 : swaps different_issuers [xb_b1; xb_a1; xb_a2; xb_b2] [xb_b1; xb_a1; xb_b2; xb_a2])
      by (apply (sw_swap different_issuers [xb_b1; xb_a1] xb_a2 xb_b2 []); reflexivity).
    assert (S5 : swaps different_issuers [xb_b1; xb_a1; xb_b2; xb_a2] [xb_b1; xb_b2; xb_a1; xb_a2])
      by (apply (sw_swap different_issuers [xb_b1] xb_a1 xb_b2 [xb_a2]); reflexivity).
    destruct Hl as [<-|[<-|[<-|[<-|[<-|[<-|[]]]]]]].
    - apply sw_refl.
    - exact S1.
    - eapply sw_trans; eassumption.
    - eapply sw_trans; eassumption.
    - eapply sw_trans; [exact S1|]. eapply sw_trans; eassumption.
    - eapply sw_trans; [exact S1|]. eapply sw_trans; [exact S3|]. eapply sw_trans; eassumption. }
  split; vm_compute; reflexivity.
Qed.

(* ---- 9'. which pairs do NOT commute: the hazard classes ---------------------------------------- *)

(* hazards o s (model/CommuteBuild.v) lists the circumstances under which a transaction of a running
   step is known not to commute with transactions of other running steps; each is a boolean on
   (transaction, state):
     HzStaleVolatileInput (22)  an input is supplied that is a STALE node (detached, still owned) whose
                                row is VOLATILE                                          -- D22
     HzStaleWiredInput (23)     an input is supplied that is a stale node which still has its incoming
                                edge from the stale producer                             -- D23
     HzRecycle (24)             define_step on a label whose node exists                 -- D24
     HzDetachedIssuer (1)       the issuer is detached (its creator is being re-run)
   Each refutation witness of section 1' is flagged with exactly its own class (first component: the
   request of the racing step, second: the other request, third: the both-orders verdict 3 =
   DIFF-SUCCESS, 2 = DIFF-GRAPH); hash result versus declaration of the same path has no issuer and
   converges (section 2).  The E2 oracle evaluates the same classification on the real Workflow and
   reports any non-commuting pair of hazard-free requests. *)
Example C02_hazard_classes_separate_the_witnesses :
  hazard_case 3 w_stale_volatile_input w_stale_volatile_input_r1 w_stale_volatile_input_r2 = ([22], [], 3) /\
  hazard_case 3 w_stale_output_cycle w_stale_output_cycle_r1 w_stale_output_cycle_r2 = ([23], [], 3) /\
  hazard_case 3 w_recycle_subtree w_recycle_subtree_r1 w_recycle_subtree_r2 = ([24], [], 3) /\
  hazard_case 3 w_detached_creator_static_static w_detached_creator_static_static_r1
                w_detached_creator_static_static_r2 = ([1], [], 3) /\
  hazard_case 3 w_stale_partial_recycle w_stale_partial_recycle_r1 w_stale_partial_recycle_r2 = ([24], [23], 2) /\
  hazard_case 3 w_confirm_vs_static_same_path w_confirm_vs_static_same_path_r1
                w_confirm_vs_static_same_path_r2 = ([], [], 2).
Proof. vm_compute. repeat split; reflexivity. Qed.

(* the decidable hypothesis hazard_free excludes less than the fragment fresh_req of model/Commute.v
   (issuer attached, NO stale path mentioned at all, defined label absent): every fresh request is
   hazard free; a stale OUTPUT path, a stale path declared static, a stale unwired non-volatile input
   are hazard free and not fresh *)
Theorem C02_fresh_implies_hazard_free :
  forall o s, fresh_req o s = true -> hazard_free o s = true.
Proof. exact fresh_req_hazard_free. Qed.

(* ---- 10. lifting 2 instantiated; ingredients of clause 2 for define_step / amend_step ---------- *)

(* BOTH clauses for static declarations with the decidable hazard guard (static_hz_guard: the issuer is
   a step, the path list is duplicate free, hazard_free -- which for a static declaration says "the
   issuer is not detached"): the premises of C02_confluence_guarded_generic (congruence, forward diamond
   with guard transport) are discharged, so from any state with C09's core invariant, if ONE schedule is
   accepted and hazard free, EVERY reordering that keeps each step's own order is accepted, hazard free
   and ends in a graph that agrees on every look-up.  Stale paths are allowed (taken over in either
   order).  The same two premises for define_step are not proved (acceptance characterisation). *)
Theorem C02_static_one_schedule_suffices :
  forall (l1 l2 : list op) (s : st),
    inv_core_b s = true -> swaps different_issuers l1 l2 -> fine static_hz_guard l1 s = true ->
    fine static_hz_guard l2 s = true /\ st_equiv (run_ops l1 s) (run_ops l2 s).
Proof. exact static_one_schedule_suffices. Qed.

(* The cycle checks of define_step / amend_step (would_cycle) are monotone in the SET of dependency
   edges: a check that passes in a state passes in every state with fewer edges (a request accepted
   AFTER another step's request does not fail its cycle checks BEFORE it) ... *)
Theorem C02_cycle_check_monotone :
  forall sink srcs s s',
    incl (dep_edges s) (dep_edges s') -> would_cycle sink srcs s' = false -> would_cycle sink srcs s = false.
Proof. exact cycle_check_passes_with_fewer_edges. Qed.

(* ... and cannot fail below an acyclic state that contains the edge being added: if t has the core
   invariant (acyclic), contains the edges of s and the edge src -> sink, then adding src -> sink to s
   passes the check.  (The symmetric half of acceptance: when b is accepted after a, the final state of
   a;b is acyclic, hence the cycle checks of a cannot fail in the order b;a.) *)
Theorem C02_cycle_check_passes_below_acyclic_state :
  forall sink src s t,
    inv_core_b t = true -> incl (dep_edges s) (dep_edges t) -> In (src, sink) (dep_edges t) ->
    would_cycle sink [src] s = false.
Proof. exact would_cycle_false_in_acyclic_superstate. Qed.

(* non-vacuity of C02_static_one_schedule_suffices: the three-request schedule of C02_schedule_example *)
Example C02_static_hz_example :
  let s := run_ops ex_boot (init_st 3) in
  let ra := OpDeclareStatic (KStep, [97]) [[120]; [121]] in
  let rb := OpDeclareStatic (KStep, [98]) [[122]] in
  let rc := OpDeclareStatic (KStep, [97]) [[123]] in
  inv_core_b s = true /\ fine static_hz_guard [ra; rb; rc] s = true /\
  swaps different_issuers [ra; rb; rc] [rb; ra; rc].
Proof.
  cbv zeta. split; [vm_compute; reflexivity|]. split; [vm_compute; reflexivity|].
  apply (sw_swap different_issuers [] _ _ [_]). reflexivity.
Qed.
