(* C04 Rebuilding with nothing changed does nothing; edits rerun only their cone.
   Property theorems only; proofs in proofs/NoopProofs.v, NoopBridge.v, NoopCone2.v, definitions in
   model/Noop.v. *)
From Coq Require Import List NArith Bool.
From SV Require Import lib.Bytes model.Graph model.GraphInv model.GraphDump model.Noop gen.GenNoop
  proofs.NoopProofs proofs.NoopBridge proofs.NoopCone2 proofs.NoopDefer proofs.NoopCone2x.
(* the engine model of C01 (digests, skip check, plan edits) and the executed-cone statements on it:
   Required, not Imported (model/Engine.v and model/Graph.v share names), used qualified *)
From SV Require model.Engine model.NoopExec proofs.NoopExecProofs.
Import ListNotations.
Open Scope N_scope.

(* ------------------------------------------------------------------------------------------ *)
(* The full sentence (Definition C04_full, model/Noop.v), on histories of transactions of the    *)
(* stored workflow, is REFUTED as written (C04_full_refuted).  Its first two clauses are proved  *)
(* for all histories (C04_noop_after_successful_history); for the third see                      *)
(* C04_cone_invariant_partial2 and design.d/C04.md (clauses, what stays partial).                *)
(* ------------------------------------------------------------------------------------------ *)

(* successful_history (model/Noop.v): a history ends in a successful build when nothing runs, no
   attached step is FAILED, no attached required step is PENDING (the pending universe of
   report_unbuilt is empty), every declared static file is confirmed (end_of_phase_b); then finalize
   ran (revert_optional_steps, delete_detached). *)

(* dispatch_enabled, consumes, produces and the Definition C04_full are in model/Noop.v. *)

(* ------------------------------------------------------------------------------------------ *)
(* Proved                                                                                      *)
(* ------------------------------------------------------------------------------------------ *)

(* Restart with an unchanged file system and environment, from any state of the shape a
   successful finalize leaves: the startup transactions (reset of interrupted steps, no step
   marked for an environment change, re-hash results equal to the recorded hashes are dropped
   before update_file_hashes) leave the stored workflow as it was; no step satisfies the
   dispatch predicate; the finalize transactions are the identity. *)
Theorem C04_restart_noop :
  forall (s : st) (rehash : list (str * option N)),
    quiescent_success_b s = true ->
    unchanged_b s rehash = true ->
    run_ops (startup_ops s [] rehash) s = s /\
    (forall l, dispatch_guard l s = false) /\
    revert_optional s = Ok s /\
    delete_detached s = Ok s.
Proof. exact restart_noop. Qed.

(* Watch-mode rebuild with an empty change set, or one whose re-hash results are all unchanged:
   no transaction is issued at all. *)
Theorem C04_watch_noop :
  forall (s : st) (rehash : list (str * option N)),
    quiescent_success_b s = true ->
    unchanged_watch_b s rehash = true ->
    watch_ops s rehash = [] /\
    run_ops (watch_ops s rehash) s = s /\
    (forall l, dispatch_guard l s = false) /\
    revert_optional s = Ok s /\
    delete_detached s = Ok s.
Proof. exact watch_noop. Qed.

(* The complete no-change cycle (startup, then finalize) as one run: identical canonical dump. *)
Theorem C04_restart_cycle_same_dump :
  forall (s : st) (rehash : list (str * option N)),
    quiescent_success_b s = true -> unchanged_b s rehash = true ->
    dump_eqb (dump_of (run_xops (map XOp (startup_ops s [] rehash) ++ [XRevert; XOp OpDeleteDetached]) s))
             (dump_of s) = true /\
    dispatchable (run_ops (startup_ops s [] rehash) s) = [].
Proof. exact restart_cycle_same_dump. Qed.

(* The skip transaction (try_skip_job with matching digests): only the step's own row changes. *)
Theorem C04_skip_changes_nothing :
  forall (s : st) (l : str) (r : srow),
    find_step l s = Some r -> sst r = SChecking -> has_hash l s = true ->
    file_products_in l is_outdated s = [] ->
    step_op (OpExecEnd l [] CSucceeded [] true false) s = Ok (upd_step l succeeded_row s).
Proof. exact skip_changes_nothing. Qed.

(* ---- the bridge from histories to the state predicate ------------------------------------- *)

(* State form.  In a well-formed state (inv_core_b: holds after every transaction, C09) in which a
   build phase ended successfully (end_of_phase_b), both finalize transactions succeed and leave a
   state that satisfies quiescent_success_b.  Which clause needs what:
   - q_no_job_b: the "no RUNNING/CHECKING step" clause of end_of_phase_b (revert writes PENDING only);
   - q_steps_b, required steps: "no attached FAILED step", "no attached required PENDING step" and
     "no job" leave SUCCEEDED; `required` is the same before and after both transactions (a file
     with an attached consumer is never deleted: inv_core_b is used for the row lookups only);
   - q_steps_b, other steps: what revert_optional writes (PENDING; BUILT/OUTDATED outputs PLANNED);
   - q_no_deletable_b: delete_detached runs to its fixpoint (fuel = number of nodes suffices) and
     does not fail, because a detached node's creator is a step or a tree (inv_core_b);
   - q_no_unconfirmed_b: the same clause of end_of_phase_b. *)
Theorem C04_bridge_state :
  forall s : st,
    inv_core_b s = true -> end_of_phase_b s = true ->
    exists s1 s2, revert_optional s = Ok s1 /\ delete_detached s1 = Ok s2 /\
                  inv_core_b s2 = true /\ quiescent_success_b s2 = true.
Proof. exact bridge_state_b. Qed.

(* History form (the former Definition C04_bridge, now proved): for every history of transactions
   (Graph.v alphabet + revert_optional_steps) from the empty workflow that ends in a successful
   build, the final state satisfies quiescent_success_b. *)
Theorem C04_bridge :
  forall (cap : N) (hist : list xop),
    successful_history cap hist -> quiescent_success_b (run_xops hist (init_st cap)) = true.
Proof. exact bridge. Qed.

(* At the end of a successful phase nothing satisfies the dispatch guard. *)
Theorem C04_end_of_phase_nothing_dispatchable :
  forall s : st, end_of_phase_b s = true -> forall l, dispatch_guard l s = false.
Proof. exact end_of_phase_nothing_dispatchable. Qed.

(* The first two clauses of C04_full, for histories: after ANY history that ends in a successful
   build, a restart and a watch-mode rebuild with nothing changed are the identity. *)
Theorem C04_noop_after_successful_history :
  forall (cap : N) (hist : list xop),
    successful_history cap hist ->
    let q := run_xops hist (init_st cap) in
    (forall rehash, unchanged_b q rehash = true ->
       run_ops (startup_ops q [] rehash) q = q /\ (forall l, dispatch_guard l q = false) /\
       revert_optional q = Ok q /\ delete_detached q = Ok q) /\
    (forall rehash, unchanged_watch_b q rehash = true ->
       watch_ops q rehash = [] /\ run_ops (watch_ops q rehash) q = q /\
       (forall l, dispatch_guard l q = false) /\
       revert_optional q = Ok q /\ delete_detached q = Ok q).
Proof. exact noop_after_successful_history. Qed.

(* ---- tracked environment variables -------------------------------------------------------- *)

(* Restart with unchanged files AND unchanged values of every tracked variable: no step is marked
   PENDING, the recorded values stay as they are, the stored workflow is untouched. *)
Theorem C04_restart_noop_env :
  forall (s : st) (vals : list envval) (cur : str -> option N) (b : bool) (rehash : list (str * option N)),
    quiescent_success_b s = true -> unchanged_b s rehash = true -> env_unchanged_b vals cur s = true ->
    run_ops (startup_ops_env s vals cur rehash) s = s /\ rescan_env_store b vals cur s = vals /\
    (forall l, dispatch_guard l s = false).
Proof. exact restart_noop_env. Qed.

(* A variable that goes A -> B -> A over two restarts is noticed both times, because the start
   that sees B records B (startup.rescan_env_vars after fix cc92e6e; gen_env_rescan_stores_seen_value). *)
Theorem C04_env_aba_detected :
  forall (s s' : st) (vals : list envval) (curB curA : str -> option N) (l n : str) (a : option N),
    In (l, n, a) vals ->
    attached (KStep, l) s = true -> attached (KStep, l) s' = true ->
    curB n <> a -> curA n = a ->
    In l (rescan_env_steps vals curB s) /\
    In l (rescan_env_steps (rescan_env_store true vals curB s) curA s').
Proof. exact env_aba_detected. Qed.

(* Several tracked variables, several of them changed at once (also several of one step): after the
   start every row of every attached step holds the value the start saw, whether the row was found
   changed or not; rows, steps and names are kept; a step is rerun iff one of its rows changed. *)
Theorem C04_env_store_complete :
  forall (s : st) (vals : list envval) (cur : str -> option N),
    (forall r', In r' (rescan_env_store true vals cur s) -> attached (KStep, ev_step r') s = true ->
                ev_value r' = cur (ev_name r')) /\
    map ev_step (rescan_env_store true vals cur s) = map ev_step vals /\
    map ev_name (rescan_env_store true vals cur s) = map ev_name vals /\
    (forall l, In l (rescan_env_steps vals cur s) <->
               exists r, In r vals /\ ev_step r = l /\ env_row_changed cur s r = true).
Proof. exact env_store_complete_all. Qed.

(* Hence a second start in the same environment finds nothing changed, whatever subset of the
   variables had changed before (A,B -> A',B' -> A,B' included: each start compares with the values
   the previous start recorded). *)
Theorem C04_env_second_start_quiet :
  forall (s s' : st) (vals : list envval) (cur : str -> option N),
    (forall l, attached (KStep, l) s' = true -> attached (KStep, l) s = true) ->
    rescan_env_steps (rescan_env_store true vals cur s) cur s' = [].
Proof. exact env_second_start_quiet. Qed.

(* The input digest of the skip / validate check, the digest stored after a run and the command itself
   take the values of the tracked variables from the same mapping (generated from
   Executor._compute_inp_step_hash, _compute_full_step_hash, base_env, _run_command): in an unchanged
   environment the check recomputes exactly the recorded ingredients, also for variables the director
   injects or overrides (SOURCE_DATE_EPOCH, STEPUP_ROOT, STEPUP_BUILD_LOG_LEVEL). *)
Theorem C04_skip_check_reads_the_environment_of_the_run :
  forall (os_env infra : str -> option N) (names : list str),
    digest_env gen_digest_env_source_check os_env infra names =
    digest_env gen_digest_env_source_stored os_env infra names /\
    digest_env gen_digest_env_source_stored os_env infra names =
    digest_env gen_command_env_source os_env infra names.
Proof. exact digest_env_consistent. Qed.

(* the two sources differ exactly on the variables the director injects or overrides *)
Example C04_env_sources_differ_on_injected_variables :
  let os_env := fun _ : str => None in
  let infra := fun _ : str => Some 315532800 in
  digest_env 1 os_env infra [[83]] <> digest_env 2 os_env infra [[83]].
Proof. vm_compute. discriminate. Qed.

(* ---- the cone ---------------------------------------------------------------------------- *)

(* Applying the EXTERNAL re-hash results of source files (CONFIRMED or MISSING static files) to ANY
   state changes no node and no dependency row, and every step whose state changes becomes PENDING
   and lies in the cone of the edited files: it is reachable from them along
   file -> consuming step, step -> output file and step -> declared node links
   (induction over the mutual recursion mark_step_pending / mark_file_outdated). *)
Theorem C04_pending_only_in_cone :
  forall (s : st) (hs : list (str * option N)) (s' : st),
    static_sources_b s hs = true ->
    update_file_hashes CExternal hs s = Ok s' ->
    nodes s' = nodes s /\ deps s' = deps s /\
    (forall l, sstate_of l s' <> sstate_of l s ->
               in_cone s (map fst hs) [] l /\ sstate_of l s' = Some SPending).
Proof. exact pending_only_in_cone. Qed.

(* The same for a cone member marked PENDING directly (changed environment variable; G: changed
   glob matches through persist_nglob_matches). *)
Theorem C04_mark_pending_in_cone :
  forall (s : st) (E G : list str) (l : str) (s' : st),
    in_cone s E G l ->
    (forall f, In f E -> fstate_of f s = Some FConfirmed \/ fstate_of f s = Some FMissing) ->
    mark_step_pending l s = Ok s' ->
    nodes s' = nodes s /\ deps s' = deps s /\
    (forall l', sstate_of l' s' <> sstate_of l' s -> in_cone s E G l' /\ sstate_of l' s' = Some SPending).
Proof. exact mark_pending_in_cone. Qed.

(* PARTIAL (operations covered: see cone_op in model/Noop.v).  From a quiescent state q, through
   any sequence of: EXTERNAL re-hash results of the edited sources E, cone steps marked PENDING,
   dispatches of steps that satisfy the dispatch predicate, validate_dynamic_job -> PENDING of
   cone steps, successful completions / skips of cone steps (their consumers become PENDING):
   nodes and dependency rows are those of q, and every step whose state differs from its state
   in q is in the cone of E (and G). *)
Theorem C04_cone_invariant_partial :
  forall (q : st) (E G : list str) (ops : list op),
    quiescent_success_b q = true ->
    (forall f, In f E -> fstate_of f q = Some FConfirmed \/ fstate_of f q = Some FMissing) ->
    cone_ops q E G q ops ->
    let s := run_ops ops q in
    nodes s = nodes q /\ deps s = deps q /\
    (forall l, sstate_of l s = sstate_of l q \/ in_cone q E G l) /\
    (forall f, In f E -> fstate_of f s = Some FConfirmed \/ fstate_of f s = Some FMissing).
Proof. exact cone_invariant_explicit. Qed.

(* PARTIAL, same operations.  Every step that satisfies the dispatch predicate afterwards, and
   every step for which a command was executed on the way (dispatched without a stored hash),
   is in the cone. *)
Theorem C04_cone_partial :
  forall (q : st) (E G : list str),
    quiescent_success_b q = true ->
    (forall f, In f E -> fstate_of f q = Some FConfirmed \/ fstate_of f q = Some FMissing) ->
    forall ops : list op,
      cone_ops q E G q ops ->
      (forall l, dispatch_guard l (run_ops ops q) = true -> in_cone q E G l) /\
      (forall l, In l (executed ops q) -> in_cone q E G l).
Proof. exact cone_partial. Qed.

(* PARTIAL 2 (operations covered: cone_op2 in model/Noop.v): the cone relative to the EVOLVING graph.
   From a quiescent, well-formed state q, through any sequence of the transactions of a rebuild -
   EXTERNAL re-hash of edited static sources, CONFIRMED results for files of the cone, cone steps
   marked PENDING, dispatch under the guard, validate -> PENDING, reset_for_rerun (detaches created
   steps, static files, trees; drops dynamic edges), _reset_step_to_pending, define_step by a RUNNING
   step (new step, partial recycle, full recycle), declare_static and amend_step by a RUNNING step,
   completions (successful, skipped, failed, deferred), hold / release - the following holds for
   tcone E G h, the least set of keys that contains the edited files E and the steps G and is closed
   under every dependency row and creator link of every state the rebuild went through and under the
   declarations made during the rebuild by a cone step:
   - every step whose state differs from its state in q is in the cone;
   - every node that is attached now and was not attached in q (new nodes included) is in the cone;
   - every step that pop_next_job hands out, hence every step for which a command is executed,
     is in the cone.
   Protocol clauses (cone_op2): a job that is completed / reset / validated is in flight; define_step,
   declare_static, amend_step are requested by a RUNNING step; the paths of a hash update at a
   completion are in the cone together with their creators (outputs of the completing step are);
   an idle optional step of q (attached and PENDING in q) is dispatched only if it is in the cone
   (C04_cone_idle_optional_clause_needed shows that this clause cannot be dropped); an orphaned
   (creator-less) BUILT file adopted as an input of a declaration is in the cone. *)
Theorem C04_cone_invariant_partial2 :
  forall (q : st) (E G : list str) (ops : list op),
    quiescent_success_b q = true -> inv_core_b q = true ->
    cone_ops2 q E G [] q ops ->
    let s := run_ops ops q in
    let h := rebuild_hist [] q ops in
    (forall l x, sstate_of l s = Some x -> sstate_of l q = Some x \/ tcone E G h (KStep, l)) /\
    (forall k, attached k s = true -> attached k q = true \/ tcone E G h k) /\
    (forall l, In l (dispatched ops) -> tcone E G h (KStep, l)) /\
    (forall l, In l (executed ops q) -> tcone E G h (KStep, l)).
Proof. exact cone_invariant_partial2_b. Qed.

(* The executable versions used by the E2 correspondence are sound: tcone_b decides the cone, and a
   rebuild accepted by cone_ops2_b satisfies the hypotheses of C04_cone_invariant_partial2. *)
Theorem C04_cone_checker_sound :
  (forall E G h k, tcone_b E G h k = true <-> tcone E G h k) /\
  (forall q E G ops, cone_ops2_b q E G q ops = true -> cone_ops2 q E G [] q ops).
Proof. exact (conj tcone_b_iff cone_ops2_b_ok). Qed.

(* The clause about idle optional steps cannot be dropped: a successful history (two plans, an
   unused OPTIONAL step u declared by the first), an edit of the second plan's script, a rebuild in
   which every transaction satisfies its protocol clause except the dispatch of u (reason 6), which
   the dispatch guard allows because the rerun second plan now consumes u's output: u is executed
   and is outside the cone. *)
Theorem C04_cone_idle_optional_clause_needed :
  exists (cap : N) (hist : list xop) (E : list str) (ops : list op) (l : str),
    successful_history cap hist /\
    let q := run_xops hist (init_st cap) in
    inv_core_b q = true /\
    cone_ops2_first_bad q E [] 0 [] q ops = Some (pred (length ops), 6) /\
    dispatch_guard l (run_ops (removelast ops) q) = true /\
    In l (executed ops q) /\
    ~ tcone E [] (rebuild_hist [] q ops) (KStep, l).
Proof. exact cone_idle_optional_clause_needed. Qed.

(* The full sentence as written (Definition C04_full, model/Noop.v) is FALSE of the model, and of the
   code: the witness is the history of C04_cone_idle_optional_clause_needed (an unused OPTIONAL step
   declared by one plan becomes needed because the edited script of ANOTHER plan now consumes its
   output; it is executed without consuming an edited file or an output of an executed step and
   without having been declared by an executed step).  Replayed on the real director by the E3
   oracle (c04_e3.optional_upstream_item), findings.d/C04-optional-upstream.json. *)
Theorem C04_full_refuted : ~ C04_full.
Proof. exact full_refuted. Qed.

(* The hand-written model agrees with the facts regenerated from the source on every run:
   Graph.transition is workflow._HASH_TRANSITIONS (all 64 keys, present or absent); a re-hash
   result reaches update_file_hashes exactly when the rule of Executor._run_hash_job says so;
   startup.rescan_files leaves out PLANNED and VOLATILE and confirms UNCONFIRMED; resume_from_db
   awaits reset_interrupted_steps, watch_known_dirs, rescan_env_vars, rescan_files, rescan_nglobs;
   rescan_env_vars stores the value it saw; a CONFIRMED result for an UNCONFIRMED file is never
   dropped as stale; validate_dynamic_job with unchanged inputs sets PENDING, deferred iff a dynamic input
   of the step is still unusable in the recording transaction (fix 84081f2; the shapes before it generate
   mode 1 / 0 and break this theorem by name): the transaction step_op2 of model/Noop.v. *)
Theorem C04_model_matches_generated_facts :
  (forallb transition_row_ok gen_transitions = true /\ length gen_transitions = 64%nat) /\
  (forall s cu ph r, find_file (fst ph) s = Some r ->
     hash_job_ops s cu ph =
     (if gen_hash_job_applies (negb (on_eqb (fh r) (snd ph))) (cu && fstate_eqb (fstt r) FUnconfirmed)
      then [OpUpdateHashes (if cu && fstate_eqb (fstt r) FUnconfirmed then CConfirmed else CExternal) [ph]]
      else [])) /\
  ((forall f, existsb (N.eqb (fstate_code f)) gen_rescan_excluded =
              match f with FPlanned | FVolatile => true | _ => false end) /\
   fstate_code FUnconfirmed = gen_rescan_confirm_state /\
   gen_startup_sequence = [1; 2; 3; 4; 5]) /\
  (gen_env_rescan_stores_seen_value = true /\
   existsb (N.eqb (fstate_code FUnconfirmed)) gen_confirmation_kept_states = gen_drops_stale_confirmation) /\
  (gen_validate_flag_mode = 2 /\
   (forall l s, step_op2 (OpValidatePending l) s =
                set_sstate l SPending (GraphExt.has_unusable_dynamic_input l s) s)).
Proof. exact (conj transitions_tie (conj hash_job_rule_tie (conj rescan_rule_tie (conj env_rule_tie validate_rule_tie)))). Qed.

(* ------------------------------------------------------------------------------------------ *)
(* Non-vacuity: a concrete successful history                                                  *)
(* ------------------------------------------------------------------------------------------ *)
Module Ex.
  Definition plan_py : str := [112;108;97;110;46;112;121].
  Definition plan : str := [46;47;112;108;97;110;46;112;121].
  Definition a : str := [97]. Definition o : str := [111]. Definition p : str := [112].
  Definition t : str := [116]. Definition u : str := [117].
  Definition hist : list xop :=
    map XOp
      [OpDeclareStatic root_key [plan_py]; OpUpdateHashes CConfirmed [(plan_py, Some 1)];
       OpDefineStep root_key plan [plan_py] [] [] [] NPlan;
       OpDispatch plan; OpResetForRerun plan;
       OpDeclareStatic (KStep, plan) [a]; OpUpdateHashes CConfirmed [(a, Some 2)];
       OpDefineStep (KStep, plan) t [a] [] [o] [] NDefault;
       OpDefineStep (KStep, plan) u [o] [] [p] [] NOptional;
       OpExecEnd plan [] CSucceeded [] true false;
       OpDispatch t; OpResetForRerun t; OpExecEnd t [] CSucceeded [(o, Some 3)] true false]
    ++ [XRevert; XOp OpDeleteDetached].
  Definition q : st := run_xops hist (init_st 3).
End Ex.

Example C04_example_quiescent :
  quiescent_success_b Ex.q = true /\
  unchanged_b Ex.q [(Ex.plan_py, Some 1); (Ex.a, Some 2); (Ex.o, Some 3)] = true /\
  sstate_of Ex.t Ex.q = Some SSucceeded /\ sstate_of Ex.u Ex.q = Some SPending /\
  required Ex.u Ex.q = false.
Proof. vm_compute. repeat split; reflexivity. Qed.

Example C04_example_history_successful : successful_history 3 Ex.hist.
Proof.
  eexists. split; [unfold Ex.hist; reflexivity|]. vm_compute. reflexivity.
Qed.

(* editing [a] makes t PENDING (and its output OUTDATED); the plan step is untouched *)
Example C04_example_edit :
  let s1 := run_ops [OpUpdateHashes CExternal [(Ex.a, Some 7)]] Ex.q in
  sstate_of Ex.t s1 = Some SPending /\ sstate_of Ex.plan s1 = Some SSucceeded /\
  fstate_of Ex.o s1 = Some FOutdated /\ dispatchable s1 = [Ex.t].
Proof. vm_compute. repeat split; reflexivity. Qed.

(* a rebuild after editing [a]: re-hash, dispatch t, complete it with a new output hash; the ops
   are covered by the partial invariant; t and u are in the cone, the plan step is not touched *)
Example C04_example_cone_ops :
  let ops := [OpUpdateHashes CExternal [(Ex.a, Some 7)]; OpDispatch Ex.t;
              OpExecEnd Ex.t [] CSucceeded [(Ex.o, Some 9)] true false] in
  cone_ops Ex.q [Ex.a] [] Ex.q ops /\
  sstate_of Ex.t (run_ops ops Ex.q) = Some SSucceeded /\
  fstate_of Ex.o (run_ops ops Ex.q) = Some FBuilt /\
  sstate_of Ex.plan (run_ops ops Ex.q) = Some SSucceeded.
Proof.
  assert (Ht : in_cone Ex.q [Ex.a] [] Ex.t).
  { apply (down_dep Ex.q [Ex.a] [] (KFile, Ex.a) (KStep, Ex.t)); [apply down_edited; left; reflexivity|].
    vm_compute. reflexivity. }
  cbn [cone_ops]. repeat split; try (vm_compute; reflexivity).
  - apply co_external. intros ph [<-|[]]. left. reflexivity.
  - apply co_dispatch. vm_compute. reflexivity.
  - apply co_exec_ok; [exact Ht|]. intros ph [<-|[]]. vm_compute. reflexivity.
Qed.

(* Without storing the seen value the return to A goes unnoticed (the behaviour before the fix). *)
Example C04_env_aba_missed_without_store :
  let vals := [(Ex.t, [86], Some 1)] in
  let curB := fun _ : str => Some 2 in
  let curA := fun _ : str => Some 1 in
  rescan_env_steps vals curB Ex.q = [Ex.t] /\
  rescan_env_steps (rescan_env_store false vals curB Ex.q) curA Ex.q = [] /\
  rescan_env_steps (rescan_env_store true vals curB Ex.q) curA Ex.q = [Ex.t].
Proof. vm_compute. repeat split; reflexivity. Qed.

(* a rebuild that changes nodes and edges: plan.py is edited, the plan step is checked, not skipped,
   rerun; it re-declares its static file and t (full recycle), drops u, defines a new step w; t is
   only checked (skipped), w is executed.  The hypotheses of C04_cone_invariant_partial2 hold. *)
Example C04_example_rebuild_with_plan_rerun :
  quiescent_success_b ExR.q = true /\ inv_core_b ExR.q = true /\
  cone_ops2 ExR.q [ExR.plan_py] [] [] ExR.q ExR.ops /\
  cone_ops2_b ExR.q [ExR.plan_py] [] ExR.q ExR.ops = true /\
  executed ExR.ops ExR.q = [ExR.plan; ExR.w] /\ dispatched ExR.ops = [ExR.plan; ExR.plan; ExR.t; ExR.w] /\
  attached (KStep, ExR.u) (run_ops ExR.ops ExR.q) = false.
Proof. exact ExR_example. Qed.

(* The label ingredient of the input digest (1 = the label of the step, 2 = Run.description, its display form with
   control characters escaped): the skip / validate check and the hash stored after a run use the step label.  With
   different sources a step whose command contains a control character never passes its check (seeded/C04-r5; the
   absorbed E3 family carries such labels). *)
Theorem C04_skip_check_and_stored_hash_use_the_step_label :
  gen_digest_label_source_check = 1 /\ gen_digest_label_source_stored = 1.
Proof. exact digest_label_tie. Qed.

(* startup.rescan_env_vars, translated statement by statement (the translator interprets the loop over the env_var
   rows for a row whose current value differs / does not differ, so `continue` on equality and an `if` on inequality
   give the same pair): a row of an attached step is collected for a rerun exactly when the value differs - the
   definition env_row_changed of the model.  A variant that collects other rows is translated and breaks this. *)
Theorem C04_env_rescan_marks_iff_the_value_differs :
  gen_env_rescan_marks = (true, false) /\
  (forall cur s r, attached (KStep, ev_step r) s = true ->
     env_row_changed cur s r =
     if on_eqb (cur (ev_name r)) (ev_value r) then snd gen_env_rescan_marks else fst gen_env_rescan_marks).
Proof. exact env_rescan_rule_tie. Qed.

(* Workflow.mark_step_pending and Executor._reset_step_to_pending, translated statement by statement (the
   translator interprets the functions, so an if/else instead of an early return or a guarded debug log give the
   same tables, while a changed effect gives another table and breaks this theorem by name):
   effects 1 = set_state(PENDING), 2 = every BUILT output goes OUTDATED; RUNNING / CHECKING: nothing; PENDING: 1;
   SUCCEEDED / FAILED: 1 then 2 -- which is what the model function does for a step in that state;
   _reset_step_to_pending is one transaction reset_for_rerun; delete_hash; set_state(PENDING) = OpResetToPending. *)
Theorem C04_pending_transactions_match_the_source :
  (gen_mark_step_pending_table =
   map (fun x => (sstate_code x, msp_effects x)) [SPending; SRunning; SSucceeded; SFailed; SChecking] /\
   (forall fuel l s old, sstate_of l s = Some old ->
      mark_step_pending_f (S fuel) l s =
      match msp_effects old with
      | [] => Ok s
      | [_] => set_sstate l SPending false s
      | _ => do s1 <- set_sstate l SPending false s;
             foldM (fun s f => match fstate_of f s with
                               | Some FBuilt => mark_file_outdated_f fuel f s
                               | _ => Ok s end) (file_sinks_of_step l s1) s1
      end)) /\
  (gen_reset_to_pending_effects = [1; 2; 3] /\
   (forall l s, step_op (OpResetToPending l) s =
                (do s1 <- reset_for_rerun l s; set_sstate l SPending false (delete_hash l s1)))).
Proof. exact (conj mark_step_pending_tie reset_to_pending_tie). Qed.

(* Executor.try_skip_job when the check is OVERTAKEN (an input record was replaced while the step was
   CHECKING; translated structurally by gen_noop.py: gen_skip_overtaken_outcome): the step goes back to
   PENDING and keeps its stored hash (1), hence the next dispatch is a check again, not a command; the
   other translated outcome, _reset_step_to_pending (2), drops the hash and the next dispatch is RUNNING:
   a command for a step none of whose inputs changed (seeded/C04-r4; the E3 family `overtaken` shows it
   on the real director).  A variant with outcome 2 (or 0) breaks this theorem by name. *)
Theorem C04_overtaken_check_keeps_the_hash :
  gen_skip_overtaken_outcome = 1 /\
  (forall l s s', GraphExt.skip_overtaken l s = Ok s' -> has_hash l s' = has_hash l s) /\
  (forall l s s', step_op (OpResetToPending l) s = Ok s' -> has_hash l s' = false) /\
  (forall l s, step_op (OpDispatch l) s = set_sstate l (if has_hash l s then SChecking else SRunning) false s).
Proof. exact skip_overtaken_tie. Qed.

(* ------------------------------------------------------------------------------------------ *)
(* The same over the transactions SINCE /repo 84081f2 (model/Noop.v: step_op2 / apply_op2 /       *)
(* run_xops2 = Graph.step_op + the deferred-column layer of model/GraphExt.v: the flag of an      *)
(* unchanged validation is decided in the transaction, re-attaching a node wakes deferred         *)
(* consumers).  These are the transactions the E2 correspondence runs against the real code.      *)
(* ------------------------------------------------------------------------------------------ *)

(* EVERY history of them that ends in a successful build ends in a state of the shape
   quiescent_success_b ... *)
Theorem C04_bridge_since_84081f2 :
  forall (cap : N) (hist : list xop),
    successful_history2 cap hist -> quiescent_success_b (run_xops2 hist (init_st cap)) = true.
Proof. exact bridge2. Qed.

(* ... in which the restart and the watch rebuild with nothing changed are the identity: the first
   sentence of the property for all histories of the present transactions. *)
Theorem C04_noop_after_successful_history_since_84081f2 :
  forall (cap : N) (hist : list xop),
    successful_history2 cap hist ->
    let q := run_xops2 hist (init_st cap) in
    (forall rehash, unchanged_b q rehash = true ->
       run_ops2 (startup_ops q [] rehash) q = q /\ (forall l, dispatch_guard l q = false) /\
       step_xop2 XRevert q = Ok q /\ step_op2 OpDeleteDetached q = Ok q) /\
    (forall rehash, unchanged_watch_b q rehash = true ->
       watch_ops q rehash = [] /\ run_ops2 (watch_ops q rehash) q = q /\
       (forall l, dispatch_guard l q = false) /\
       step_xop2 XRevert q = Ok q /\ step_op2 OpDeleteDetached q = Ok q).
Proof. exact noop_after_successful_history2. Qed.

(* The cone over the evolving graph (C04_cone_invariant_partial2) for a rebuild stepped with the present
   transactions: same clauses per transaction (cone_op2), same conclusions. *)
Theorem C04_cone_invariant_partial2_since_84081f2 :
  forall (q : st) (E G : list str) (ops : list op),
    quiescent_success_b q = true -> inv_core_b q = true ->
    cone_ops2x q E G [] q ops ->
    let s := run_ops2 ops q in
    let h := rebuild_hist2 [] q ops in
    (forall l x, sstate_of l s = Some x -> sstate_of l q = Some x \/ tcone E G h (KStep, l)) /\
    (forall k, attached k s = true -> attached k q = true \/ tcone E G h k) /\
    (forall l, In l (dispatched ops) -> tcone E G h (KStep, l)) /\
    (forall l, In l (executed2 ops q) -> tcone E G h (KStep, l)).
Proof. exact cone_invariant_partial2x. Qed.

(* what the E2 correspondence evaluates on every real rebuild trace (cone_ops2_first_bad2 = None) is the
   hypothesis of that theorem *)
Theorem C04_cone_checker_sound_since_84081f2 :
  forall (q : st) (E G : list str) (ops : list op),
    cone_ops2x_b q E G q ops = true -> cone_ops2x q E G [] q ops.
Proof. exact cone_ops2x_b_ok. Qed.

Example C04_example_rebuild_with_plan_rerun_since_84081f2 :
  cone_ops2x_b ExR.q [ExR.plan_py] [] ExR.q ExR.ops = true /\
  executed2 ExR.ops ExR.q = [ExR.plan; ExR.w] /\
  dump_eqb (dump_of (run_ops2 ExR.ops ExR.q)) (dump_of (run_ops ExR.ops ExR.q)) = true.
Proof. vm_compute. repeat split; reflexivity. Qed.

(* ------------------------------------------------------------------------------------------ *)
(* The second sentence about EXECUTED steps (not merely checked and skipped), on the engine      *)
(* model/Engine.v: stored digests (traces), the skip check of try_skip_job, pending propagation, *)
(* plan edits with recycling.  model/NoopExec.v has the definitions:                             *)
(*   ran proj y1 id        the build starting in y1 executes the command of step id              *)
(*   exec_cause proj y y1 z s   the step was not up to date before (PENDING in y), or consumes   *)
(*                         a source whose content differs (y1 vs y), or tracks a variable whose  *)
(*                         value differs, or consumes an output of ANOTHER EXECUTED step whose   *)
(*                         content after the rebuild (z) differs from the one before (y)         *)
(* ------------------------------------------------------------------------------------------ *)

(* For ALL histories of (plan, world) pairs from an empty .stepup (plans add, drop, redefine steps,
   sources / static declarations / variables change arbitrarily), then one more rebuild with plan
   P' in world w: every EXECUTED step was declared anew or redefined by the rerun plan (not fully
   recycled), or has a cause.  Steps of recycled (nested) sub-plans are [kept]. *)
Theorem C04_exec_cone_histories :
  forall (run : N -> list (option N) -> list (option N) -> N -> N)
         (hist : list (Engine.project * Engine.world)) (P' : Engine.project) (w : Engine.world)
         (s : Engine.step),
    (forall pw, In pw hist -> Engine.wf (fst pw) = true) -> Engine.wf P' = true -> In s P' ->
    let P := fst (Engine.run_dyn run hist) in
    let y := snd (Engine.run_dyn run hist) in
    NoopExec.ran run P' (Engine.resync P' (Engine.retarget P P' y) w) (Engine.sid s) ->
    Engine.kept P P' (Engine.sid s) = false \/
    NoopExec.exec_cause run P' y (Engine.resync P' (Engine.retarget P P' y) w)
                        (Engine.rebuild_dyn run P y P' w) s.
Proof. exact NoopExecProofs.exec_cone_histories. Qed.

(* The same from any state that satisfies the invariant Pre of the engine (C01: holds after every
   build of every history). *)
Theorem C04_exec_cone_replan :
  forall (run : N -> list (option N) -> list (option N) -> N -> N)
         (P P' : Engine.project) (y : Engine.sys) (w : Engine.world) (s : Engine.step),
    Engine.wf P' = true -> Engine.Pre run P y -> In s P' ->
    NoopExec.ran run P' (Engine.resync P' (Engine.retarget P P' y) w) (Engine.sid s) ->
    Engine.kept P P' (Engine.sid s) = false \/
    NoopExec.exec_cause run P' y (Engine.resync P' (Engine.retarget P P' y) w)
                        (Engine.rebuild_dyn run P y P' w) s.
Proof. exact NoopExecProofs.exec_cone_replan. Qed.

(* Fixed plan, restart flavour: any set of sources and variables changed at once. *)
Theorem C04_exec_cone_restart :
  forall (run : N -> list (option N) -> list (option N) -> N -> N)
         (proj : Engine.project) (y : Engine.sys) (w : Engine.world) (s : Engine.step),
    Engine.wf proj = true -> Engine.Pre run proj y -> In s proj ->
    NoopExec.ran run proj (Engine.resync proj y w) (Engine.sid s) ->
    NoopExec.exec_cause run proj y (Engine.resync proj y w) (Engine.build_world run proj w y) s.
Proof. exact NoopExecProofs.exec_cone_restart. Qed.

(* Fixed plan, watch flavour: edits arrive one by one, each with its pending propagation. *)
Theorem C04_exec_cone_watch :
  forall (run : N -> list (option N) -> list (option N) -> N -> N)
         (proj : Engine.project) (y : Engine.sys) (es : list Engine.edit) (s : Engine.step),
    Engine.wf proj = true -> Engine.Pre run proj y -> In s proj ->
    NoopExec.ran run proj (fold_left (Engine.apply_edit proj) es y) (Engine.sid s) ->
    NoopExec.exec_cause run proj y (fold_left (Engine.apply_edit proj) es y) (Engine.phase run proj y es) s.
Proof. exact NoopExecProofs.exec_cone_watch. Qed.

(* A rebuilt output with identical content stops the cone: a fully recycled step that was up to
   date, consumes no edited source, tracks no changed variable and all of whose built inputs have
   the same content after the rebuild as before it is NOT executed (it is checked and skipped). *)
Theorem C04_absorbed_cone_stops :
  forall (run : N -> list (option N) -> list (option N) -> N -> N)
         (P P' : Engine.project) (y : Engine.sys) (w : Engine.world) (s : Engine.step),
    Engine.wf P' = true -> Engine.Pre run P y -> In s P' ->
    Engine.kept P P' (Engine.sid s) = true -> Engine.stt y (Engine.sid s) = Engine.Succeeded ->
    (forall p, In p (Engine.inp s) -> Engine.is_output P' p = false -> fst w p = Engine.fs y p) ->
    (forall n, In n (Engine.envn s) -> snd w n = Engine.ev y n) ->
    (forall p, In p (Engine.inp s) -> Engine.is_output P' p = true ->
               Engine.fs (Engine.rebuild_dyn run P y P' w) p = Engine.fs y p) ->
    ~ NoopExec.ran run P' (Engine.resync P' (Engine.retarget P P' y) w) (Engine.sid s).
Proof. exact NoopExecProofs.absorbed_cone_stops. Qed.

(* x.txt(10) -> A(1) -> a(11) -> B(2) -> b(12) -> C(3, tracks variable 50) -> c(13).  With a command
   of A that writes a constant, an edit of x executes A only; B and C are checked and skipped
   (absorbed).  With a command that depends on its input all three are executed.  A changed
   variable executes C only.  A plan that redefines B (another input list) executes B, and C only
   because b changed. *)
Definition xa_A := Engine.mkStep 1 [10] [] [11].
Definition xa_B := Engine.mkStep 2 [11] [] [12].
Definition xa_C := Engine.mkStep 3 [12] [50] [13].
Definition xa_proj : Engine.project := [xa_A; xa_B; xa_C].
Definition xa_proj' : Engine.project := [xa_A; Engine.mkStep 2 [10; 11] [] [12]; xa_C].
Definition xa_const (id : N) (ins envs : list (option N)) (p : N) : N :=
  if id =? 1 then 7 else Engine.mix_run id ins envs p.
Definition xa_w (c : N) (v : option N) : Engine.world :=
  (fun p => if p =? 10 then Some c else None, fun n => if n =? 50 then v else None).
Definition xa_log run (P' : Engine.project) (w : Engine.world) : list (N * bool) :=
  let st := Engine.run_dyn run [(xa_proj, xa_w 1 None)] in
  Engine.build_log run P' P' (Engine.resync P' (Engine.retarget (fst st) P' (snd st)) w).
Example C04_exec_cone_example :
  Engine.wf xa_proj = true /\ Engine.wf xa_proj' = true /\
  xa_log xa_const xa_proj (xa_w 2 None) = [(1, true); (2, false); (3, false)] /\
  xa_log Engine.mix_run xa_proj (xa_w 2 None) = [(1, true); (2, true); (3, true)] /\
  xa_log Engine.mix_run xa_proj (xa_w 1 (Some 5)) = [(3, true)] /\
  xa_log Engine.mix_run xa_proj (xa_w 1 None) = [] /\
  xa_log Engine.mix_run xa_proj' (xa_w 1 None) = [(2, true); (3, true)] /\
  Engine.kept xa_proj xa_proj' 2 = false /\ Engine.kept xa_proj xa_proj' 3 = true.
Proof. vm_compute. repeat split; reflexivity. Qed.

(* Amended (dynamic) inputs, deferral and failing steps (the gated engine of model/Engine.v, as the
   code): from any state in which every SUCCEEDED step has a recorded trace that matches the present
   contents of its declared ++ remembered amended inputs, its variables and its outputs (K_a), every
   step whose command the rebuild EXECUTES (also one that then defers or fails) was not up to date
   before, or consumes -- as a declared or remembered amended input -- an edited source or an output
   with CHANGED content of another executed step, or tracks a changed variable, or one of its
   remembered amended inputs is not available when it gets its turn.
   _partial: from ANY state with K_a; C04_exec_cone_amend_full below discharges K_a for all histories. *)
Theorem C04_exec_cone_amend_partial :
  forall (run : N -> list (option N) -> list (option N) -> N -> N)
         (amend : N -> list (option N) -> list N)
         (fails : N -> list (option N) -> list (option N) -> bool)
         (proj : Engine.project) (y : Engine.asys) (w : Engine.world) (s : Engine.step),
    NoDup (map Engine.sid proj) -> NoDup (Engine.outs proj) -> In s proj ->
    (forall q, In q proj -> Engine.K_step (Engine.abase y) (Engine.remb y q)) ->
    NoopExec.a_ran run amend fails proj (Engine.resync_a proj y w) (Engine.sid s) ->
    NoopExec.exec_cause_a run amend fails proj y (Engine.resync_a proj y w)
                          (Engine.build_world_a run amend fails true proj w y) s.
Proof. exact NoopExecProofs.exec_cone_amend. Qed.

(* ... and for ALL histories of worlds (sources and variables changed arbitrarily between builds) from an
   empty .stepup, for every project that is well formed with its amended edges (wf_a), every amend
   behaviour and every failure behaviour: the hypothesis K_a is an invariant.  (A dispatch decision of
   the gated engine is nothing or the decision of the ungated engine, for which C01 proves InvA.) *)
Theorem C04_exec_cone_amend_full :
  forall (run : N -> list (option N) -> list (option N) -> N -> N)
         (amend : N -> list (option N) -> list N)
         (fails : N -> list (option N) -> list (option N) -> bool)
         (proj : Engine.project) (ws : list Engine.world) (w : Engine.world) (s : Engine.step),
    Engine.wf_a amend proj -> In s proj ->
    let y := fold_left (fun y x => Engine.build_world_a run amend fails true proj x y) ws Engine.empty_asys in
    NoopExec.a_ran run amend fails proj (Engine.resync_a proj y w) (Engine.sid s) ->
    NoopExec.exec_cause_a run amend fails proj y (Engine.resync_a proj y w)
                          (Engine.build_world_a run amend fails true proj w y) s.
Proof. exact NoopExecProofs.exec_cone_amend_full. Qed.

(* p28 of C01: step 2 amends the output 10 of step 1 when its declared input 2 has content 5.  After
   a build, editing the source 3 of step 1 executes 1 and then 2 (its remembered amended input
   changed); editing nothing executes nothing. *)
Example C04_exec_cone_amend_example :
  let p := [Engine.mkStep 1 [3] [] [10]; Engine.mkStep 2 [2] [] [20]] in
  let am := Engine.amend_tab [(2, 5, [10])] in
  let w0 : Engine.world := (Engine.src_of [(2, 5); (3, 7)], fun _ => None) in
  let w1 : Engine.world := (Engine.src_of [(2, 5); (3, 8)], fun _ => None) in
  let y := Engine.build_world_a Engine.mix_run am Engine.no_fail true p w0 Engine.empty_asys in
  Engine.adyn y 2 = [10] /\
  Engine.a_build_log Engine.mix_run am Engine.no_fail true p p (Engine.resync_a p y w1) = [(1, true); (2, true)] /\
  Engine.a_build_log Engine.mix_run am Engine.no_fail true p p (Engine.resync_a p y w0) = [].
Proof. vm_compute. repeat split; reflexivity. Qed.

(* ALL SCHEDULES of the rebuild: the dispatch decisions are taken in the order of an arbitrary list
   [sched] of steps of the plan (any order, any repetitions, any subset: a step that is not ready at
   its turn gets another one later); the statement of C04_exec_cone_replan holds for the steps that
   this schedule executes, with the final state of this schedule. *)
Theorem C04_exec_cone_all_schedules :
  forall (run : N -> list (option N) -> list (option N) -> N -> N)
         (P P' sched : Engine.project) (y : Engine.sys) (w : Engine.world) (s : Engine.step),
    Engine.wf P' = true -> Engine.Pre run P y -> In s P' -> (forall q, In q sched -> In q P') ->
    let y1 := Engine.resync P' (Engine.retarget P P' y) w in
    NoopExec.ran_s run P' sched y1 (Engine.sid s) ->
    Engine.kept P P' (Engine.sid s) = false \/
    NoopExec.exec_cause_s run P' sched y y1 (Engine.build_from run P' sched y1) s.
Proof. exact NoopExecProofs.exec_cone_schedules. Qed.

(* the absorbed chain under a schedule that is not topological and repeats steps: C and B are not
   ready at their first turn, A runs, B and C are checked and skipped at their second turn *)
Example C04_exec_cone_schedule_example :
  let st := Engine.run_dyn xa_const [(xa_proj, xa_w 1 None)] in
  let y1 := Engine.resync xa_proj (Engine.retarget (fst st) xa_proj (snd st)) (xa_w 2 None) in
  Engine.build_log xa_const xa_proj [xa_C; xa_B; xa_A; xa_B; xa_A; xa_C; xa_C] y1
  = [(1, true); (2, false); (3, false)].
Proof. vm_compute. reflexivity. Qed.

(* OPTIONAL steps in the engine: only REQUIRED steps are dispatched (mandatory, or an output consumed by a
   required step later in the plan).  The build is the build over the required steps; every executed step is
   mandatory or NEEDED - a required step consumes one of its outputs: the clause the property text lacks (D38) -
   and was declared anew / redefined by the rerun plan or has a cause as in C04_exec_cone_all_schedules. *)
Theorem C04_exec_cone_optional :
  forall (run : N -> list (option N) -> list (option N) -> N -> N)
         (mand : N -> bool) (P P' : Engine.project) (y : Engine.sys) (w : Engine.world) (s : Engine.step),
    Engine.wf P' = true -> Engine.Pre run P y -> In s P' ->
    let y1 := Engine.resync P' (Engine.retarget P P' y) w in
    NoopExec.build_opt run mand P' y1 =
    Engine.build_from run P' (filter (NoopExec.is_required mand P') P') y1 /\
    (NoopExec.ran_opt run mand P' y1 (Engine.sid s) ->
     (mand (Engine.sid s) = true \/
      exists c, In c P' /\ NoopExec.is_required mand P' c = true /\ NoopExec.consumes_output_of c s = true) /\
     (Engine.kept P P' (Engine.sid s) = false \/
      NoopExec.exec_cause_s run P' (filter (NoopExec.is_required mand P') P') y y1
                            (NoopExec.build_opt run mand P' y1) s)).
Proof. exact NoopExecProofs.exec_cone_optional. Qed.

(* the witness of D38 in the engine: A (optional, nothing needs it) is not built; a plan that adds a consumer X of
   a's output makes A required: A and X are executed, A being needed by X *)
Example C04_exec_cone_optional_example :
  let A := Engine.mkStep 1 [10] [] [11] in
  let X := Engine.mkStep 2 [11] [] [12] in
  let mand := fun id => id =? 2 in
  let w : Engine.world := (fun p => if p =? 10 then Some 1 else None, fun _ => None) in
  let st := Engine.run_dyn Engine.mix_run [([A], w)] in
  NoopExec.required_ids mand [A] = [] /\ NoopExec.required_ids mand [A; X] = [1; 2] /\
  Engine.build_log Engine.mix_run [A; X] (filter (NoopExec.is_required mand [A; X]) [A; X])
    (Engine.resync [A; X] (Engine.retarget [A] [A; X]
       (Engine.build_from Engine.mix_run [A] (filter (NoopExec.is_required mand [A]) [A]) (Engine.init [A] (fst w) (snd w)))) w)
  = [(1, true); (2, true)].
Proof. vm_compute. repeat split; reflexivity. Qed.
