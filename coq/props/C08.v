(* C08 Every path has one owner and conflicts are rejected in either order.
   Property theorems only; proofs live in proofs/ClaimsProofs.v.  The model (model/Claims.v) is the
   declaration layer of workflow.py: declare_static_files, register_static_tree, register_nglob,
   define_step, amend_step, one request per director transaction; `gm` is the abstract glob
   matcher (pattern -> path -> bool), arbitrary in every theorem.  `ow` and `gr` are the two
   structural facts the translator reads from the source (gen/GenClaims.v owner_appends_slash,
   glob_scans_products): ow = true when _find_owning_static_tree probes path + "/", gr = true
   when register_nglob tests the regex against every attached product.  The unfixed code is
   (ow, gr) = (true, false); the fixes of D14 and D3 give (false, true). *)
From Coq Require Import List NArith Bool String.
From SV Require Import lib.Bytes lib.Tmpl gen.GenClaims model.Claims proofs.ClaimsProofs.
From SV Require Import model.GlobRows proofs.ClaimsRegProofs proofs.GlobRowsProofs proofs.ClaimsInpProofs.
Local Notation "x ++ y" := (List.app x y) (right associativity, at level 60) : list_scope.
Import ListNotations.
Open Scope N_scope.

(* ---- 1. ownership invariants, for every state reachable by ANY request list ------------- *)

(* At most one claim (hence one role and one creator) per path. *)
Theorem C08_claim_unique :
  forall gm ow gr st p cl1 cl2,
    reachable gm ow gr st -> In (p, cl1) (claims st) -> In (p, cl2) (claims st) -> cl1 = cl2.
Proof. exact claim_unique. Qed.

Theorem C08_claim_keys_nodup :
  forall gm ow gr st, reachable gm ow gr st -> NoDup (map fst (claims st)).
Proof. intros gm ow gr st H. exact (inv_uniq _ _ _ (reachable_inv gm ow gr st H)). Qed.

(* A static tree exclusively owns every claimed path beneath it. *)
Theorem C08_tree_owns_everything_under :
  forall gm ow gr st p cl t tc,
    reachable gm ow gr st -> In (p, cl) (claims st) -> In (t, tc) (trees st) -> is_prefix t p = true ->
    c_role cl = RStatic /\ c_by cl = CTree t.
Proof. exact tree_owns_everything_under. Qed.

Theorem C08_no_product_under_tree :
  forall gm ow gr st p cl t tc,
    reachable gm ow gr st -> In (p, cl) (claims st) -> In (t, tc) (trees st) -> is_prefix t p = true ->
    c_role cl <> ROutput /\ c_role cl <> RVolatile.
Proof. exact no_product_under_tree. Qed.

(* Static trees never nest and each has one creator. *)
Theorem C08_trees_disjoint :
  forall gm ow gr st t tc t' tc',
    reachable gm ow gr st -> In (t, tc) (trees st) -> In (t', tc') (trees st) -> is_prefix t t' = true ->
    t = t' /\ tc = tc'.
Proof. exact trees_disjoint. Qed.

(* The glob clause, as far as it holds: a RECORDED match of a registered pattern is never a
   build product, whichever of the two was declared first. *)
Theorem C08_recorded_match_never_product :
  forall gm ow gr st g m cl,
    reachable gm ow gr st -> In g (globs st) -> In m (g_ms g) -> In (m, cl) (claims st) ->
    c_role cl = RStatic.
Proof. exact recorded_match_never_product. Qed.

(* The full glob clause ("a pattern never MATCHES a path that a step builds") holds as soon as
   register_nglob tests the regex against the attached products (gr = true, the fix of D3) ... *)
Theorem C08_glob_never_matches_product_when_scanned :
  forall gm ow st g p cl,
    reachable gm ow true st -> In g (globs st) -> In (p, cl) (claims st) -> gm (g_key g) p = true ->
    c_role cl = RStatic.
Proof.
  intros gm ow st g p cl H. exact (inv_gfull _ _ _ (reachable_inv gm ow true st H) eq_refl g p cl).
Qed.

(* ... and is false of the model of the unfixed code (gr = false): register_nglob only looks at
   the recorded matches (defect D3). *)
Definition C08_glob_clause_full (gm : str -> str -> bool) (ow gr : bool) : Prop :=
  forall st g p cl,
    reachable gm ow gr st -> In g (globs st) -> In (p, cl) (claims st) -> gm (g_key g) p = true ->
    c_role cl = RStatic.

Theorem C08_glob_never_matches_product_refuted :
  exists st g p cl, reachable w_gm true false st /\ In g (globs st) /\ In (p, cl) (claims st) /\
                    c_role cl = ROutput /\ w_gm (g_key g) p = true.
Proof. exact glob_never_matches_product_refuted. Qed.

(* ---- 2. repeating a declaration by the same creator in the same role is a no-op ------------ *)

(* For every request that declares paths (static files, a static tree, amended outputs and
   volatile outputs): once accepted, issuing it again is accepted and leaves the state as it is. *)
Theorem C08_same_creator_redeclare_noop :
  forall gm ow gr st r st',
    Inv gm gr st -> is_declaration r = true -> step gm ow gr st r = Ok st' ->
    step gm ow gr st' r = Ok st'.
Proof. exact same_creator_redeclare_noop. Qed.

(* ---- 3. either order: refuted pairs (model of the unfixed code, ow = true, gr = false) ------------------------------------------------------- *)

(* D3: glob pattern first, then a step output it matches: rejected; the reverse order: accepted. *)
Theorem C08_glob_vs_planned_output_refuted :
  let r1 := RqGlob w_B w_pat [] [] in
  let r2 := RqAmend w_A [] [w_atxt] [] in
  reachable w_gm true false w_boot /\
  accepted (step w_gm true false w_boot r1) = true /\ accepted (step w_gm true false w_boot r2) = true /\
  accepted (run w_gm true false w_boot [r1; r2]) = false /\ accepted (run w_gm true false w_boot [r2; r1]) = true.
Proof. exact glob_vs_planned_output_refuted. Qed.

(* D14: static tree d/ first, then an output (or another step's static file) with path d:
   rejected; the reverse order: accepted (the owner lookup tests path + "/", the prefix scan of
   register_static_tree tests the label itself). *)
Theorem C08_tree_vs_file_at_tree_path_refuted :
  let r1 := RqTree (CStep w_B) w_d in
  let r2 := RqAmend w_A [] [w_d] [] in
  reachable w_gm true false w_boot /\
  accepted (step w_gm true false w_boot r1) = true /\ accepted (step w_gm true false w_boot r2) = true /\
  accepted (run w_gm true false w_boot [r1; r2]) = false /\ accepted (run w_gm true false w_boot [r2; r1]) = true.
Proof. exact tree_vs_file_at_tree_path_refuted. Qed.

Theorem C08_tree_vs_static_at_tree_path_refuted :
  let r1 := RqTree (CStep w_B) w_d in
  let r2 := RqStatic (CStep w_A) [w_d] in
  accepted (step w_gm true false w_boot r1) = true /\ accepted (step w_gm true false w_boot r2) = true /\
  accepted (run w_gm true false w_boot [r1; r2]) = false /\ accepted (run w_gm true false w_boot [r2; r1]) = true.
Proof. exact tree_vs_static_at_tree_path_refuted. Qed.

Theorem C08_owner_lookup_invariant_refuted :
  exists st p cl t tc, reachable w_gm true false st /\ In (p, cl) (claims st) /\ In (t, tc) (trees st) /\
                       is_prefix t (with_slash p) = true /\ c_role cl = ROutput.
Proof. exact owner_lookup_invariant_refuted. Qed.

(* Nested static trees of ONE creator (any variant of the code): the parent first makes the child a
   no-op, the child first makes the parent an error.  Documented in DirectorHandler.declare_static
   and asserted by the repo's own test_static_tree_subdir; reported as an observation. *)
Theorem C08_same_creator_nested_trees_refuted :
  let r1 := RqTree (CStep w_B) w_d in
  let r2 := RqTree (CStep w_B) (w_d ++ s2l "/sub"%string) in
  accepted (step w_gm false false w_boot r1) = true /\ accepted (step w_gm false false w_boot r2) = true /\
  accepted (run w_gm false false w_boot [r1; r2]) = true /\
  run w_gm false false w_boot [r2; r1] = Err (MTreeParent (w_d ++ [47])).
Proof. exact same_creator_nested_trees_refuted. Qed.

(* ---- 3. either order: what is proved ------------------------------------------------------- *)

(* The full statement (kept for the record; proved only in the parts below and refuted for the
   unfixed code by the two witnesses above): two requests of different creators, each acceptable
   on its own after a state satisfying the invariant, are accepted in both orders or in neither,
   and when accepted the two final states are equal up to the order of the tables. *)
Definition C08_commute_full (gm : str -> str -> bool) (ow gr : bool) : Prop :=
  forall st r1 r2,
    Inv gm gr st -> req_creator r1 <> req_creator r2 ->
    accepted (step gm ow gr st r1) = true -> accepted (step gm ow gr st r2) = true ->
    accepted (run gm ow gr st [r1; r2]) = accepted (run gm ow gr st [r2; r1]) /\
    (forall s1 s2, run gm ow gr st [r1; r2] = Ok s1 -> run gm ow gr st [r2; r1] = Ok s2 ->
                   state_equiv s1 s2).

(* File versus file (static / output / volatile by steps or StepUp itself) on an unclaimed path:
   whichever declaration is made first, the other one is rejected by _check_declaration, with
   the same structured message. *)
Theorem C08_file_file_either_order_partial :
  forall st p r1 c1 r2 c2 d1 d2,
    lookup p (claims st) = None ->
    decl_of_node r1 c1 = Ok d1 -> decl_of_node r2 c2 = Ok d2 ->
    role_eqb r1 r2 && creator_eqb c1 c2 = false ->
    exists m,
      check_decl (set_claim st p (mkClaim r1 c1)) (WNode c2) p r2 = Err m /\
      check_decl (set_claim st p (mkClaim r2 c2)) (WNode c1) p r1 = Err m.
Proof. exact file_file_either_order. Qed.

(* The two code paths of the tree rule (owner lookup versus prefix scan) are the same test when
   the probe is the path itself, and differ for the probe path + "/" on exactly one spelling:
   the file named like the tree (D14). *)
Theorem C08_owner_lookup_vs_scan :
  forall d p,
    is_prefix d (probe false p) = is_prefix d p /\
    (is_prefix d (probe true p) = true -> is_prefix d p = false -> d = p ++ [SLASH]).
Proof. exact owner_lookup_vs_scan. Qed.

(* Tree versus build product, decision level (probe = path): tree first, the owner lookup of
   _declare_file finds the tree for p exactly when, product first, the scan of
   register_static_tree finds p as an offending label. *)
Theorem C08_tree_product_either_order_partial :
  forall (d p : str) (c : creator) (cl : claim) trees0,
    c_role cl <> RStatic ->
    let st_tree := mkState [] [] ((d, c) :: trees0) [] [] [] in
    (forall t, In t (map fst trees0) -> is_prefix t p = false) ->
    (is_prefix d p = true -> find_owner false st_tree p = Ok (Some (d, c))) /\
    (is_prefix d p = false -> find_owner false st_tree p = Ok None) /\
    (is_prefix d p = true ->
       min_entry (filter (offending c) (filter (fun pc => is_prefix d (fst pc)) [(p, cl)])) = Some (p, cl)) /\
    (is_prefix d p = false ->
       min_entry (filter (offending c) (filter (fun pc => is_prefix d (fst pc)) [(p, cl)])) = None).
Proof. exact tree_product_either_order. Qed.

(* Request level, current tree (probe = path): a static tree versus an amended output or volatile
   output, ANY creators (the same step included), from ANY state satisfying the invariant in
   which each request is acceptable on its own and which holds no undeclared input under the new
   tree: the plan is rejected in both orders with the SAME structured message, or accepted in both
   orders with the SAME final state (`both`). *)
Theorem C08_tree_product_commute :
  forall gm gr st c path s r p,
    Inv gm gr st -> product_role r = true ->
    filter (is_prefix (with_slash path)) (loose st) = [] ->
    accepted (step gm false gr st (RqTree c path)) = true ->
    accepted (step gm false gr st (amend1 s r p)) = true ->
    both (run gm false gr st [RqTree c path; amend1 s r p])
         (run gm false gr st [amend1 s r p; RqTree c path]).
Proof. exact tree_product_commute. Qed.

(* The hypotheses are satisfiable, with both outcomes: output under the tree (rejected in both
   orders, tree/product message) and output elsewhere (accepted in both orders). *)
Example C08_tree_product_commute_example :
  let st := run_skip w_gm false false empty_state
              [RqDefine CRoot w_plan [] [] []; RqDefine (CStep w_plan) w_A [] [] [];
               RqDefine (CStep w_plan) w_B [] [] []] in
  accepted (step w_gm false false st (RqTree (CStep w_B) w_d)) = true /\
  accepted (step w_gm false false st (amend1 w_A ROutput (w_d ++ [47; 120]))) = true /\
  run w_gm false false st [RqTree (CStep w_B) w_d; amend1 w_A ROutput (w_d ++ [47; 120])]
    = Err (MTreeProduct (w_d ++ [47]) (w_d ++ [47; 120])) /\
  run w_gm false false st [amend1 w_A ROutput (w_d ++ [47; 120]); RqTree (CStep w_B) w_d]
    = Err (MTreeProduct (w_d ++ [47]) (w_d ++ [47; 120])) /\
  accepted (run w_gm false false st [RqTree (CStep w_B) w_d; amend1 w_A RVolatile w_d]) = true /\
  run w_gm false false st [RqTree (CStep w_B) w_d; amend1 w_A RVolatile w_d]
    = run w_gm false false st [amend1 w_A RVolatile w_d; RqTree (CStep w_B) w_d].
Proof. vm_compute. repeat split; reflexivity. Qed.

(* Static tree versus static file, ANY creators, same hypotheses: a file under the tree declared by
   another creator is rejected with the tree/file message in both orders; a file of the tree's own
   creator is handed over to the tree in both orders (same final state); an unrelated file is
   independent. *)
Theorem C08_tree_static_commute :
  forall gm gr st c path c2 p,
    Inv gm gr st ->
    filter (is_prefix (with_slash path)) (loose st) = [] ->
    accepted (step gm false gr st (RqTree c path)) = true ->
    accepted (step gm false gr st (RqStatic c2 [p])) = true ->
    both (run gm false gr st [RqTree c path; RqStatic c2 [p]])
         (run gm false gr st [RqStatic c2 [p]; RqTree c path]).
Proof. exact tree_static_commute. Qed.

(* Two amended products (output / volatile) of any two steps, any two paths: the same path gives
   the same collision message in both orders (or a no-op when it is the same declaration), two
   different paths are independent (final states equal up to table order). *)
Theorem C08_product_product_commute :
  forall gm gr st s1 r1 p1 s2 r2 p2,
    Inv gm gr st -> product_role r1 = true -> product_role r2 = true ->
    accepted (step gm false gr st (amend1 s1 r1 p1)) = true ->
    accepted (step gm false gr st (amend1 s2 r2 p2)) = true ->
    both_equiv (run gm false gr st [amend1 s1 r1 p1; amend1 s2 r2 p2])
               (run gm false gr st [amend1 s2 r2 p2; amend1 s1 r1 p1]).
Proof. exact product_product_commute. Qed.

(* Any two single-path declarations among {static file, amended output, amended volatile output},
   ANY creators, ANY two paths (the same path included): rejected in both orders with the same
   structured message, or accepted in both orders with equal states.  `one_sem` is the common
   shape of declare_static_files(c,[p]) and amend_step(s, out/vol=[p]) (D_static_spec,
   D_amend_spec). *)
Theorem C08_one_one_commute :
  forall gm gr st A B,
    Inv gm gr st -> wf1 A -> wf1 B ->
    accepted (one_sem gm A st) = true -> accepted (one_sem gm B st) = true ->
    both_equiv (bind (one_sem gm A st) (one_sem gm B)) (bind (one_sem gm B st) (one_sem gm A)).
Proof. exact one_one_commute. Qed.

Theorem C08_static_static_commute :
  forall gm gr st c1 p1 c2 p2,
    Inv gm gr st ->
    accepted (step gm false gr st (RqStatic c1 [p1])) = true ->
    accepted (step gm false gr st (RqStatic c2 [p2])) = true ->
    both_equiv (run gm false gr st [RqStatic c1 [p1]; RqStatic c2 [p2]])
               (run gm false gr st [RqStatic c2 [p2]; RqStatic c1 [p1]]).
Proof. exact static_static_commute. Qed.

Theorem C08_static_product_commute :
  forall gm gr st c1 p1 s r p2,
    Inv gm gr st -> product_role r = true ->
    accepted (step gm false gr st (RqStatic c1 [p1])) = true ->
    accepted (step gm false gr st (amend1 s r p2)) = true ->
    both_equiv (run gm false gr st [RqStatic c1 [p1]; amend1 s r p2])
               (run gm false gr st [amend1 s r p2; RqStatic c1 [p1]]).
Proof. exact static_product_commute. Qed.

Example C08_static_product_example :
  let st := run_skip w_gm false false empty_state
              [RqDefine CRoot w_plan [] [] []; RqDefine (CStep w_plan) w_A [] [] [];
               RqDefine (CStep w_plan) w_B [] [] []] in
  accepted (step w_gm false false st (RqStatic (CStep w_A) [w_atxt])) = true /\
  accepted (step w_gm false false st (amend1 w_B ROutput w_atxt)) = true /\
  run w_gm false false st [RqStatic (CStep w_A) [w_atxt]; amend1 w_B ROutput w_atxt]
    = run w_gm false false st [amend1 w_B ROutput w_atxt; RqStatic (CStep w_A) [w_atxt]] /\
  accepted (run w_gm false false st [RqStatic (CStep w_A) [w_atxt]; amend1 w_B ROutput w_atxt]) = false.
Proof. vm_compute. repeat split; reflexivity. Qed.

(* define_step(creator, label, out/vol = [p]) (`define1`) versus the other single declarations:
   a static tree (same hypotheses as C08_tree_product_commute), an amended product, a static
   file, and another definition (same label: duplicate-step message with sorted creators; same
   path: collision message; both root: boot message; otherwise independent). *)
Theorem C08_tree_define_commute :
  forall gm gr st c path c2 lbl r p,
    Inv gm gr st -> product_role r = true ->
    filter (is_prefix (with_slash path)) (loose st) = [] ->
    accepted (step gm false gr st (RqTree c path)) = true ->
    accepted (step gm false gr st (define1 c2 lbl r p)) = true ->
    both (run gm false gr st [RqTree c path; define1 c2 lbl r p])
         (run gm false gr st [define1 c2 lbl r p; RqTree c path]).
Proof. exact tree_define_commute. Qed.

Theorem C08_define_product_commute :
  forall gm gr st c2 lbl r p s r' p',
    Inv gm gr st -> product_role r = true -> product_role r' = true ->
    accepted (step gm false gr st (define1 c2 lbl r p)) = true ->
    accepted (step gm false gr st (amend1 s r' p')) = true ->
    both_equiv (run gm false gr st [define1 c2 lbl r p; amend1 s r' p'])
               (run gm false gr st [amend1 s r' p'; define1 c2 lbl r p]).
Proof. exact define_product_commute. Qed.

Theorem C08_define_static_commute :
  forall gm gr st c2 lbl r p c1 p1,
    Inv gm gr st -> product_role r = true ->
    accepted (step gm false gr st (define1 c2 lbl r p)) = true ->
    accepted (step gm false gr st (RqStatic c1 [p1])) = true ->
    both_equiv (run gm false gr st [define1 c2 lbl r p; RqStatic c1 [p1]])
               (run gm false gr st [RqStatic c1 [p1]; define1 c2 lbl r p]).
Proof. exact define_static_commute. Qed.

Theorem C08_define_define_commute :
  forall gm gr st cA lA rA pA cB lB rB pB,
    Inv gm gr st -> steps_closed (steps st) -> product_role rA = true -> product_role rB = true ->
    accepted (step gm false gr st (define1 cA lA rA pA)) = true ->
    accepted (step gm false gr st (define1 cB lB rB pB)) = true ->
    both_equiv (run gm false gr st [define1 cA lA rA pA; define1 cB lB rB pB])
               (run gm false gr st [define1 cB lB rB pB; define1 cA lA rA pA]).
Proof. exact define_define_commute. Qed.

(* The extra hypothesis of C08_define_define_commute (every step's creator is StepUp itself or an
   existing step; needed since define_step walks the creator chain) holds in every reachable
   state. *)
Theorem C08_reachable_steps_closed :
  forall gm ow gr st, reachable gm ow gr st -> steps_closed (steps st).
Proof. exact reachable_steps_closed. Qed.

Example C08_define_example :
  let st := run_skip w_gm false false empty_state
              [RqDefine CRoot w_plan [] [] []; RqDefine (CStep w_plan) w_A [] [] [];
               RqDefine (CStep w_plan) w_B [] [] []] in
  let x := s2l "x" in let y := s2l "y" in
  (* same label by two creators: duplicate-step message in both orders *)
  run w_gm false false st [define1 (CStep w_A) x ROutput w_atxt; define1 (CStep w_B) x ROutput w_d]
    = run w_gm false false st [define1 (CStep w_B) x ROutput w_d; define1 (CStep w_A) x ROutput w_atxt] /\
  accepted (run w_gm false false st [define1 (CStep w_A) x ROutput w_atxt; define1 (CStep w_B) x ROutput w_d]) = false /\
  (* same output path: collision message in both orders *)
  run w_gm false false st [define1 (CStep w_A) x ROutput w_atxt; define1 (CStep w_B) y RVolatile w_atxt]
    = run w_gm false false st [define1 (CStep w_B) y RVolatile w_atxt; define1 (CStep w_A) x ROutput w_atxt] /\
  accepted (run w_gm false false st [define1 (CStep w_A) x ROutput w_atxt; define1 (CStep w_B) y RVolatile w_atxt]) = false /\
  (* output under a tree: tree/product message in both orders *)
  run w_gm false false st [RqTree (CStep w_B) w_d; define1 (CStep w_A) x ROutput (w_d ++ [47; 120])]
    = Err (MTreeProduct (w_d ++ [47]) (w_d ++ [47; 120])) /\
  run w_gm false false st [define1 (CStep w_A) x ROutput (w_d ++ [47; 120]); RqTree (CStep w_B) w_d]
    = Err (MTreeProduct (w_d ++ [47]) (w_d ++ [47; 120])).
Proof. vm_compute. repeat split; reflexivity. Qed.

(* Glob pattern versus amended product for the variant of register_nglob that scans the
   products (gr = true, findings.d/C08-D3.patch): rejected in both orders with the same message
   exactly when the regex matches the product, else accepted in both orders with the same state.
   For the current tree (gr = false) this pair is refuted above (known finding D3). *)
Theorem C08_glob_product_commute_when_scanned :
  forall gm st sg pat subs ms s r p,
    Inv gm true st -> product_role r = true ->
    accepted (step gm false true st (RqGlob sg pat subs ms)) = true ->
    accepted (step gm false true st (amend1 s r p)) = true ->
    both (run gm false true st [RqGlob sg pat subs ms; amend1 s r p])
         (run gm false true st [amend1 s r p; RqGlob sg pat subs ms]).
Proof. exact glob_product_commute. Qed.

Example C08_commute_examples :
  let st := run_skip w_gm false true empty_state
              [RqDefine CRoot w_plan [] [] []; RqDefine (CStep w_plan) w_A [] [] [];
               RqDefine (CStep w_plan) w_B [] [] []] in
  (* tree by B, static file under it by A: tree/file message in both orders *)
  run w_gm false true st [RqTree (CStep w_B) w_d; RqStatic (CStep w_A) [w_d ++ [47; 120]]]
    = Err (MTreeFile (w_d ++ [47]) (w_d ++ [47; 120])) /\
  run w_gm false true st [RqStatic (CStep w_A) [w_d ++ [47; 120]]; RqTree (CStep w_B) w_d]
    = Err (MTreeFile (w_d ++ [47]) (w_d ++ [47; 120])) /\
  (* tree and file by the same creator: handed over, same state *)
  run w_gm false true st [RqTree (CStep w_B) w_d; RqStatic (CStep w_B) [w_d ++ [47; 120]]]
    = run w_gm false true st [RqStatic (CStep w_B) [w_d ++ [47; 120]]; RqTree (CStep w_B) w_d] /\
  accepted (run w_gm false true st [RqTree (CStep w_B) w_d; RqStatic (CStep w_B) [w_d ++ [47; 120]]]) = true /\
  (* pattern *.txt and output a.txt with the scanning register_nglob: same message both ways *)
  run w_gm false true st [RqGlob w_B w_pat [] []; amend1 w_A ROutput w_atxt]
    = Err (MGlobProduct w_pat w_B w_atxt w_A) /\
  run w_gm false true st [amend1 w_A ROutput w_atxt; RqGlob w_B w_pat [] []]
    = Err (MGlobProduct w_pat w_B w_atxt w_A).
Proof. vm_compute. repeat split; reflexivity. Qed.

(* Glob versus build product, decision level, once register_nglob scans the products: both
   sites decide by `gm pat p` and raise the same structured message. *)
Theorem C08_glob_product_either_order_partial :
  forall gm (s pat lbl p : str) (subs : subs_t) (ms : list str) (cl : claim),
    c_role cl <> RStatic -> c_by cl = CStep lbl ->
    glob_check gm [mkGlob s pat subs ms] lbl [p] =
      (if gm (gkey pat subs) p then Err (MGlobProduct pat s p lbl) else Ok tt) /\
    (match min_entry (filter (fun pc : str * claim =>
                                negb (role_eqb (c_role (snd pc)) RStatic) && gm (gkey pat subs) (fst pc)) [(p, cl)]) with
     | Some (q, cl') => Err (MGlobProduct pat s q (creator_label (c_by cl')))
     | None => Ok tt
     end) = (if gm (gkey pat subs) p then Err (MGlobProduct pat s p lbl) else Ok tt).
Proof. exact glob_product_either_order. Qed.

(* ---- 4. the messages do not depend on the order -------------------------------------------- *)

(* _file_collision_message(path, a, b) = _file_collision_message(path, b, a) for ALL a, b. *)
Theorem C08_file_collision_sym :
  forall p a b, file_collision p a b = file_collision p b a.
Proof. exact file_collision_sym. Qed.

(* _claim_collision_message: declaration 2 meeting claim 1 and declaration 1 meeting claim 2
   give the same structured message ... *)
Theorem C08_collision_message_symmetric :
  forall p r1 c1 r2 c2 d1 d2,
    decl_of_node r1 c1 = Ok d1 -> decl_of_node r2 c2 = Ok d2 ->
    claim_collision p (mkClaim r1 c1) d2 = claim_collision p (mkClaim r2 c2) d1.
Proof. exact collision_message_symmetric. Qed.

(* ... and hence the same text (templates, verbs and hints regenerated from workflow.py). *)
Theorem C08_collision_text_symmetric :
  forall p r1 c1 r2 c2 d1 d2,
    decl_of_node r1 c1 = Ok d1 -> decl_of_node r2 c2 = Ok d2 ->
    render (claim_collision p (mkClaim r1 c1) d2) = render (claim_collision p (mkClaim r2 c2) d1).
Proof. exact collision_text_symmetric. Qed.

(* _volatile_input_message (fix 612b78c): a path that step a declares volatile and step b uses as
   an input (no earlier consumer, no owning tree).  Volatile first, _resolve_supply_file raises;
   input first, _declare_file raises, naming the first consumer in label order; both raise the
   SAME structured message (path, producer, consumer) and hence the same text. *)
Theorem C08_volatile_input_either_order :
  forall ow st a b p st_a st_b,
    filter (fun e => str_eqb (fst e) p) (sinks st) = [] ->
    mem_str p (loose st) = false ->
    find_owner ow st p = Ok None ->
    declare_file ow (CStep a) RVolatile st p = Ok st_a ->
    supply ow b st p = Ok st_b ->
    supply ow b st_a p = Err (MVolInput p (phrase_step a) (phrase_step b)) /\
    declare_file ow (CStep a) RVolatile st_b p = Err (MVolInput p (phrase_step a) (phrase_step b)).
Proof. exact volatile_input_either_order. Qed.

Example C08_volatile_input_example :
  let st := run_skip w_gm false false empty_state
              [RqDefine CRoot w_plan [] [] []; RqDefine (CStep w_plan) w_A [] [] [];
               RqDefine (CStep w_plan) w_B [] [] []] in
  run w_gm false false st [RqAmend w_A [] [] [w_atxt]; RqAmend w_B [w_atxt] [] []]
    = Err (MVolInput w_atxt (phrase_step w_A) (phrase_step w_B)) /\
  run w_gm false false st [RqAmend w_B [w_atxt] [] []; RqAmend w_A [] [] [w_atxt]]
    = Err (MVolInput w_atxt (phrase_step w_A) (phrase_step w_B)) /\
  render (MVolInput w_atxt (phrase_step w_A) (phrase_step w_B))
    = s2l "File (a.txt) cannot be both declared volatile by step (A) and used as an input by step (B). A volatile output cannot be an input: drop one of the two.".
Proof. vm_compute. repeat split; reflexivity. Qed.

Theorem C08_dup_messages_symmetric :
  forall t a b,
    (let (c1, c2) := sort2_str a b in MDupTree t c1 c2) = (let (c1, c2) := sort2_str b a in MDupTree t c1 c2) /\
    (let (c1, c2) := sort2_str a b in MDupStep t c1 c2) = (let (c1, c2) := sort2_str b a in MDupStep t c1 c2).
Proof. exact dup_messages_symmetric. Qed.

(* ---- tables generated from enums.py -------------------------------------------------------- *)

Theorem C08_role_values_distinct : forall a b, role_val a = role_val b -> a = b.
Proof. exact role_val_inj. Qed.

Theorem C08_role_tables_consistent :
  forallb (fun r => assoc_n (declared_state_val r) role_by_state 0 =? role_val r) all_roles = true /\
  forallb (fun sr => existsb (fun rs => (fst rs =? snd sr) && existsb (N.eqb (fst sr)) (snd rs))
                             states_by_role) role_by_state = true /\
  forallb (fun rs => forallb (fun s => assoc_n s role_by_state 0 =? fst rs) (snd rs)) states_by_role = true /\
  forallb (fun s => existsb (N.eqb s) declarable_states) (map declared_state_val all_roles) = true.
Proof. exact role_tables_consistent. Qed.

(* A concrete collision text, as the code prints it. *)
Example C08_message_example :
  render (file_collision (s2l "p.txt") (mkDecl ROutput (phrase_step (s2l "bbb")) true)
                                       (mkDecl RStatic (phrase_step (s2l "aaa")) true))
  = s2l "File (p.txt) cannot be both declared static by step (aaa) and built by step (bbb). Drop the static() call, or write the step's output elsewhere.".
Proof. vm_compute. reflexivity. Qed.

(* Non-vacuity: a reachable state with a tree, a file handed over to it, an output and a glob. *)
Example C08_example :
  let st := run_skip w_gm true false w_boot
              [RqStatic (CStep w_A) [w_d ++ [47; 120]]; RqTree (CStep w_A) w_d;
               RqAmend w_B [] [w_atxt] []; RqGlob w_B (w_d ++ [47; 42]) [] [w_d ++ [47; 120]]] in
  lookup (w_d ++ [47; 120]) (claims st) = Some (mkClaim RStatic (CTree (w_d ++ [47]))) /\
  lookup w_atxt (claims st) = Some (mkClaim ROutput (CStep w_B)) /\
  trees st = [(w_d ++ [47], CStep w_A)] /\ List.length (globs st) = 1%nat.
Proof. vm_compute. repeat split; reflexivity. Qed.

(* ---- 5. registrations of glob patterns are never lost --------------------------------------- *)
(* A pattern owns nothing, but every accepted registration must keep guarding the paths its regex
   matches (the "pattern first, product second" half of the glob clause). The nglob table is a
   multiset keyed by (step, pattern, subs): one step may register one pattern several times, with
   equal or with different substitution constraints. *)

(* Declaration layer, ANY request list from ANY state: the table afterwards is the table before
   followed by exactly one row per accepted registration, in arrival order; no request removes,
   merges, supersedes or rewrites a row. *)
Theorem C08_registrations_only_appended :
  forall gm ow gr rs st,
    globs (run_skip gm ow gr st rs) = globs st ++ accepted_rows gm ow gr st rs.
Proof. exact run_skip_globs_exact. Qed.

Theorem C08_registration_never_lost_by_declarations :
  forall gm ow gr rs st g, In g (globs st) -> In g (globs (run_skip gm ow gr st rs)).
Proof. exact registration_never_lost. Qed.

Theorem C08_accepted_registration_recorded :
  forall gm ow gr st s pat subs ms st' rs,
    step gm ow gr st (RqGlob s pat subs ms) = Ok st' ->
    In (mkGlob s pat subs (sort_uniq (filter (gm (gkey pat subs)) ms)))
       (globs (run_skip gm ow gr st' rs)).
Proof. exact accepted_registration_recorded. Qed.

(* per key (step, pattern, subs): rows after = rows before + accepted registrations of the key *)
Theorem C08_registration_count_exact :
  forall gm ow gr rs st s pat subs,
    reg_count s pat subs (globs (run_skip gm ow gr st rs)) =
    (reg_count s pat subs (globs st) + reg_count s pat subs (accepted_rows gm ow gr st rs))%nat.
Proof. exact reg_count_exact. Qed.

(* every row of the table rejects a later product that its stored regex matches *)
Theorem C08_registered_pattern_guards_products :
  forall gm st g lbl ps p,
    In g (globs st) -> In p ps -> gm (g_key g) p = true ->
    exists m, glob_check gm (globs st) lbl ps = Err m.
Proof. exact registered_pattern_guards_products. Qed.

(* Either order, glob versus glob (ANY two registrations: the same or different steps, the same or
   different pattern texts and constraints; any `ow`, `gr`): each acceptable on its own => accepted
   in both orders, final states equal up to the order of the two new rows; and the first order
   yields exactly the old table followed by the two rows (none hides or replaces the other). *)
Theorem C08_glob_glob_commute :
  forall gm ow gr st s1 p1 u1 m1 s2 p2 u2 m2,
    accepted (step gm ow gr st (RqGlob s1 p1 u1 m1)) = true ->
    accepted (step gm ow gr st (RqGlob s2 p2 u2 m2)) = true ->
    both_equiv (run gm ow gr st [RqGlob s1 p1 u1 m1; RqGlob s2 p2 u2 m2])
               (run gm ow gr st [RqGlob s2 p2 u2 m2; RqGlob s1 p1 u1 m1]) /\
    run gm ow gr st [RqGlob s1 p1 u1 m1; RqGlob s2 p2 u2 m2] =
      Ok (with_globs st (globs st ++ [row_of gm s1 p1 u1 m1; row_of gm s2 p2 u2 m2])).
Proof. exact glob_glob_commute. Qed.

(* Either order, glob versus static files (ANY list of paths in one request) and glob versus static
   tree (adoption of undeclared inputs included): any creators, any `ow gr`, from ANY state (no
   invariant needed); each acceptable on its own => accepted in both orders with the SAME state.
   A pattern owns nothing: the static side never reads the registrations, the registration only
   looks at build products, which a static declaration neither adds nor removes. *)
Theorem C08_glob_static_tree_commute :
  forall gm ow gr st x s pat subs ms,
    is_static_or_tree x = true ->
    accepted (step gm ow gr st (RqGlob s pat subs ms)) = true ->
    accepted (step gm ow gr st x) = true ->
    both (run gm ow gr st [RqGlob s pat subs ms; x]) (run gm ow gr st [x; RqGlob s pat subs ms]) /\
    accepted (run gm ow gr st [x; RqGlob s pat subs ms]) = true.
Proof. exact glob_static_tree_commute. Qed.

(* The code fact behind group 5, read from the source on every run by statement-level translation
   of every SQL statement that writes nglob: register_nglob deletes no existing row. *)
Theorem C08_register_supersedes_nothing : register_pre_delete = [].
Proof. exact register_supersedes_nothing. Qed.

(* Whole life cycle of the rows (model/GlobRows.v; the writers of the table are enumerated from
   the source by the translator): a registration survives every operation sequence that contains
   no removal path of its step (Step.reset_for_rerun, deletion of the detached step node) ... *)
Theorem C08_registration_survives_without_removal :
  forall os t r,
    In r (rows t) -> forallb (fun o => negb (removes (r_step r) o)) os = true ->
    exists r', In r' (rows (run_ops t os)) /\ reg_of r' = reg_of r.
Proof. exact registration_survives. Qed.

(* ... so a registration that is gone has met one of the documented removal paths. *)
Theorem C08_registration_lost_only_by_removal :
  forall os t r,
    In r (rows t) ->
    (forall r', In r' (rows (run_ops t os)) -> reg_of r' <> reg_of r) ->
    exists o, In o os /\ removes (r_step r) o = true.
Proof. exact registration_lost_only_by_removal. Qed.

(* the documented removal path does remove (Step.reset_for_rerun, translated: reset_deletes_rows) *)
Theorem C08_reset_removes_rows :
  forall t s r, In r (rows (apply_op t (OReset s))) -> r_step r <> s.
Proof. exact reset_removes_rows. Qed.

Theorem C08_registration_key_count_exact :
  forall os t s pat subs,
    forallb (fun o => negb (removes s o)) os = true ->
    key_count s pat subs (run_ops t os) =
    (key_count s pat subs t + List.length (filter (adds_key s pat subs) os))%nat.
Proof. exact key_count_exact. Qed.

Theorem C08_registration_ids_fresh :
  forall os t, ids_fresh t -> ids_fresh (run_ops t os).
Proof. exact ids_fresh_run. Qed.

Theorem C08_visible_registrations :
  forall t r, In r (visible t) <-> In r (rows t) /\ mem_str (r_step r) (det t) = false.
Proof. exact visible_spec. Qed.

(* Non-vacuity: two registrations of one pattern by one step with different constraints, then the
   first once more: three rows; a reset of another step, a detach/attach of the step itself and
   a rewrite of the matches of row 2 lose nothing; the reset of the step removes its rows. *)
Example C08_registrations_example :
  let pat := s2l "${*name}.txt" in
  let sa := [(s2l "name", s2l "a*")] in
  let sb := [(s2l "name", s2l "b*")] in
  let t := run_ops empty_table
             [OAdd w_B pat sa []; OAdd w_B pat sb []; OAdd w_B pat sa []; OAdd w_A pat sa [];
              OReset w_A; ODetach w_B; OPersist 2 [s2l "b1.txt"]; OAttach w_B] in
  key_count w_B pat sa t = 2%nat /\ key_count w_B pat sb t = 1%nat /\ key_count w_A pat sa t = 0%nat /\
  List.length (visible t) = 3%nat /\
  List.length (rows (apply_op t (OReset w_B))) = 0%nat.
Proof. vm_compute. repeat split; reflexivity. Qed.

(* ---- 6. either order with INPUTS (_resolve_supply_file) ------------------------------------- *)
(* Full statement: a step definition with an input versus a static file or a static tree, from any
   state satisfying the invariant. By design no such pair is order dependent: an input that is
   declared static later is adopted by the declaration (the loose node becomes the static claim),
   an input under a later tree is adopted by the tree. *)
Definition C08_define_input_commute_full (gm : str -> str -> bool) (ow gr : bool) : Prop :=
  forall st c lbl p x,
    Inv gm gr st -> is_static_or_tree x = true ->
    accepted (step gm ow gr st x) = true ->
    accepted (step gm ow gr st (define_inp1 c lbl p)) = true ->
    both_equiv (run gm ow gr st [define_inp1 c lbl p; x]) (run gm ow gr st [x; define_inp1 c lbl p]).

(* Proved part: versus ONE static file, any creators, any two paths (the same path included: the
   adoption case), any `ow gr`, from ANY state, under the boolean side condition
   `no_owner ow st p && no_owner ow st q` (no static tree owns either path): accepted in both orders
   with the SAME final state. Missing for the full statement: paths under a tree (the input becomes
   a claim of the tree), the tree request itself (adoption by register_static_tree), several inputs. *)
Theorem C08_define_input_static_commute_partial :
  forall gm ow gr st c lbl p c' q,
    no_owner ow st p = true -> no_owner ow st q = true ->
    accepted (step gm ow gr st (static1 c' q)) = true ->
    accepted (step gm ow gr st (define_inp1 c lbl p)) = true ->
    both (run gm ow gr st [define_inp1 c lbl p; static1 c' q])
         (run gm ow gr st [static1 c' q; define_inp1 c lbl p]) /\
    accepted (run gm ow gr st [define_inp1 c lbl p; static1 c' q]) = true.
Proof. exact define_input_static_commute. Qed.

(* the side condition is satisfiable, in the adoption case: step s1 (by B) reads a.txt, step A
   declares a.txt static; both orders end in the same state, with the claim and the input edge *)
Example C08_define_input_static_example :
  let st := w_boot in
  let d := define_inp1 (CStep w_B) (s2l "s1") w_atxt in
  let s := static1 (CStep w_A) w_atxt in
  no_owner false st w_atxt = true /\
  accepted (step w_gm false false st d) = true /\ accepted (step w_gm false false st s) = true /\
  run w_gm false false st [d; s] = run w_gm false false st [s; d] /\
  match run w_gm false false st [d; s] with
  | Ok st' => lookup w_atxt (claims st') = Some (mkClaim RStatic (CStep w_A)) /\ mem_str w_atxt (loose st') = false
              /\ sinks st' = [(w_atxt, s2l "s1")] ++ sinks st
  | Err _ => False
  end.
Proof. vm_compute. repeat split; reflexivity. Qed.
