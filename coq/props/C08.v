(* C08 Every path has one owner and conflicts are rejected in either order.
   Property theorems only; proofs live in proofs/ClaimsProofs.v.  The model (model/Claims.v) is the
   declaration layer of workflow.py: declare_static_files, register_static_tree, register_nglob,
   define_step, amend_step, one request per director transaction; `gm` is the abstract glob
   matcher (pattern -> path -> bool), arbitrary in every theorem. *)
From Coq Require Import List NArith Bool.
From SV Require Import lib.Bytes lib.Tmpl gen.GenClaims model.Claims proofs.ClaimsProofs.
Import ListNotations.
Open Scope N_scope.

(* ---- 1. ownership invariants, for every state reachable by ANY request list ------------- *)

(* At most one claim (hence one role and one creator) per path. *)
Theorem C08_claim_unique :
  forall gm st p cl1 cl2,
    reachable gm st -> In (p, cl1) (claims st) -> In (p, cl2) (claims st) -> cl1 = cl2.
Proof. exact claim_unique. Qed.

Theorem C08_claim_keys_nodup :
  forall gm st, reachable gm st -> NoDup (map fst (claims st)).
Proof. intros gm st H. exact (inv_uniq _ _ (reachable_inv gm st H)). Qed.

(* A static tree exclusively owns every claimed path beneath it. *)
Theorem C08_tree_owns_everything_under :
  forall gm st p cl t tc,
    reachable gm st -> In (p, cl) (claims st) -> In (t, tc) (trees st) -> is_prefix t p = true ->
    c_role cl = RStatic /\ c_by cl = CTree t.
Proof. exact tree_owns_everything_under. Qed.

Theorem C08_no_product_under_tree :
  forall gm st p cl t tc,
    reachable gm st -> In (p, cl) (claims st) -> In (t, tc) (trees st) -> is_prefix t p = true ->
    c_role cl <> ROutput /\ c_role cl <> RVolatile.
Proof. exact no_product_under_tree. Qed.

(* Static trees never nest and each has one creator. *)
Theorem C08_trees_disjoint :
  forall gm st t tc t' tc',
    reachable gm st -> In (t, tc) (trees st) -> In (t', tc') (trees st) -> is_prefix t t' = true ->
    t = t' /\ tc = tc'.
Proof. exact trees_disjoint. Qed.

(* The glob clause, as far as it holds: a RECORDED match of a registered pattern is never a
   build product, whichever of the two was declared first. *)
Theorem C08_recorded_match_never_product :
  forall gm st g m cl,
    reachable gm st -> In g (globs st) -> In m (g_ms g) -> In (m, cl) (claims st) ->
    c_role cl = RStatic.
Proof. exact recorded_match_never_product. Qed.

(* The full glob clause ("a pattern never MATCHES a path that a step builds") is false of the
   faithful model: register_nglob only looks at the recorded matches (defect D3). *)
Definition C08_glob_clause_full : Prop :=
  forall gm st g p cl,
    reachable gm st -> In g (globs st) -> In (p, cl) (claims st) -> gm (g_pat g) p = true ->
    c_role cl = RStatic.

Theorem C08_glob_never_matches_product_refuted :
  exists st g p cl, reachable w_gm st /\ In g (globs st) /\ In (p, cl) (claims st) /\
                    c_role cl = ROutput /\ w_gm (g_pat g) p = true.
Proof. exact glob_never_matches_product_refuted. Qed.

(* ---- 3. either order: refuted pairs ------------------------------------------------------- *)

(* D3: glob pattern first, then a step output it matches: rejected; the reverse order: accepted. *)
Theorem C08_glob_vs_planned_output_refuted :
  let r1 := RqGlob w_B w_pat [] in
  let r2 := RqAmend w_A [] [w_atxt] [] in
  reachable w_gm w_boot /\
  accepted (step w_gm w_boot r1) = true /\ accepted (step w_gm w_boot r2) = true /\
  accepted (run w_gm w_boot [r1; r2]) = false /\ accepted (run w_gm w_boot [r2; r1]) = true.
Proof. exact glob_vs_planned_output_refuted. Qed.

(* D11: static tree d/ first, then an output (or another step's static file) with path d:
   rejected; the reverse order: accepted (the owner lookup tests path + "/", the prefix scan of
   register_static_tree tests the label itself). *)
Theorem C08_tree_vs_file_at_tree_path_refuted :
  let r1 := RqTree (CStep w_B) w_d in
  let r2 := RqAmend w_A [] [w_d] [] in
  reachable w_gm w_boot /\
  accepted (step w_gm w_boot r1) = true /\ accepted (step w_gm w_boot r2) = true /\
  accepted (run w_gm w_boot [r1; r2]) = false /\ accepted (run w_gm w_boot [r2; r1]) = true.
Proof. exact tree_vs_file_at_tree_path_refuted. Qed.

Theorem C08_tree_vs_static_at_tree_path_refuted :
  let r1 := RqTree (CStep w_B) w_d in
  let r2 := RqStatic (CStep w_A) [w_d] in
  accepted (step w_gm w_boot r1) = true /\ accepted (step w_gm w_boot r2) = true /\
  accepted (run w_gm w_boot [r1; r2]) = false /\ accepted (run w_gm w_boot [r2; r1]) = true.
Proof. exact tree_vs_static_at_tree_path_refuted. Qed.

Theorem C08_owner_lookup_invariant_refuted :
  exists st p cl t tc, reachable w_gm st /\ In (p, cl) (claims st) /\ In (t, tc) (trees st) /\
                       is_prefix t (with_slash p) = true /\ c_role cl = ROutput.
Proof. exact owner_lookup_invariant_refuted. Qed.

(* Non-vacuity: a reachable state with a tree, a file handed over to it, an output and a glob. *)
Example C08_example :
  let st := run_skip w_gm w_boot
              [RqStatic (CStep w_A) [w_d ++ [47; 120]]; RqTree (CStep w_A) w_d;
               RqAmend w_B [] [w_atxt] []; RqGlob w_B (w_d ++ [47; 42]) [w_d ++ [47; 120]]] in
  lookup (w_d ++ [47; 120]) (claims st) = Some (mkClaim RStatic (CTree (w_d ++ [47]))) /\
  lookup w_atxt (claims st) = Some (mkClaim ROutput (CStep w_B)) /\
  trees st = [(w_d ++ [47], CStep w_A)] /\ length (globs st) = 1%nat.
Proof. vm_compute. repeat split; reflexivity. Qed.
