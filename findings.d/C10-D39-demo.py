#!/venv/bin/python
"""D39 (property C10, regression of d760e3e / D36): a step parked by validate_dynamic_job is never woken
when its detached dynamic input comes back by a full recycle.

Drives the REAL stepup.core Workflow + Scheduler on an in-memory database with the transactions the
director / executor make, one job at a time (no randomness).  The repository is taken from
$VERIF_REPO (default /repo):

    /venv/bin/python findings.d/C10-D39-demo.py                      # exit 1 on 3ce20a7
    VERIF_REPO=/tmp/fix-d39 /venv/bin/python findings.d/C10-D39-demo.py    # exit 0 with the trigger
    ... C10-D39-demo.py --race     # the validation job is in flight while the input is re-attached:
                                   # still exit 1 with the trigger of /tmp/d39.patch

Workflow: ./plan.py declares the statics and defines
    q     (planner, input src/q.txt)          -> defines prod (input src/s1.txt, output a/x.txt)
    mky   (input src/y.txt, output a/y.txt)
    user  (inputs src/d.txt, a/y.txt; output a/user.txt), which amends the input a/x.txt when it runs.
Build 1 builds everything.  Then src/q.txt and src/y.txt are edited (the new a/y.txt has the same
content as before).  Build 2:
    mky: hash check fails, reruns, a/y.txt BUILT again               (user was made PENDING by a/y.txt)
    q:   hash check fails -> reset_for_rerun detaches prod and a/x.txt (a/x.txt stays BUILT)
    user: has a stored hash and a dynamic input that is detached -> ValidateDynamicJob;
          the executor's "digest unchanged" outcome (read from executor.py: set_state(PENDING, deferred))
    q:   runs, defines prod exactly as before -> full recycle: a/x.txt is attached again, NO state change
    pop_next_job() -> None: the phase ends.
Expected: no step that is PENDING, attached, needed, safe, ready and has all dynamic inputs available is
left.  Observed on 3ce20a7: `user` is PENDING with deferred = 1 for ever (nothing will call
mark_step_pending: no input is going to change).

The "digest unchanged" verdict is taken as given, as in the witness of D36: with the real digests it
needs a stored step hash that does not cover the detached input (StepHash.from_inp only hashes the
inputs that are BUILT/CONFIRMED when the step completes, executor._compute_full_step_hash).
"""
from __future__ import annotations

import asyncio
import contextlib
import hashlib
import os
import sys

REPO = os.environ.get("VERIF_REPO", "/repo")
sys.path.insert(0, REPO)
sys.path.insert(1, os.path.dirname(os.path.dirname(os.path.abspath(__file__))))
os.environ.setdefault("VERIF_REPO", REPO)

from path import Path  # noqa: E402
from stepup.core.enums import FileState, HashUpdateCause, Need, StepState  # noqa: E402
from stepup.core.hash import FileHash, StepHash  # noqa: E402
from stepup.core.job import ValidateDynamicJob  # noqa: E402
from stepup.core.scheduler import Scheduler  # noqa: E402
from stepup.core.sqlite3 import DBSession  # noqa: E402
from stepup.core.step import Step  # noqa: E402
from stepup.core.workflow import Workflow  # noqa: E402

RACE = "--race" in sys.argv
VERBOSE = "-q" not in sys.argv


def fhash(path: str, version: int = 0) -> FileHash:
    return FileHash(hashlib.sha256(f"{path}#{version}".encode()).digest(), 0o644, 1.0, 10 + version, len(path))


def shash(label: str, salt: int) -> StepHash:
    return StepHash(hashlib.sha256(f"i:{label}#{salt}".encode()).digest(), None,
                    hashlib.sha256(f"o:{label}#{salt}".encode()).digest(), None)


def validate_unchanged_outcome():
    """(state, deferred) that Executor.validate_dynamic_job sets when the digest is unchanged."""
    from translator import gen_sched
    name, deferred = gen_sched.executor_outcomes()["validate_unchanged"]
    return StepState[name], deferred


def log(*a):
    if VERBOSE:
        print(*a)


class Demo:
    def __init__(self, db, wf, sched):
        self.db, self.wf, self.sched = db, wf, sched
        self.version = {}            # content version of a file
        self.dirty = set()           # labels whose next hash check finds a changed digest
        self.salt = 0
        self.held = None             # a validation job whose outcome is delayed (--race)
        self.raced = False

    def confirm_static(self, creator, paths):
        unconfirmed = self.wf.declare_static_files(creator, paths)
        self.wf.update_file_hashes({p: fhash(p, self.version.get(p, 0)) for p in unconfirmed},
                                   cause=HashUpdateCause.CONFIRMED)

    def program(self, step: Step):
        """What the command of a step asks the director to do."""
        wf = self.wf
        if step.label == "./plan.py":
            self.confirm_static(step, ["src/s1.txt", "src/q.txt", "src/d.txt", "src/y.txt"])
            wf.define_step(step, "q", inp_paths=["src/q.txt"])
            wf.define_step(step, "mky", inp_paths=["src/y.txt"], out_paths=["a/y.txt"])
            wf.define_step(step, "user", inp_paths=["src/d.txt", "a/y.txt"], out_paths=["a/user.txt"])
        elif step.label == "q":
            wf.define_step(step, "prod", inp_paths=["src/s1.txt"], out_paths=["a/x.txt"])
        elif step.label == "user":
            unavailable, unfresh, _ = wf.amend_step(step, inp_paths=["a/x.txt"],
                                                    ran_concurrently=self.sched.ran_concurrently)
            return bool(unavailable or unfresh)
        return False

    async def finish_validate(self, job):
        state, deferred = validate_unchanged_outcome()
        async with self.db:
            job.step.set_state(state, deferred)
        log(f"  validate {job.step.label}: digest unchanged -> set_state({state.name}, deferred={deferred})")

    async def run_job(self, job):
        db, wf = self.db, self.wf
        step = job.step
        label = step.label
        if isinstance(job, ValidateDynamicJob):
            if RACE and not self.raced:
                self.raced = True
                self.held = job
                log(f"  validate {label}: job handed out, outcome not yet committed")
                return
            await self.finish_validate(job)
            return
        async with db:
            checking = step.get_state() == StepState.CHECKING
        if checking:
            if label in self.dirty:
                async with db:      # Executor._reset_step_to_pending
                    step.reset_for_rerun()
                    step.delete_hash()
                    step.set_state(StepState.PENDING)
                log(f"  check {label}: digest changed -> reset_for_rerun, PENDING")
                return
            async with db:
                outs = {str(r.path): fhash(str(r.path), self.version.get(str(r.path), 0))
                        for r in step.out_paths() if r.state != FileState.BUILT}
                wf.update_file_hashes(outs, cause=HashUpdateCause.SUCCEEDED)
                step.mark_completed(job.step_hash, False)
            log(f"  check {label}: skipped")
            return
        self.dirty.discard(label)
        async with db:
            step.reset_for_rerun()
        async with db:
            wants_defer = self.program(step)
        async with db:
            if wants_defer:
                step.mark_completed(None, True)
                log(f"  run {label}: deferred")
            else:
                outs = {str(r.path): fhash(str(r.path), self.version.get(str(r.path), 0)) for r in step.out_paths()}
                wf.update_file_hashes(outs, cause=HashUpdateCause.SUCCEEDED)
                self.salt += 1
                step.mark_completed(shash(label, self.salt), False)
                log(f"  run {label}: succeeded")

    async def build_phase(self, limit=60):
        for _ in range(limit):
            job = await self.sched.pop_next_job()
            if job is None:
                if self.held is not None:
                    job, self.held = self.held, None
                    await self.finish_validate(job)     # the delayed outcome of the validation job
                    continue
                return
            await self.run_job(job)
        raise SystemExit("demo: too many jobs in one phase (livelock)")

    async def edit(self, path):
        self.version[path] = self.version.get(path, 0) + 1
        async with self.db:
            self.wf.update_file_hashes({path: fhash(path, self.version[path])}, cause=HashUpdateCause.EXTERNAL)

    def stuck(self):
        """PENDING, attached, deferred steps whose dynamic inputs are all CONFIRMED / BUILT."""
        sql = """
        SELECT node.label FROM step JOIN node ON node.i = step.node
        WHERE step.state = ? AND step.deferred AND NOT node.detached AND step._ready
          AND (step._safe OR (step._has_hash AND step._safe_ignoring_hold))
          AND step._implied_need > ?
          AND NOT EXISTS (
            SELECT 1 FROM dependency JOIN dynamic_dep ON dynamic_dep.i = dependency.i
            JOIN file ON file.node = dependency.source
            WHERE dependency.sink = step.node AND file.state NOT IN (?, ?))
        """
        return [r[0] for r in self.db.execute(sql, (StepState.PENDING.value, Need.OPTIONAL.value,
                                                    FileState.CONFIRMED.value, FileState.BUILT.value))]


async def main() -> int:
    with contextlib.ExitStack() as stack:
        db = stack.enter_context(DBSession.open(":memory:"))
        wf = Workflow(db, dir_queue=None, targets=frozenset(), target_dirs=frozenset(), defer_cap=3)
        await wf.initialize()
        sched = Scheduler(wf, db=db)
        await sched.initialize(None)
        d = Demo(db, wf, sched)
        async with db:
            d.confirm_static(wf.root, ["plan.py"])
            wf.define_step(wf.root, "./plan.py", inp_paths=["plan.py"], need=Need.PLAN, _safe=True)
        log(f"repository: {REPO}")
        log("build 1")
        await d.build_phase()
        async with db:
            states = dict(db.execute("SELECT node.label, step.state FROM step JOIN node ON node.i = step.node"))
        if any(s != StepState.SUCCEEDED.value for s in states.values()):
            print("demo: build 1 did not complete", states)
            return 2
        log("edit src/q.txt and src/y.txt (the rebuilt a/y.txt has the same content)")
        await d.edit("src/q.txt")
        await d.edit("src/y.txt")
        d.dirty.update(["q", "mky"])
        log("build 2" + (" (--race: the validation outcome arrives after the recycle)" if RACE else ""))
        await d.build_phase()
        async with db:
            await_meta = d.stuck()
            rows = db.execute("SELECT node.label, step.state, step.deferred FROM step JOIN node ON node.i = step.node "
                              "ORDER BY node.i").fetchall()
            files = db.execute("SELECT node.label, file.state, node.detached FROM file JOIN node ON node.i = file.node "
                               "WHERE node.label IN ('a/x.txt', 'a/y.txt')").fetchall()
        log("end of build 2: (label, state, deferred) =", [tuple(r) for r in rows])
        log("                (file, state, detached)  =", [tuple(r) for r in files])
        if await_meta:
            print(f"D39 REPRODUCED: the build phase ended with {await_meta} PENDING, attached, needed, safe, ready, every "
                  f"dynamic input available -- and deferred: nothing will ever clear the flag")
            return 1
        print("D39 not reproduced: no parked step with available inputs at the end of the phase")
        return 0


if __name__ == "__main__":
    sys.exit(asyncio.run(main()))
