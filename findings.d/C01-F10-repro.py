#!/usr/bin/env python3
"""Real `stepup build` reproduction: a step defined by a SUB-PLAN, its static input declared by
the MAIN plan; the sub-plan is edited: GREETING=hello -> GREETING=bye (or prefix dropped)."""
import os, shutil, subprocess, sys, tempfile
from pathlib import Path
SHOW = '#!/usr/bin/env python3\nimport os\nwith open("greeting.txt", "w") as fh:\n    print(os.environ.get("GREETING", "default greeting"), file=fh)\n'
PLAN = '#!/usr/bin/env python3\nfrom stepup.core.api import plan, static\nstatic("show.py", "sub.py")\nplan("./sub.py")\n'
def sub(prefix): return f'#!/usr/bin/env python3\nfrom stepup.core.api import run\nrun("{prefix}./show.py", out=["greeting.txt"])\n'
def build(root):
    env = dict(os.environ); env["PATH"] = "/venv/bin:" + env.get("PATH", ""); env["PYTHONPATH"] = os.environ.get("REPRO_REPO", "/repo") + ":/repo/tests"
    for n in ("STEPUP_ROOT", "STEPUP_DIRECTOR_SOCKET", "GREETING"): env.pop(n, None)
    cp = subprocess.run(["stepup", "build", "-j", "1", "--no-progress"], cwd=root, env=env, stdin=subprocess.DEVNULL,
                        stdout=subprocess.PIPE, stderr=subprocess.STDOUT, text=True, timeout=600)
    return cp.returncode, cp.stdout
def w(p, t): p.write_text(t); p.chmod(0o755)
bad = 0
for a, b in (("GREETING=hello ", "GREETING=bye "), ("GREETING=hello ", ""), ("", "GREETING=hi ")):
    tmp = Path(tempfile.mkdtemp(prefix="c01d-real-"))
    try:
        inc = tmp / "inc"; inc.mkdir(); w(inc / "show.py", SHOW); w(inc / "plan.py", PLAN); w(inc / "sub.py", sub(a))
        rc1, _ = build(inc); w(inc / "sub.py", sub(b)); rc2, out2 = build(inc)
        ref = tmp / "ref"; ref.mkdir(); w(ref / "show.py", SHOW); w(ref / "plan.py", PLAN); w(ref / "sub.py", sub(b))
        rc3, _ = build(ref)
        gi, gr = (inc / "greeting.txt").read_text(), (ref / "greeting.txt").read_text()
        print(repr(a), "->", repr(b), "rc", rc1, rc2, rc3, "incremental", repr(gi), "from scratch", repr(gr), "OK" if gi == gr else "STALE")
        if gi != gr:
            bad = 1; print("\n".join(l for l in out2.splitlines() if "show.py" in l or "sub.py" in l))
    finally:
        shutil.rmtree(tmp, ignore_errors=True)
sys.exit(bad)
