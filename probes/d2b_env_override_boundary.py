from stepup.core.hash import StepHash
K = "__env_overrides__"
h1 = StepHash.from_inp("cmd", {}, {"A": "b"}, explained=False, env_overrides={"c": K})
h2 = StepHash.from_inp("cmd", {}, {"A": "b", K: "c"}, explained=False, env_overrides={})
print("distinct configs, equal inp_digest:", h1.inp_digest == h2.inp_digest)
