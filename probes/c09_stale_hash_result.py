"""C09 probe (D17): see harness/c09_hashjob.py.

Run: PYTHONPATH=/repo:/repo/tests:/verif PYTHONHASHSEED=0 /venv/bin/python /verif/probes/c09_stale_hash_result.py
"""
import asyncio
from harness.c09_hashjob import stale_hash_scenario

print("RESULT", asyncio.run(stale_hash_scenario()))
