"""C09 probe: the result of a hash job (cause CONFIRMED) arrives after the file node was detached
and taken over by another declaration (or deleted): Workflow.update_file_hashes raises
ConsistencyError.  Executor._run_hash_job applies the result without re-checking the state.

Run: PYTHONPATH=/repo:/repo/tests:/verif PYTHONHASHSEED=0 /venv/bin/python /verif/probes/c09_stale_hash_result.py
"""
import asyncio
from harness import e2


async def main():
    impl = e2.Impl(3)
    await impl.start()
    try:
        async def ap(op):
            r = await impl.apply(op)
            print(op[0], op[1:4], "->", r)
            return r
        await ap(("declare_static", ("root", ""), ("plan.py",)))
        await ap(("update_hashes", "CONFIRMED", (("plan.py", 1),)))
        await ap(("define_step", ("root", ""), "./plan.py", ("plan.py",), (), (), (), "PLAN"))
        async with impl.db:
            impl.db.execute("UPDATE step SET _safe = 1, _safe_ignoring_hold = 1, _check_safe = 0")
        print("dispatch", await impl.dispatch())
        await ap(("reset_for_rerun", "./plan.py"))
        # the plan declares f5 static: a hash job (cause CONFIRMED) is queued for it ...
        await ap(("declare_static", ("step", "./plan.py"), ("f5",)))
        await ap(("define_step", ("step", "./plan.py"), "A", (), (), (), (), "DEFAULT"))
        print("dispatch", await impl.dispatch())
        await ap(("reset_for_rerun", "A"))
        # ... the plan ends and is rerun before the hash job ran: f5 and A become detached while A
        # is still running
        await ap(("exec_end", "./plan.py", (), "SUCCEEDED", (), True, False))
        await ap(("mark_step_pending", "./plan.py"))
        print("dispatch", await impl.dispatch())
        await ap(("reset_to_pending", "./plan.py"))
        print("dispatch", await impl.dispatch())
        await ap(("reset_for_rerun", "./plan.py"))
        # A (running) amends: f5 is a volatile output; the stale node is taken over
        await ap(("amend_step", "A", (), (), (), ("f5",)))
        # the hash job finishes now
        r = await ap(("update_hashes", "CONFIRMED", (("f5", 7),)))
        print("RESULT", r)
    finally:
        impl.close()


asyncio.run(main())
