#!/usr/bin/env bash
# D15 (C14): an input that no one declared yet (UNDECLARED, detached node) and that matches a registered glob
# pattern appears during the watch phase: the watcher's EXTERNAL hash job hits a missing _HASH_TRANSITIONS key.
export PATH=/venv/bin:$PATH
rm -rf /tmp/probe/w2 && mkdir -p /tmp/probe/w2 && cd /tmp/probe/w2
cat > plan.py <<'PY'
#!/usr/bin/env python3
from stepup.core.api import glob, step
print("TXT:", glob("*.txt"))
step("cat nothere.txt > out.log", inp=["nothere.txt"], out=["out.log"])
PY
chmod +x plan.py
(stepup build -j1 -w > out_watch.txt 2>&1 &) ; sleep 1
timeout 20 stepup wait; echo hello > nothere.txt; sleep 1.0
timeout 20 stepup rebuild; timeout 20 stepup wait; timeout 20 stepup join; sleep 0.5
echo "--- watch-mode"; cat out_watch.txt | tail -40; ls
echo "--- restart on the same tree"; timeout 60 stepup build -j1 > out_restart.txt 2>&1; echo "rc=$?"; tail -20 out_restart.txt; ls
