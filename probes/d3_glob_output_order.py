import asyncio, sys
sys.path.insert(0, "/repo/tests")
from stepup.core.sqlite3 import DBSession
from stepup.core.workflow import Workflow
from stepup.core.step import Step
from stepup.core.nglob import NamedGlob
from stepup.core.enums import *
from conftest import fake_hash

async def mk():
    db = DBSession.open(":memory:")
    return db
async def boot(wf):
    to_check = wf.declare_static_files(wf.root, ["plan.py"])
    wf.update_file_hashes({p: fake_hash(p) for p in to_check}, cause=HashUpdateCause.CONFIRMED)
    wf.define_step(wf.root, "./plan.py", inp_paths=["plan.py"], need=Need.PLAN, _safe=True)
    return wf.find(Step, "./plan.py")

async def main():
    for order in ("glob-first", "step-first"):
        with DBSession.open(":memory:") as db:
            wf = Workflow(db, dir_queue=None)
            await wf.initialize()
            async with db:
                plan = await boot(wf)
                ng = NamedGlob("*.txt")   # no matches on disk yet
                try:
                    if order == "glob-first":
                        wf.register_nglob(plan, ng)
                        wf.define_step(plan, "mk", out_paths=["a.txt"])
                    else:
                        wf.define_step(plan, "mk", out_paths=["a.txt"])
                        wf.register_nglob(plan, ng)
                    print(order, "ACCEPTED")
                except Exception as e:
                    print(order, "REJECTED", type(e).__name__, str(e)[:90])
asyncio.run(main())
