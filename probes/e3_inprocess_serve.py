"""Feasibility probe: real serve() in-process, launch_command replaced by simulated steps."""
import asyncio, os, sys, time, contextlib, io
from path import Path
import stepup.core.executor as ex
import stepup.core.director as di
from stepup.core.director import ServeConfig, serve, _wire_director
from stepup.core.outcome import ChildOutcome
from stepup.core.reporter import ReporterClient
from stepup.core.rpc import BaseAsyncRPCClient
from stepup.core.sqlite3 import DBSession
from stepup.core.constants import GRAPH_DB
from stepup.core.enums import Need

EVENTS = []
class RecReporter(BaseAsyncRPCClient):
    async def __call__(self, name, /, *args, **kwargs):
        if name == "report":
            EVENTS.append(args[:2])
        return None

HANDLER = {}
_orig_wire = di._wire_director
async def wire(**kw):
    h = await _orig_wire(**kw)
    HANDLER["h"] = h
    return h
di._wire_director = wire

async def fake_launch(command, *, shell, env, cwd, mp_ctx, run):
    h = HANDLER["h"]
    job_i = run.job_i
    if command == "./plan.py":
        await h.declare_static(job_i, [], ["x.txt"], [])
        await h.define_step(job_i, "mk y", ["x.txt"], [], ["y.txt"], [], ".", Need.DEFAULT.value, {})
        await h.define_step(job_i, "mk z", ["y.txt"], [], ["z.txt"], [], ".", Need.DEFAULT.value, {})
    elif command.startswith("mk "):
        tgt = command.split()[1] + ".txt"
        src = {"y.txt": "x.txt", "z.txt": "y.txt"}[tgt]
        await asyncio.sleep(0.01)
        Path(tgt).write_text("from:" + Path(src).read_text())
    return ChildOutcome(0, "", "")
ex.launch_command = fake_launch

async def build():
    Path(".stepup").makedirs_p()
    with DBSession.open(GRAPH_DB) as db:
        res = await serve(ServeConfig(njob=2, use_duration=False), director_socket_path=Path(".stepup/sock"),
                          reporter=ReporterClient(RecReporter()), db=db, handle_signals=False)
    return res.returncode

Path("plan.py").write_text("#!/usr/bin/env python3\n"); os.chmod("plan.py", 0o755)
Path("x.txt").write_text("hello")
t=time.time(); rc = asyncio.run(build()); print("rc", rc, "t=%.2f"%(time.time()-t))
print([e for e in EVENTS if e[0] in ("START","SKIP","SUCCESS","FAIL")])
print(Path("z.txt").read_text())
EVENTS.clear()
t=time.time(); rc = asyncio.run(build()); print("rc", rc, "t=%.2f"%(time.time()-t))
print([e for e in EVENTS if e[0] in ("START","SKIP","SUCCESS","FAIL")])
Path("x.txt").write_text("hello2"); EVENTS.clear()
rc = asyncio.run(build()); print("rc", rc, [e for e in EVENTS if e[0] in ("START","SKIP","SUCCESS","FAIL","UPDATED")])
print(Path("z.txt").read_text())
