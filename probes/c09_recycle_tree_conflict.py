"""C09/C08 probe: a fully recycled step brings back its static tree without any ownership check.

Run: PYTHONPATH=/repo:/repo/tests:/verif PYTHONHASHSEED=0 /venv/bin/python /verif/probes/c09_recycle_tree_conflict.py
"""
import asyncio
from harness import e2


async def main():
    impl = e2.Impl(3)
    await impl.start()
    async def ap(op):
        r = await impl.apply(op)
        print(op[0], op[1:4], "->", r)
        return r
    plan = "./plan.py"
    await ap(("declare_static", ("root", ""), ("plan.py",)))
    await ap(("update_hashes", "CONFIRMED", (("plan.py", 1),)))
    await ap(("define_step", ("root", ""), plan, ("plan.py",), (), (), (), "PLAN"))
    async with impl.db:
        impl.db.execute("UPDATE step SET _safe = 1, _safe_ignoring_hold = 1, _check_safe = 0")
    print("dispatch", await impl.dispatch())
    await ap(("reset_for_rerun", plan))
    await ap(("define_step", ("step", plan), "A", (), (), (), (), "DEFAULT"))
    await ap(("exec_end", plan, (), "SUCCEEDED", (), True, False))
    print("dispatch", await impl.dispatch())
    await ap(("reset_for_rerun", "A"))
    await ap(("register_tree", ("step", "A"), "d/"))            # A owns the tree d/
    await ap(("exec_end", "A", (), "SUCCEEDED", (), True, False))
    # the plan is rerun: A and its tree become detached
    await ap(("mark_step_pending", plan))
    print("dispatch", await impl.dispatch())
    await ap(("reset_to_pending", plan))
    print("dispatch", await impl.dispatch())
    await ap(("reset_for_rerun", plan))
    # this time the plan first defines B, which builds d/g0 and has a tree of its own inside d/
    await ap(("define_step", ("step", plan), "B", (), (), ("d/g0",), (), "DEFAULT"))
    await ap(("exec_end", plan, (), "SUCCEEDED", (), True, False)) if False else None
    print("dispatch", await impl.dispatch())
    await ap(("reset_for_rerun", "B"))
    await ap(("register_tree", ("step", "B"), "d/e/"))
    # ... and then declares A again, identically: full recycle, the tree d/ is attached again
    await ap(("define_step", ("step", plan), "A", (), (), (), (), "DEFAULT"))
    d = await impl.dump()
    print([n for n in d["nodes"] if n[0][0] in ("st",) or n[0][1].startswith("d/")])
    print([f for f in d["files"] if f[0].startswith("d/")])
    r = await ap(("amend_step", "B", ("d/e/h0",), (), (), ()))
    print("strict check:", await impl.strict_check())
    impl.close()


asyncio.run(main())
