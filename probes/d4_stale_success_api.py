import asyncio, sys
sys.path.insert(0, "/repo/tests")
from stepup.core.sqlite3 import DBSession
from stepup.core.workflow import Workflow
from stepup.core.step import Step
from stepup.core.file import File
from stepup.core.hash import StepHash
from stepup.core.enums import *
from conftest import fake_hash, declare_static

async def main():
    with DBSession.open(":memory:") as db:
        wf = Workflow(db, dir_queue=None)
        await wf.initialize()
        async with db:
            declare_static(wf, wf.root, ["plan.py"])
            wf.define_step(wf.root, "./plan.py", inp_paths=["plan.py"], need=Need.PLAN, _safe=True)
            plan = wf.find(Step, "./plan.py")
            plan.set_state(StepState.RUNNING)
            # plan v1
            declare_static(wf, plan, ["x.txt"])
            wf.define_step(plan, "cat", inp_paths=["x.txt"], out_paths=["y.txt"])
            cat = wf.find(Step, "cat")
            plan.mark_completed(StepHash(b"a"*32, None, b"b"*32, None), False)
            # run cat
            cat.set_state(StepState.RUNNING)
            wf.update_file_hashes({"y.txt": fake_hash("y.txt")}, cause=HashUpdateCause.SUCCEEDED)
            cat.mark_completed(StepHash(b"c"*32, None, b"d"*32, None), False)
            print("after build 1:", cat.get_state().name)
            # plan.py edited -> pending -> rerun
            wf.update_file_hashes({"plan.py": fake_hash("plan.py2")}, cause=HashUpdateCause.EXTERNAL)
            print("plan:", plan.get_state().name, "cat:", cat.get_state().name)
            plan.set_state(StepState.RUNNING)
            plan.reset_for_rerun()
            # plan v2: no static(x.txt); same step
            wf.define_step(plan, "cat", inp_paths=["x.txt"], out_paths=["y.txt"])
            plan.mark_completed(StepHash(b"e"*32, None, b"f"*32, None), False)
            cat = wf.find(Step, "cat")
            print("after plan v2: cat", cat.get_state().name, "detached:", cat.is_detached(),
                  "x.txt detached:", wf.find(File,"x.txt").is_detached(), wf.find(File,"x.txt").get_state().name)
            wf.delete_detached()
            print(wf.format_str())
asyncio.run(main())
