"""C09 probe: a RUNNING step that has been detached defines a step with its own label.

Run: PYTHONPATH=/repo:/repo/tests:/verif PYTHONHASHSEED=0 /venv/bin/python /verif/probes/c09_self_define.py
"""
import asyncio
from harness import e2


async def main():
    impl = e2.Impl(3)
    await impl.start()
    try:
        async def ap(op):
            r = await impl.apply(op)
            print(op[0], op[1:3], "->", r)
            return r
        await ap(("declare_static", ("root", ""), ("plan.py",)))
        await ap(("update_hashes", "CONFIRMED", (("plan.py", 1),)))
        await ap(("define_step", ("root", ""), "./plan.py", ("plan.py",), (), (), (), "PLAN"))
        async with impl.db:
            impl.db.execute("UPDATE step SET _safe = 1, _safe_ignoring_hold = 1, _check_safe = 0")
        print("dispatch", await impl.dispatch())
        await ap(("reset_for_rerun", "./plan.py"))
        await ap(("define_step", ("step", "./plan.py"), "A", (), (), (), (), "DEFAULT"))
        print("dispatch", await impl.dispatch())
        await ap(("reset_for_rerun", "A"))
        await ap(("exec_end", "./plan.py", (), "FAILED", (), False, False))
        d = await impl.dump()
        print([n for n in d["nodes"]])
        print(d["steps"])
        r = await ap(("define_step", ("step", "A"), "A", (), (), (), (), "DEFAULT"))
        print("RESULT", r)
        r = await ap(("define_step", ("step", "A"), "A", ("plan.py",), (), (), (), "DEFAULT"))
        print("RESULT (non-recyclable spec)", r)
    finally:
        impl.close()


asyncio.run(main())
