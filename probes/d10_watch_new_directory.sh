#!/usr/bin/env bash
# D10 (C14): a directory created during the watch phase that matches a registered pattern
# (`static("data/*/")`) is not noticed by `stepup rebuild`, while a restart on the same tree
# reports `UPDATED data/new/` and reruns plan.py.
export PATH=/venv/bin:$PATH
rm -rf /tmp/probe/w1 && mkdir -p /tmp/probe/w1/data/old && cd /tmp/probe/w1
cat > plan.py <<'PY'
#!/usr/bin/env python3
from stepup.core.api import static
print("TREES:", static("data/*/"))
PY
chmod +x plan.py
(stepup build -j1 -w > out_watch.txt 2>&1 &) ; sleep 1
timeout 20 stepup wait; mkdir data/new; sleep 1.0
timeout 20 stepup rebuild; timeout 20 stepup wait; timeout 20 stepup graph gwatch; timeout 20 stepup join; sleep 0.5
echo "--- watch-mode"; grep -E "START|SKIP|UPDATED|PHASE" out_watch.txt; grep "st:data" gwatch.txt
echo "--- restart on the same tree"; stepup build -j1 > out_restart.txt 2>&1; grep -E "START|SKIP|UPDATED|DELETED" out_restart.txt
