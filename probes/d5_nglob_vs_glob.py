import os, random, glob, re, itertools
from stepup.core.nglob import NamedGlob, convert_nglob_to_regex, convert_nglob_to_glob
os.chdir("/tmp/probe/tree")
random.seed(3)
# all existing paths (files, and dirs with trailing slash)
allp=[]
for root, dirs, files in os.walk("."):
    for d in dirs: allp.append(os.path.normpath(os.path.join(root,d))+"/")
    for f in files: allp.append(os.path.normpath(os.path.join(root,f)))
atoms=["a","b","f",".txt",".","*","?","**","[ab]","[!a]","${*n}","${*m}","/","/","g","h",".h"]
def genpat():
    k=random.randint(1,6)
    p="".join(random.choice(atoms) for _ in range(k))
    return p
seen=set(); mism1=[]; mism2=[]; mism3=[]
for _ in range(6000):
    p=genpat()
    if p in seen or p.startswith("/") or "//" in p: continue
    seen.add(p)
    names=re.findall(r"\$\{\*(\w+)\}",p)
    try:
        ng=NamedGlob(p); ng.glob()
    except Exception as e:
        continue
    rec=set(map(str,ng.files()))
    rx=re.compile(convert_nglob_to_regex(p))
    acc={q for q in allp if rx.fullmatch(q)}
    if rec!=acc: mism1.append((p,sorted(acc-rec),sorted(rec-acc)))
    if len(names)==len(set(names)):
        anon=re.sub(r"\$\{\*\w+\}","*",p)
        g=set()
        for q in glob.glob(anon,recursive=True,include_hidden=True):
            g.add(q+"/" if os.path.isdir(q) and not q.endswith("/") else q)
        if g!=rec: mism2.append((p,anon,sorted(g-rec),sorted(rec-g)))
        rx2=re.compile(convert_nglob_to_regex(anon))
        acc2={q for q in allp if rx2.fullmatch(q)}
        if acc2!=acc: mism3.append((p,anon,sorted(acc2^acc)))
print(len(seen),len(mism1),len(mism2),len(mism3))
for m in mism1[:10]: print("REC!=ACC",m)
for m in mism2[:15]: print("GLOB!=REC",m)
for m in mism3[:10]: print("NAMED!=ANON",m)
