from stepup.core.hash import FileHash, StepHash
u = FileHash.unknown()
m1 = (0o100644).to_bytes(8); s1=(5).to_bytes(8)
tail = b"\0\1c" + b"\0\0" + (7).to_bytes(8) + b"\0\0" + (9).to_bytes(8) + b"\0\0u"
assert len(tail)==26
digest_b = b"XXXXXX" + tail
A = {"a": u, "b": FileHash(digest_b, 0o100644, 0.0, 5, 0)}
rest = b"\0\1b" + b"\0\0"+m1 + b"\0\0"+s1 + b"\0\0"+digest_b
dB = b"u" + rest[:31]
assert len(dB)==32
B = {"a": FileHash(dB, 0, 0.0, 0, 0), "c": FileHash(b"u", 7, 0.0, 9, 0)}
base = StepHash.from_inp("cmd", {}, {}, explained=False)
ha = base.with_out_hashes(A).out_digest
hb = base.with_out_hashes(B).out_digest
print(A!=B, ha==hb, ha.hex()[:16])
