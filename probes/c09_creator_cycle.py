"""C09 probe: a RUNNING, detached step re-declares its own (detached) creator identically.
try_recycle -> Step.reattach makes the creator links cyclic (K -> C -> K, both detached);
Step._flag_checks_with_products walks the products with UNION ALL and never terminates.

Run: PYTHONPATH=/repo:/repo/tests:/verif PYTHONHASHSEED=0 /venv/bin/python /verif/probes/c09_creator_cycle.py
"""
import asyncio
import faulthandler
from harness import e2

faulthandler.dump_traceback_later(90, exit=True)


async def main():
    impl = e2.Impl(3)
    await impl.start()
    async def ap(op):
        r = await impl.apply(op)
        print(op[0], op[1:3], "->", r, flush=True)
        return r
    await ap(("declare_static", ("root", ""), ("plan.py",)))
    await ap(("update_hashes", "CONFIRMED", (("plan.py", 1),)))
    await ap(("define_step", ("root", ""), "./plan.py", ("plan.py",), (), (), (), "PLAN"))
    async with impl.db:
        impl.db.execute("UPDATE step SET _safe = 1, _safe_ignoring_hold = 1, _check_safe = 0")
    print("dispatch", await impl.dispatch())
    await ap(("reset_for_rerun", "./plan.py"))
    await ap(("define_step", ("step", "./plan.py"), "K", (), (), (), (), "DEFAULT"))
    print("dispatch", await impl.dispatch())
    await ap(("reset_for_rerun", "K"))
    await ap(("define_step", ("step", "K"), "C", (), (), (), (), "DEFAULT"))
    print("dispatch", await impl.dispatch())
    await ap(("reset_for_rerun", "C"))
    # the plan fails: K (and with it C) become detached while both are RUNNING
    await ap(("exec_end", "./plan.py", (), "FAILED", (), False, False))
    d = await impl.dump()
    print(d["nodes"])
    # C declares K again, identically: full recycle with C as the new creator of K
    r = await ap(("define_step", ("step", "C"), "K", (), (), (), (), "DEFAULT"))
    print("RESULT", r)
    print((await impl.dump())["nodes"])
    impl.close()


asyncio.run(main())
