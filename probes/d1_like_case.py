import asyncio, sys
sys.path.insert(0, "/repo/tests")
from stepup.core.sqlite3 import DBSession, prefix_clause
from stepup.core.workflow import Workflow
from stepup.core.file import File
from stepup.core.step import Step
from stepup.core.enums import *
from conftest import declare_static, fake_hash

async def main():
    with DBSession.open(":memory:") as db:
        wf = Workflow(db, dir_queue=None)
        await wf.initialize()
        async with db:
            wf.initialize_boot.__doc__
            # boot
            to_check = wf.declare_static_files(wf.root, ["plan.py"])
            wf.update_file_hashes({p: fake_hash(p) for p in to_check}, cause=HashUpdateCause.CONFIRMED)
            wf.define_step(wf.root, "./plan.py", inp_paths=["plan.py"], need=Need.PLAN, _safe=True)
            plan = wf.find(Step, "./plan.py")
            wf.define_step(plan, "mk", out_paths=["Data/x.txt"])
            try:
                wf.register_static_tree(plan, "data/")
                print("static tree data/ accepted alongside output Data/x.txt")
            except Exception as e:
                print("REJECTED:", type(e).__name__, e)
            print(list(wf.relevant_paths_under("DATA")))
            print(prefix_clause("label", "a_b%/"))
            print(db.execute("SELECT 'Data/x' LIKE 'data/%' ESCAPE '\\'").fetchone())
asyncio.run(main())
