import os, random, itertools, posixpath
from path import Path
from stepup.core.path import translate, translate_back
random.seed(1)
ROOT="/r/proj"
def lex_resolve(base, p):
    # lexical resolution (no symlinks): join + normpath
    return posixpath.normpath(posixpath.join(base, p))
comps=["a","b","..",".","c",""]
bad=0; n=0
examples=[]
for _ in range(20000):
    here = "/".join(random.choice(["a","b","..","."]) for _ in range(random.randint(0,3))) or "."
    here = posixpath.normpath(here)
    workdir = "/".join(random.choice(comps) for _ in range(random.randint(0,3))) or "."
    if random.random()<0.1: workdir = "/"+workdir
    path = "/".join(random.choice(comps) for _ in range(random.randint(1,4)))
    if random.random()<0.1: path="/"+path
    if path=="": path="."
    os.environ["STEPUP_ROOT"]=ROOT; os.environ["HERE"]=here
    try:
        tr = translate(path, workdir)
    except Exception as e:
        print("EXC", path, workdir, here, e); continue
    n+=1
    # expected: file designated from caller dir
    caller_dir = lex_resolve(lex_resolve(ROOT, here), workdir)
    want = lex_resolve(caller_dir, path)
    got = lex_resolve(ROOT, tr)
    if want!=got:
        bad+=1
        if len(examples)<8: examples.append((path,workdir,here,str(tr),want,got))
    # translate_back round trip
    tb = translate_back(tr, workdir)
    got2 = lex_resolve(caller_dir, tb)
    if got2!=want and len(examples)<16:
        examples.append(("BACK",path,workdir,here,str(tr),str(tb),want,got2))
print(n,bad)
for e in examples: print(e)
