"""C07 probe: a dropped step's output stays on disk when it is only held *indirectly*.

v1 plan: mk f (x -> f), mk o2 (f -> o2), mk r (o2 -> r).  v2 plan drops `mk f` and `mk o2` and keeps
`mk r` (same declaration, so it is fully recycled and stays SUCCEEDED).  Question: after the
successful v2 build with cleaning, is f.txt (an orphan that no active step uses) removed?
Run inside a temporary directory:  PYTHONPATH=/repo python c07_indirect_hold.py
"""
import asyncio
import contextlib
import os
import tempfile

from path import Path

import stepup.core.director as di
import stepup.core.executor as ex
from stepup.core.constants import GRAPH_DB
from stepup.core.director import ServeConfig, serve
from stepup.core.enums import Need
from stepup.core.outcome import ChildOutcome
from stepup.core.reporter import ReporterClient
from stepup.core.rpc import BaseAsyncRPCClient
from stepup.core.sqlite3 import DBSession

EVENTS = []


class RecReporter(BaseAsyncRPCClient):
    async def __call__(self, name, /, *args, **kwargs):
        if name == "report":
            EVENTS.append(args[:2])


HANDLER = {}
_orig_wire = di._wire_director


async def wire(**kw):
    h = await _orig_wire(**kw)
    HANDLER["h"] = h
    return h


di._wire_director = wire
MODE = {"v": 1}
import sys
AMEND = len(sys.argv) > 1


async def fake_launch(command, *, shell, env, cwd, mp_ctx, run):
    h = HANDLER["h"]
    job_i = run.job_i
    D = Need.DEFAULT.value
    if command == "./plan.py":
        await h.declare_static(job_i, [], ["x.txt"], [])
        if MODE["v"] == 1:
            await h.define_step(job_i, "mk f", ["x.txt"], [], ["f.txt"], [], ".", D, {})
            await h.define_step(job_i, "mk o2", ["f.txt"], [], ["o2.txt"], [], ".", D, {})
        if AMEND:
            await h.define_step(job_i, "mk r", [], [], ["r.txt"], [], ".", D, {})
        else:
            await h.define_step(job_i, "mk r", ["o2.txt"], [], ["r.txt"], [], ".", D, {})
    elif command == "mk r" and AMEND:
        ok = await h.amend_step(job_i, ["o2.txt"], set(), [], [])
        if ok:
            Path("r.txt").write_text("made r from " + Path("o2.txt").read_text())
    elif command.startswith("mk "):
        tgt = command.split()[1] + ".txt"
        Path(tgt).write_text("made " + tgt)
    return ChildOutcome(0, "", "")


ex.launch_command = fake_launch


async def build():
    Path(".stepup").makedirs_p()
    with DBSession.open(GRAPH_DB) as db:
        res = await serve(ServeConfig(njob=1, use_duration=False), director_socket_path=Path(".stepup/sock"),
                          reporter=ReporterClient(RecReporter()), db=db, handle_signals=False)
        async with db:
            nodes = [r[0] for r in db.execute(
                "SELECT kind||':'||label||(CASE WHEN detached THEN ' (det)' ELSE '' END) FROM node")]
    return res.returncode, nodes


def show():
    print("   events", [e for e in EVENTS if e[0] in ("START", "SKIP", "SUCCESS", "FAIL", "WARNING", "REMOVE")])
    print("   disk", sorted(p for p in os.listdir(".") if p != ".stepup"))
    EVENTS.clear()


with tempfile.TemporaryDirectory(prefix="verif-c07-probe-") as d, contextlib.chdir(d):
    Path("plan.py").write_text("#!/usr/bin/env python3\n")
    os.chmod("plan.py", 0o755)
    Path("x.txt").write_text("hello")
    print("v1", asyncio.run(build()))
    show()
    MODE["v"] = 2
    Path("plan.py").write_text("#!/usr/bin/env python3\n# v2\n")
    print("v2", asyncio.run(build()))
    show()
    print("v2 again", asyncio.run(build()))
    show()
