import asyncio, sys
sys.path.insert(0, "/repo/tests")
from stepup.core.sqlite3 import DBSession
from stepup.core.workflow import Workflow
from stepup.core.scheduler import Scheduler
from stepup.core.step import Step
from stepup.core.file import File
from stepup.core.hash import StepHash
from stepup.core.enums import *
from conftest import fake_hash, declare_static, amend_step

def need(db, step):
    return Need(db.execute("SELECT _implied_need FROM step WHERE node=?", (step.i,)).fetchone()[0]).name, \
           db.execute("SELECT _check_after FROM step WHERE node=?", (step.i,)).fetchone()[0]

async def main():
    with DBSession.open(":memory:") as db:
        wf = Workflow(db, dir_queue=None)
        await wf.initialize()
        sch = Scheduler(wf, db=db)
        await sch.initialize(None)
        async with db:
            declare_static(wf, wf.root, ["plan.py"])
            wf.define_step(wf.root, "./plan.py", inp_paths=["plan.py"], need=Need.PLAN, _safe=True)
            plan = wf.find(Step, "./plan.py")
            plan.set_state(StepState.RUNNING)
            wf.define_step(plan, "P", out_paths=["f.txt"], need=Need.OPTIONAL)
            wf.define_step(plan, "C", out_paths=["c.txt"])
            P = wf.find(Step, "P"); C = wf.find(Step, "C")
            sch._update_meta_safe(); sch._update_meta_after(); sch._update_meta_ready()
            print("initial        P:", need(db,P), "C:", need(db,C))
            C.set_state(StepState.RUNNING)
            print(amend_step(wf, C, inp_paths=["f.txt"]))
            sch._update_meta_after()
            print("after amend    P:", need(db,P), "C:", need(db,C))
            # C deferred -> later reruns and no longer amends f.txt
            C.mark_completed(None, True)
            C.set_state(StepState.RUNNING)
            C.reset_for_rerun()
            print("flags after reset_for_rerun  P:", need(db,P), "C:", need(db,C))
            sch._update_meta_after()
            print("after reset    P:", need(db,P), "C:", need(db,C), " sinks of f:", list(wf.find(File,"f.txt").sink_keys()))
asyncio.run(main())
