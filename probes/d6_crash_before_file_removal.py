"""D6 probe: kill the director right after the delete_detached transaction committed,
before remove_deletable_files ran; then restart and see whether the orphan is ever removed."""
import asyncio, os, sys
from path import Path
import stepup.core.executor as ex
import stepup.core.director as di
import stepup.core.builder as bu
from stepup.core.director import ServeConfig, serve
from stepup.core.outcome import ChildOutcome
from stepup.core.reporter import ReporterClient
from stepup.core.sqlite3 import DBSession
from stepup.core.constants import GRAPH_DB
from stepup.core.enums import Need

phase = sys.argv[1]
HANDLER = {}
_orig_wire = di._wire_director
async def wire(**kw):
    h = await _orig_wire(**kw); HANDLER["h"] = h; return h
di._wire_director = wire

async def fake_launch(command, *, shell, env, cwd, mp_ctx, run):
    h = HANDLER["h"]; job_i = run.job_i
    if command == "./plan.py":
        if Path("plan.py").read_text().count("WITH_A"):
            await h.define_step(job_i, "mk a", [], [], ["a.txt"], [], ".", Need.DEFAULT.value, {})
    elif command == "mk a":
        Path("a.txt").write_text("A")
    return ChildOutcome(0, "", "")
ex.launch_command = fake_launch

if phase == "crash":
    async def die(workflow, reporter):
        print("to_be_deleted at crash:", dict(workflow.to_be_deleted)); sys.stdout.flush()
        os._exit(137)
    bu.remove_deletable_files = die

async def build():
    Path(".stepup").makedirs_p()
    with DBSession.open(GRAPH_DB) as db:
        res = await serve(ServeConfig(njob=1, use_duration=False), director_socket_path=Path(".stepup/sock"),
                          reporter=ReporterClient(), db=db, handle_signals=False)
        async with db:
            nodes = [r[0] for r in db.execute("SELECT kind||':'||label FROM node")]
    return res.returncode, nodes
rc, nodes = asyncio.run(build())
print(phase, "rc", rc, "a.txt exists:", Path("a.txt").exists(), "nodes:", nodes)
