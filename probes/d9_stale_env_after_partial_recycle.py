import asyncio, sys, os
sys.path.insert(0, "/repo/tests")
from stepup.core.sqlite3 import DBSession
from stepup.core.workflow import Workflow
from stepup.core.step import Step
from stepup.core.enums import *
from conftest import fake_hash, declare_static

async def main():
    with DBSession.open(":memory:") as db:
        wf = Workflow(db, dir_queue=None)
        await wf.initialize()
        async with db:
            declare_static(wf, wf.root, ["plan.py"])
            wf.define_step(wf.root, "./plan.py", inp_paths=["plan.py"], need=Need.PLAN, _safe=True)
            plan = wf.find(Step, "./plan.py")
            plan.set_state(StepState.RUNNING)
            wf.define_step(plan, "S", env_deps=["VA", "VB"], resources={"gpu": 1})
            S = wf.find(Step, "S")
            print("v1 env:", sorted(S.env_deps()), list(S.resources()))
            plan.reset_for_rerun()          # plan reruns: S detached
            wf.define_step(plan, "S", env_deps=["VA"])   # v2: fewer env deps -> partial recycle
            S = wf.find(Step, "S")
            print("v2 env:", sorted(S.env_deps()), list(S.resources()), "detached:", S.is_detached())
            print([l for l in wf.format_str().splitlines() if "using_env" in l or l.strip().startswith("= V") or "VB" in l])
asyncio.run(main())
