"""Translator for C15: transaction structure of the director's RPC handlers, the commit/rollback
decision of DBSession, and the teardown behaviour of the RPC server connection.

Fail closed: every call made by an `@allow_rpc` method of DirectorHandler (and by the helper
methods they reach through `self.X(...)`) must be found in the classification tables below; an
unknown receiver, method, statement shape, `async with` target or decorator raises TranslatorError.

Output: coq/gen/GenStructure.v (definitions only).
"""

from __future__ import annotations

import ast

from .astutil import TranslatorError, body_without_docstring, find_function, parse_module

CORE = "stepup/core"

# ---------------------------------------------------------------------------------------------
# Classification tables (part of the trusted base; reviewed against workflow.py/step.py/...)
#   CMut    writes the stored workflow (database tables)
#   CRead   reads the stored workflow or in-memory director state, writes nothing
#   CMem    in-memory / file-system / other-process side effect, not the stored workflow
#   CSepTxn awaits work that opens transactions of its own (hash-result applications)
#   CPure   pure construction / local container manipulation
# ---------------------------------------------------------------------------------------------

FIELD_CALLS = {
    # self.workflow.X
    ("self.workflow", "register_static_tree"): "CMut",
    ("self.workflow", "declare_static_files"): "CMut",
    ("self.workflow", "register_nglob"): "CMut",
    ("self.workflow", "define_step"): "CMut",
    ("self.workflow", "amend_step"): "CMut",
    ("self.workflow", "mark_step_pending"): "CMut",
    ("self.workflow", "find"): "CRead",
    ("self.workflow", "steps"): "CRead",
    ("self.workflow", "format_str"): "CRead",
    ("self.workflow", "format_dot_provenance"): "CRead",
    ("self.workflow", "format_dot_dependency"): "CRead",
    ("self.workflow", "create_dirs"): "CMem",          # os.makedirs + watch queue, no SQL
    # self.scheduler.X
    ("self.scheduler", "get_job_step"): "CRead",       # dict lookup in Scheduler.jobs
    # self.db.X  (raw SQL from a handler would be an unclassified write)
    ("self.db", "execute"): "CMut",
    ("self.db", "executemany"): "CMut",
    # builder / executor / watcher / events / reporter
    ("self.builder", "run_promoted_hash_jobs"): "CSepTxn",
    ("self.builder.hash_queue", "submit"): "CMem",
    ("self.builder.wake_job_loop", "set"): "CMem",
    ("self.builder.resume", "set"): "CMem",
    ("self.executor", "defer"): "CMem",
    ("self.executor", "interrupt"): "CMem",
    ("self.watcher", "subscribe_changes"): "CMem",
    ("self.watcher.busy_watching", "is_set"): "CMem",
    ("self.watcher.end_watching", "set"): "CMem",
    ("self.stop_event", "set"): "CMem",
    ("self.stop_event", "is_set"): "CMem",
    ("self", "reporter"): "CMem",                       # RPC to the terminal user interface
}

# methods on local values, keyed by the type tag the translator infers for the local name
TYPED_CALLS = {
    ("Step", "hold"): "CMut",
    ("Step", "release"): "CMut",
    ("Step", "add_subprocess"): "CMut",
    ("Step", "get_info"): "CRead",
    ("File", "get_state"): "CRead",
    ("NamedGlob", "extend"): "CPure",
    ("dict", "update"): "CPure",
    ("dict", "items"): "CPure",
    ("set", "add"): "CPure",
    ("list", "append"): "CPure",
    ("Event", "clear"): "CMem",
    ("PathObj", "normpath"): "CPure",
}

PURE_NAMES = {"set", "len", "open", "print", "Path", "chain", "Need", "NamedGlob"}
AWAITABLE_NAMES = {"wait_for_any_event": "CMem"}

# attribute stores performed by handlers (in-memory flags)
ALLOWED_STORES = {"self.scheduler.draining", "self._next_step_signal"}

# value sources that give a local name a type tag
SOURCE_TYPES = {
    "self.scheduler.get_job_step": "Step",
    "NamedGlob": "NamedGlob",
    "self.workflow.define_step": "dict",
    "self.workflow.amend_step": ("set", "set", "dict"),
    "set": "set",
    "self.stop_event.is_set": "scalar",
    "self.workflow.steps": "iter:Step",
    "self.watcher.subscribe_changes": "Event",
}


def dotted(node) -> str | None:
    if isinstance(node, ast.Name):
        return node.id
    if isinstance(node, ast.Attribute):
        base = dotted(node.value)
        return None if base is None else f"{base}.{node.attr}"
    return None


def coq_string(s: str) -> str:
    if '"' in s or any(ord(c) > 126 or ord(c) < 32 for c in s):
        raise TranslatorError(f"identifier not printable as a Coq string: {s!r}")
    return f'"{s}"'


class HandlerScan:
    """Ordered segments of one method: items outside and inside `async with self.db` blocks."""

    def __init__(self, cls_methods: set[str], fn, module_funcs=None):
        self.fn = fn
        self.name = fn.name
        self.methods = cls_methods
        # module-level plain functions of director.py: a call of one of them is translated by inlining its body at
        # the call site (its calls are classified like the handler's own and land in the same segment)
        self.module_funcs = module_funcs or {}
        self.inlining: list[str] = []
        self.env: dict[str, object] = {}
        self.segs: list[tuple[str, list]] = []   # ("out"|"block", items)
        self.cur: list = []
        self.in_block = False
        self.helpers: set[str] = set()
        self._type_params()
        self.stmts(body_without_docstring(fn))
        self._flush("out")

    # -- typing of locals ----------------------------------------------------------------------
    @staticmethod
    def _ann_type(annotation):
        ann = ast.unparse(annotation) if annotation is not None else ""
        if ann.startswith(("Mapping", "dict")):
            return "dict"
        if ann.startswith("list"):
            return "list"
        if ann.startswith("set"):
            return "set"
        return "scalar"

    def _type_params(self):
        for a in self.fn.args.args + self.fn.args.kwonlyargs:
            if a.arg == "self":
                continue
            self.env[a.arg] = self._ann_type(a.annotation)

    RETURN_TYPES = {"NamedGlob": "NamedGlob", "Step": "Step", "File": "File", "None": "scalar", "str": "scalar",
                    "int": "scalar", "bool": "scalar", "float": "scalar"}

    def _module_func_result(self, name):
        fn = self.module_funcs[name]
        ann = ast.unparse(fn.returns) if fn.returns is not None else None
        if ann is None:
            raise TranslatorError(f"{self.name}: module function {name} has no return annotation")
        if ann in self.RETURN_TYPES:
            return self.RETURN_TYPES[ann]
        ty = self._ann_type(fn.returns)
        if ty == "scalar":
            raise TranslatorError(f"{self.name}: cannot type the result of module function {name} -> {ann}")
        return ty

    def _inline(self, name, c: ast.Call):
        """Translate a call of a module-level function of director.py by scanning its body in place."""
        fn = self.module_funcs[name]
        if name in self.inlining or len(self.inlining) > 4:
            raise TranslatorError(f"{self.name}: recursive module function {name}")
        if fn.decorator_list or fn.args.vararg or fn.args.kwarg or fn.args.posonlyargs:
            raise TranslatorError(f"{self.name}: module function {name} has an unsupported signature")
        for x in ast.walk(fn):
            if isinstance(x, (ast.Await, ast.AsyncWith, ast.AsyncFor, ast.Global, ast.Nonlocal, ast.Yield, ast.YieldFrom,
                              ast.Lambda, ast.Try, ast.ClassDef)) or \
                    (isinstance(x, (ast.FunctionDef, ast.AsyncFunctionDef)) and x is not fn):
                raise TranslatorError(f"{self.name}: module function {name} contains {type(x).__name__}")
            if isinstance(x, ast.Name) and x.id == "self":
                raise TranslatorError(f"{self.name}: module function {name} refers to self")
        saved = self.env
        self.env = {a.arg: self._ann_type(a.annotation) for a in fn.args.args + fn.args.kwonlyargs}
        self.inlining.append(name)
        try:
            self.stmts(body_without_docstring(fn))
        finally:
            self.inlining.pop()
            self.env = saved

    def _bind(self, target, value):
        src = None
        if isinstance(target, ast.Attribute):
            d = dotted(target)
            if d not in ALLOWED_STORES:
                raise TranslatorError(f"{self.name}: store to unclassified attribute {d}")
            self.cur.append(("store", d))
            return
        if isinstance(value, ast.Await):
            value = value.value
        if isinstance(value, ast.Call):
            src = dotted(value.func)
            if src == "self.workflow.find":
                if value.args and isinstance(value.args[0], ast.Name) and value.args[0].id == "File":
                    ty = "File"
                else:
                    raise TranslatorError(f"{self.name}: self.workflow.find of an unknown node class")
            elif src == "Path" and isinstance(target, ast.Name):
                ty = "PathObj"
            elif src == "Path(path).normpath" or (isinstance(value.func, ast.Attribute)
                                                  and value.func.attr == "normpath"):
                ty = "PathObj"
            elif src in SOURCE_TYPES:
                ty = SOURCE_TYPES[src]
            elif src in self.module_funcs:
                ty = self._module_func_result(src)
            elif src in ("len",) or (src or "").endswith((".time", "get_running_loop")):
                ty = "scalar"
            else:
                raise TranslatorError(f"{self.name}: cannot type the result of {src or ast.unparse(value)[:40]}")
        elif isinstance(value, ast.Dict):
            ty = "dict"
        elif isinstance(value, (ast.Constant, ast.BoolOp, ast.Compare, ast.BinOp, ast.JoinedStr)):
            ty = "scalar"
        elif isinstance(value, ast.Attribute) and dotted(value) in ("self._next_step_signal",):
            ty = "scalar"
        elif isinstance(value, ast.List):
            ty = "list"
        else:
            raise TranslatorError(f"{self.name}: unrecognised assignment source {ast.unparse(value)[:60]}")
        if isinstance(target, ast.Name):
            if isinstance(ty, tuple):
                raise TranslatorError(f"{self.name}: tuple result bound to one name")
            self.env[target.id] = ty
        elif isinstance(target, ast.Tuple) and isinstance(ty, tuple) and len(ty) == len(target.elts) \
                and all(isinstance(e, ast.Name) for e in target.elts):
            for e, t in zip(target.elts, ty):
                self.env[e.id] = t
        elif isinstance(target, ast.Attribute):
            d = dotted(target)
            if d not in ALLOWED_STORES:
                raise TranslatorError(f"{self.name}: store to unclassified attribute {d}")
            self.cur.append(("store", d))
        else:
            raise TranslatorError(f"{self.name}: unrecognised assignment target {ast.unparse(target)}")

    # -- segments ---------------------------------------------------------------------------------
    def _flush(self, kind):
        if kind == "block" or self.cur:
            self.segs.append((kind, self.cur))
        self.cur = []

    # -- statements -------------------------------------------------------------------------------
    def stmts(self, body):
        for s in body:
            self.stmt(s)

    def stmt(self, s):
        if isinstance(s, ast.AsyncWith):
            if len(s.items) != 1 or s.items[0].optional_vars is not None:
                raise TranslatorError(f"{self.name}: unrecognised `async with` shape")
            d = dotted(s.items[0].context_expr)
            if d != "self.db":
                raise TranslatorError(f"{self.name}: `async with {ast.unparse(s.items[0].context_expr)}` is not self.db")
            if self.in_block:
                raise TranslatorError(f"{self.name}: nested `async with self.db`")
            self._flush("out")
            self.in_block = True
            self.stmts(s.body)
            self.in_block = False
            self._flush("block")
        elif isinstance(s, ast.With):
            for it in s.items:
                self.expr(it.context_expr)
                if it.optional_vars is not None:
                    if isinstance(it.context_expr, ast.Call) and dotted(it.context_expr.func) == "open":
                        self.env[it.optional_vars.id] = "scalar"
                    else:
                        self._bind(it.optional_vars, it.context_expr)
            self.stmts(s.body)
        elif isinstance(s, ast.Assign):
            if len(s.targets) != 1:
                raise TranslatorError(f"{self.name}: chained assignment")
            self.expr(s.value)
            self._bind(s.targets[0], s.value)
        elif isinstance(s, ast.Expr):
            self.expr(s.value)
        elif isinstance(s, ast.Return):
            if s.value is not None:
                self.expr(s.value)
        elif isinstance(s, ast.If):
            self.expr(s.test)
            self.stmts(s.body)
            self.stmts(s.orelse)
        elif isinstance(s, ast.While):
            self.expr(s.test)
            self.stmts(s.body)
            if s.orelse:
                raise TranslatorError(f"{self.name}: while/else")
        elif isinstance(s, ast.For):
            self.expr(s.iter)
            self._bind_loop(s.target, s.iter)
            self.stmts(s.body)
            if s.orelse:
                raise TranslatorError(f"{self.name}: for/else")
        elif isinstance(s, (ast.Pass, ast.Break, ast.Continue)):
            pass
        else:
            raise TranslatorError(f"{self.name}: unrecognised statement {type(s).__name__} at line {s.lineno}")

    def _bind_loop(self, target, it):
        names = [target] if isinstance(target, ast.Name) else list(getattr(target, "elts", []))
        if not names or not all(isinstance(n, ast.Name) for n in names):
            raise TranslatorError(f"{self.name}: unrecognised loop target")
        ty = "scalar"
        if isinstance(it, ast.Call) and dotted(it.func) == "self.workflow.steps":
            ty = "Step"
        for n in names:
            self.env[n.id] = ty if len(names) == 1 else "scalar"

    # -- expressions ------------------------------------------------------------------------------
    def expr(self, e):
        if isinstance(e, ast.Await):
            inner = e.value
            if not isinstance(inner, ast.Call):
                raise TranslatorError(f"{self.name}: await of a non-call")
            what = dotted(inner.func)
            if what is None:
                raise TranslatorError(f"{self.name}: await of an unnamed callable")
            self.cur.append(("await", what))
            self.call(inner)
            return
        if isinstance(e, ast.Call):
            self.call(e)
            return
        if isinstance(e, (ast.Lambda, ast.NamedExpr, ast.Yield, ast.YieldFrom)):
            raise TranslatorError(f"{self.name}: unrecognised expression {type(e).__name__}")
        if isinstance(e, (ast.GeneratorExp, ast.ListComp, ast.SetComp, ast.DictComp)):
            for g in e.generators:
                self.expr(g.iter)
                for n in ast.walk(g.target):
                    if isinstance(n, ast.Name):
                        self.env[n.id] = "scalar"
                for c in g.ifs:
                    self.expr(c)
            for part in ([e.elt] if hasattr(e, "elt") else [e.key, e.value]):
                self.expr(part)
            return
        for child in ast.iter_child_nodes(e):
            if isinstance(child, ast.expr):
                self.expr(child)
            elif isinstance(child, (ast.keyword,)):
                self.expr(child.value)
            elif isinstance(child, ast.FormattedValue):
                self.expr(child.value)

    def call(self, c: ast.Call):
        f = c.func
        cls = None
        recv = meth = None
        if isinstance(f, ast.Name):
            recv, meth = "", f.id
            if f.id in PURE_NAMES:
                cls = "CPure"
            elif f.id in AWAITABLE_NAMES:
                cls = AWAITABLE_NAMES[f.id]
            elif f.id in self.module_funcs:
                # the arguments are evaluated first, then the body runs where the call stands
                for a in c.args:
                    self.expr(a.value if isinstance(a, ast.Starred) else a)
                for k in c.keywords:
                    self.expr(k.value)
                self._inline(f.id, c)
                return
            else:
                raise TranslatorError(f"{self.name}: call of unclassified function {f.id}")
        elif isinstance(f, ast.Attribute):
            meth = f.attr
            base = dotted(f.value)
            if base is None:
                # method on the result of a call, e.g. Path(path).normpath()
                if isinstance(f.value, ast.Call) and dotted(f.value.func) == "Path":
                    recv, cls = "PathObj", TYPED_CALLS.get(("PathObj", meth))
                    self.call(f.value)
                if cls is None:
                    raise TranslatorError(f"{self.name}: call on unnamed receiver: {ast.unparse(f)[:60]}")
            elif base == "self" and meth in self.methods:
                recv, cls = "self", "CHelper"
                self.helpers.add(meth)
            elif base == "self" or base.startswith("self."):
                recv = base
                cls = FIELD_CALLS.get((base, meth))
                if cls is None:
                    raise TranslatorError(f"{self.name}: unclassified call {base}.{meth}")
            else:
                root = base.split(".")[0]
                ty = self.env.get(root)
                if ty is None or "." in base:
                    raise TranslatorError(f"{self.name}: call on untyped local {base}.{meth}")
                if ty in ("scalar",):
                    raise TranslatorError(f"{self.name}: method {meth} on local {base} of type {ty}")
                recv = str(ty)
                cls = TYPED_CALLS.get((recv, meth))
                if cls is None:
                    raise TranslatorError(f"{self.name}: unclassified method {recv}.{meth}")
        else:
            raise TranslatorError(f"{self.name}: unrecognised callee {ast.unparse(f)[:60]}")
        self.cur.append(("call", recv, meth, cls))
        for a in c.args:
            self.expr(a.value if isinstance(a, ast.Starred) else a)
        for k in c.keywords:
            self.expr(k.value)


def scan_director():
    tree = parse_module(f"{CORE}/director.py")
    cls = None
    for node in tree.body:
        if isinstance(node, ast.ClassDef) and node.name == "DirectorHandler":
            cls = node
    if cls is None:
        raise TranslatorError("class DirectorHandler not found")
    methods = {}
    rpc = set()
    for node in cls.body:
        if isinstance(node, (ast.FunctionDef, ast.AsyncFunctionDef)):
            for d in node.decorator_list:
                dn = dotted(d)
                if dn == "allow_rpc":
                    rpc.add(node.name)
                else:
                    raise TranslatorError(f"DirectorHandler.{node.name}: unrecognised decorator {ast.unparse(d)}")
            if node.name in methods:
                raise TranslatorError(f"DirectorHandler.{node.name} defined twice")
            methods[node.name] = node
    if not rpc:
        raise TranslatorError("no @allow_rpc method found")
    # any other class in the module exposing RPC methods would escape the analysis
    for node in ast.walk(tree):
        if isinstance(node, (ast.FunctionDef, ast.AsyncFunctionDef)) and node.name not in methods:
            for d in node.decorator_list:
                if dotted(d) == "allow_rpc":
                    raise TranslatorError(f"@allow_rpc outside DirectorHandler: {node.name}")
    module_funcs = {node.name: node for node in tree.body
                    if isinstance(node, ast.FunctionDef) and node.name not in PURE_NAMES
                    and node.name not in AWAITABLE_NAMES}
    scans = {}
    todo = sorted(rpc)
    while todo:
        n = todo.pop(0)
        if n in scans:
            continue
        sc = HandlerScan(set(methods), methods[n], module_funcs)
        scans[n] = sc
        todo += sorted(sc.helpers - set(scans))
    # methods not reachable from an RPC entry point: must not touch the workflow or the database
    for n, fn in methods.items():
        if n in scans:
            continue
        for x in ast.walk(fn):
            if isinstance(x, ast.AsyncWith):
                raise TranslatorError(f"DirectorHandler.{n}: `async with` in a method outside the RPC closure")
            if isinstance(x, ast.Attribute) and dotted(x) in ("self.workflow", "self.db"):
                raise TranslatorError(f"DirectorHandler.{n}: touches {dotted(x)} outside the RPC closure")
    order = [n for n in methods if n in scans]
    return [(n, n in rpc, scans[n].segs) for n in order]


# ---------------------------------------------------------------------------------------------
# DBSession: begin / commit / rollback decision structure
# ---------------------------------------------------------------------------------------------


def _is_call(stmt, name):
    return (isinstance(stmt, ast.Expr) and isinstance(stmt.value, ast.Call)
            and dotted(stmt.value.func) == name)


def _awaits(fn):
    return [n for n in ast.walk(fn) if isinstance(n, (ast.Await, ast.AsyncFor, ast.AsyncWith))]


def scan_dbsession():
    tree = parse_module(f"{CORE}/sqlite3.py")
    facts = {}
    # __aexit__
    fn = find_function(tree, "__aexit__", "DBSession")
    body = body_without_docstring(fn)
    if _awaits(fn):
        raise TranslatorError("DBSession.__aexit__ awaits (a yield point between commit and release)")
    ok = (len(body) == 1 and isinstance(body[0], ast.Try) and not body[0].handlers and not body[0].orelse
          and len(body[0].finalbody) == 1 and _is_call(body[0].finalbody[0], "self._release"))
    if not ok:
        raise TranslatorError("DBSession.__aexit__: not `try: ... finally: self._release()`")
    tb = body[0].body
    ok = (len(tb) == 2 and isinstance(tb[0], ast.Assign) and isinstance(tb[0].value, ast.Call)
          and dotted(tb[0].value.func) == "self._require_transaction_con" and isinstance(tb[1], ast.If))
    if not ok:
        raise TranslatorError("DBSession.__aexit__: try body is not `con = ...; if exc is None: ... else: ...`")
    con = tb[0].targets[0].id
    test = tb[1].test
    ok = (isinstance(test, ast.Compare) and dotted(test.left) == "exc" and len(test.ops) == 1
          and isinstance(test.ops[0], ast.Is) and isinstance(test.comparators[0], ast.Constant)
          and test.comparators[0].value is None)
    if not ok or [a.arg for a in fn.args.args] != ["self", "exc_type", "exc", "tb"]:
        raise TranslatorError("DBSession.__aexit__: decision is not `if exc is None`")

    def actions(stmts):
        out = []
        for s in stmts:
            if _is_call(s, f"{con}.commit"):
                out.append("AxCommit")
            elif _is_call(s, f"{con}.rollback"):
                out.append("AxRollback")
            elif (isinstance(s, ast.If) and isinstance(s.test, ast.UnaryOp) and isinstance(s.test.op, ast.Not)
                  and dotted(s.test.operand) == f"{con}.in_transaction" and len(s.body) == 1
                  and isinstance(s.body[0], ast.Raise) and not s.orelse):
                out.append("AxCheckOpen")
            else:
                raise TranslatorError(f"DBSession.__aexit__: unrecognised statement {ast.unparse(s)[:60]}")
        return out

    facts["aexit_ok"] = ["AxRequireHolder"] + actions(tb[1].body)
    facts["aexit_exc"] = ["AxRequireHolder"] + actions(tb[1].orelse)
    facts["aexit_finally"] = ["AxRelease"]
    # __aenter__
    fn = find_function(tree, "__aenter__", "DBSession")
    body = body_without_docstring(fn)
    aw = _awaits(fn)
    ok = (len(body) == 2 and isinstance(body[0], ast.Assign) and isinstance(body[0].value, ast.Await)
          and isinstance(body[0].value.value, ast.Call) and dotted(body[0].value.value.func) == "self._acquire"
          and len(aw) == 1 and isinstance(body[1], ast.Try))
    if not ok:
        raise TranslatorError("DBSession.__aenter__: not `con = await self._acquire(...); try: ...`")
    kw = {k.arg: k.value for k in body[0].value.value.keywords}
    if not (set(kw) == {"opened_transaction"} and isinstance(kw["opened_transaction"], ast.Constant)
            and kw["opened_transaction"].value is True):
        raise TranslatorError("DBSession.__aenter__: _acquire not called with opened_transaction=True")
    tr = body[1]
    first = tr.body[0] if tr.body else None
    ok = (_is_call(first, "con.execute") and len(first.value.args) == 1
          and isinstance(first.value.args[0], ast.Constant))
    if not ok:
        raise TranslatorError("DBSession.__aenter__: first statement after acquire is not con.execute(<literal>)")
    facts["begin_sql"] = first.value.args[0].value
    if not facts["begin_sql"].upper().startswith("BEGIN"):
        raise TranslatorError(f"DBSession.__aenter__: does not BEGIN a transaction: {facts['begin_sql']!r}")
    ok = (len(tr.handlers) == 1 and dotted(tr.handlers[0].type) == "Exception"
          and len(tr.handlers[0].body) == 2 and _is_call(tr.handlers[0].body[0], "self._release")
          and isinstance(tr.handlers[0].body[1], ast.Raise) and not tr.finalbody)
    if not ok:
        raise TranslatorError("DBSession.__aenter__: failure path is not `except Exception: self._release(); raise`")
    # _acquire: one await (the lock), holder recorded after it; nested use by the holder raises
    fn = find_function(tree, "_acquire", "DBSession")
    aw = _awaits(fn)
    ok = (len(aw) == 1 and isinstance(aw[0], ast.Await) and isinstance(aw[0].value, ast.Call)
          and dotted(aw[0].value.func) == "self._lock.acquire")
    if not ok:
        raise TranslatorError("DBSession._acquire: the only await must be self._lock.acquire()")
    sets_held = [n for n in ast.walk(fn) if isinstance(n, ast.Assign) and dotted(n.targets[0]) == "self._held"]
    if len(sets_held) != 1 or sets_held[0].lineno < aw[0].lineno:
        raise TranslatorError("DBSession._acquire: self._held must be set exactly once, after the lock is taken")
    fn = find_function(tree, "_release", "DBSession")
    body = body_without_docstring(fn)
    ok = (len(body) == 2 and isinstance(body[0], ast.Assign) and dotted(body[0].targets[0]) == "self._held"
          and isinstance(body[0].value, ast.Constant) and body[0].value.value is None
          and _is_call(body[1], "self._lock.release"))
    if not ok:
        raise TranslatorError("DBSession._release: not `self._held = None; self._lock.release()`")
    # the lock is an asyncio.Lock
    cls = next(n for n in tree.body if isinstance(n, ast.ClassDef) and n.name == "DBSession")
    lock_ok = False
    for n in cls.body:
        if isinstance(n, ast.AnnAssign) and dotted(n.target) == "_lock":
            kws = {k.arg: k.value for k in n.value.keywords} if isinstance(n.value, ast.Call) else {}
            lock_ok = dotted(kws.get("factory")) == "asyncio.Lock"
    if not lock_ok:
        raise TranslatorError("DBSession._lock is not attrs.field(factory=asyncio.Lock)")
    # execute/executemany go through _run, which requires the calling task to hold the transaction
    fn = find_function(tree, "_run", "DBSession")
    body = body_without_docstring(fn)
    ok = (isinstance(body[0], ast.Assign) and isinstance(body[0].value, ast.Call)
          and dotted(body[0].value.func) == "self._require_transaction_con")
    if not ok:
        raise TranslatorError("DBSession._run does not start with _require_transaction_con()")
    for name in ("execute", "executemany"):
        fn = find_function(tree, name, "DBSession")
        body = body_without_docstring(fn)
        ok = (len(body) == 1 and isinstance(body[0], ast.Return) and isinstance(body[0].value, ast.Call)
              and dotted(body[0].value.func) == "self._run")
        if not ok:
            raise TranslatorError(f"DBSession.{name} is not `return self._run(...)`")
    fn = find_function(tree, "_require_transaction_con", "DBSession")
    txt = ast.unparse(fn)
    for needle in ("held is None", "held.task is not asyncio.current_task()", "not held.opened_transaction", "raise RuntimeError"):
        if needle not in txt:
            raise TranslatorError(f"DBSession._require_transaction_con: missing `{needle}`")
    facts["access_requires_holder"] = True
    return facts


# ---------------------------------------------------------------------------------------------
# rpc.py: what a disconnect / a failing loop does to in-flight handler tasks
# ---------------------------------------------------------------------------------------------


def scan_rpc():
    tree = parse_module(f"{CORE}/rpc.py")
    facts = {}
    # _recv_stream_message: peer gone (EOF / reset) -> return None
    fn = find_function(tree, "_recv_stream_message")
    tries = [n for n in body_without_docstring(fn) if isinstance(n, ast.Try)]
    ok = len(tries) == 1 and len(tries[0].handlers) == 1
    caught = set()
    if ok:
        h = tries[0].handlers[0]
        elts = h.type.elts if isinstance(h.type, ast.Tuple) else [h.type]
        caught = {dotted(e) for e in elts}
        ok = (len(h.body) == 1 and isinstance(h.body[0], ast.Return)
              and isinstance(h.body[0].value, ast.Constant) and h.body[0].value.value is None)
    if not ok:
        raise TranslatorError("_recv_stream_message: not a single try whose handler returns None")
    facts["peer_gone_caught"] = sorted(caught)
    eof_quiet = {"asyncio.IncompleteReadError", "ConnectionError"} <= caught
    # _iter_stream_messages: None -> set stop event, plain return
    fn = find_function(tree, "_iter_stream_messages")
    found = False
    for n in ast.walk(fn):
        if (isinstance(n, ast.If) and isinstance(n.test, ast.Compare) and dotted(n.test.left) == "message"
                and isinstance(n.test.ops[0], ast.Is) and isinstance(n.test.comparators[0], ast.Constant)
                and n.test.comparators[0].value is None):
            found = (len(n.body) == 2 and _is_call(n.body[0], "stop_event.set")
                     and isinstance(n.body[1], ast.Return) and n.body[1].value is None)
    if not found:
        raise TranslatorError("_iter_stream_messages: `if message is None: stop_event.set(); return` not found")
    # RPCServerConnection
    cls = next((n for n in tree.body if isinstance(n, ast.ClassDef) and n.name == "RPCServerConnection"), None)
    if cls is None:
        raise TranslatorError("class RPCServerConnection not found")
    fn = find_function(cls, "_recv_loop")
    body = body_without_docstring(fn)
    if not (len(body) == 1 and isinstance(body[0], ast.Try)):
        raise TranslatorError("_recv_loop: body is not one try statement")
    tr = body[0]
    # handler tasks are created from complete requests only
    creates = [n for n in ast.walk(ast.Module(body=tr.body, type_ignores=[])) if isinstance(n, ast.Call)
               and dotted(n.func) == "asyncio.create_task"]
    ok = (len(creates) == 1 and isinstance(creates[0].args[0], ast.Call)
          and dotted(creates[0].args[0].func) == "_call_and_capture_failure")
    if not ok:
        raise TranslatorError("_recv_loop: handler task is not create_task(_call_and_capture_failure(...))")
    if not any(_is_call(n, "self._tasks.add") for n in ast.walk(ast.Module(body=tr.body, type_ignores=[]))
               if isinstance(n, ast.Expr)):
        raise TranslatorError("_recv_loop: created task is not registered in self._tasks")
    # except BaseException: cancel in-flight; raise
    cancels_in_except = False
    if len(tr.handlers) > 1:
        raise TranslatorError("_recv_loop: more than one except clause")
    if tr.handlers:
        h = tr.handlers[0]
        if dotted(h.type) != "BaseException" or not isinstance(h.body[-1], ast.Raise):
            raise TranslatorError("_recv_loop: except clause is not `except BaseException: ...; raise`")
        cancels_in_except = any(isinstance(n, ast.Call) and isinstance(n.func, ast.Attribute)
                                and n.func.attr == "cancel" for n in ast.walk(h))
    # finally: await gather(*self._tasks, return_exceptions=True)
    gathers = False
    for s in tr.finalbody:
        if (isinstance(s, ast.Expr) and isinstance(s.value, ast.Await) and isinstance(s.value.value, ast.Call)
                and dotted(s.value.value.func) == "asyncio.gather"):
            c = s.value.value
            star = [a for a in c.args if isinstance(a, ast.Starred) and dotted(a.value) == "self._tasks"]
            kw = {k.arg: k.value for k in c.keywords}
            gathers = bool(star) and isinstance(kw.get("return_exceptions"), ast.Constant) \
                and kw["return_exceptions"].value is True
    # cancel() anywhere else in the class (normal path of _recv_loop, stop(), serve(), _send_loop, ...)
    cancel_elsewhere = []
    for m in cls.body:
        if not isinstance(m, (ast.FunctionDef, ast.AsyncFunctionDef)):
            continue
        for n in ast.walk(m):
            if isinstance(n, ast.Call) and isinstance(n.func, ast.Attribute) and n.func.attr == "cancel":
                inside = tr.handlers and any(n is x for x in ast.walk(tr.handlers[0]))
                if not inside:
                    cancel_elsewhere.append(m.name)
    # stop(): only sets the stop event
    fn = find_function(cls, "stop")
    sb = body_without_docstring(fn)
    stop_plain = len(sb) == 1 and _is_call(sb[0], "self._stop_event.set")
    # _send_loop: ConnectionError -> set stop event, return (no raise -> TaskGroup does not cancel recv)
    fn = find_function(cls, "_send_loop")
    send_quiet = False
    for n in ast.walk(fn):
        if isinstance(n, ast.ExceptHandler) and dotted(n.type) == "ConnectionError" \
                and len(n.body) == 2 and _is_call(n.body[0], "self._stop_event.set") \
                and isinstance(n.body[1], ast.Return):
            send_quiet = True
    # _call_and_capture_failure: try: return await _call_procedure(...) except BaseException: ... return failure
    fn = find_function(tree, "_call_and_capture_failure")
    body = body_without_docstring(fn)
    ok = (len(body) == 1 and isinstance(body[0], ast.Try) and len(body[0].handlers) == 1
          and dotted(body[0].handlers[0].type) == "BaseException"
          and isinstance(body[0].handlers[0].body[-1], ast.Return)
          and not any(isinstance(n, ast.Raise) for n in ast.walk(body[0].handlers[0])))
    if not ok:
        raise TranslatorError("_call_and_capture_failure: shape changed")
    facts["peer_gone_cancels_inflight"] = (not (eof_quiet and send_quiet)) and cancels_in_except \
        or bool(cancel_elsewhere)
    facts["loop_failure_cancels_inflight"] = cancels_in_except
    facts["stop_cancels_inflight"] = (not stop_plain) or bool(cancel_elsewhere)
    facts["teardown_gathers_inflight"] = gathers
    facts["cancel_elsewhere"] = cancel_elsewhere
    return facts


# ---------------------------------------------------------------------------------------------


SCRATCH_TABLES = ("path_list", "node_list")


def scan_scratch_tables():
    """path_list / node_list are pure scratch: every function that touches one clears it first."""
    import re
    from .astutil import REPO, functions_with_parents
    for path in sorted((REPO / CORE).glob("*.py")):
        tree = parse_module(f"{CORE}/{path.name}")
        for qual, fn in functions_with_parents(tree):
            consts = [n for n in ast.walk(fn) if isinstance(n, ast.Constant) and isinstance(n.value, str)]
            consts.sort(key=lambda n: (n.lineno, n.col_offset))
            for tbl in SCRATCH_TABLES:
                uses = [n.value for n in consts if re.search(rf"\b{tbl}\b", n.value) and len(n.value) < 400
                        and re.search(r"\b(FROM|INTO|JOIN|UPDATE)\b", n.value)]
                if uses and not re.match(rf"\s*DELETE FROM {tbl}\s*$", uses[0]):
                    raise TranslatorError(f"{path.name}:{qual}: uses scratch table {tbl} without clearing it first")
    return list(SCRATCH_TABLES)


# ---------------------------------------------------------------------------------------------
# Tolerant pre-scan used by the search: never raises
# ---------------------------------------------------------------------------------------------

MUTATING_WORKFLOW_FUNCS = ("register_static_tree", "declare_static_files", "register_nglob", "define_step",
                           "amend_step", "_supply_files", "_resolve_supply_file", "_declare_file",
                           "_check_declaration", "_raise_if_glob_match", "_hashes_to_check")


def _int_literals(fn, module_consts):
    out = set()
    for n in ast.walk(fn):
        if isinstance(n, ast.Constant) and isinstance(n.value, int) and not isinstance(n.value, bool) \
                and 16 <= n.value <= 100000:
            out.add(n.value)
        if isinstance(n, ast.Name) and n.id in module_consts:
            out.add(module_consts[n.id])
        if isinstance(n, ast.Attribute) and n.attr in module_consts:
            out.add(module_consts[n.attr])
    return out


def _module_int_consts(tree):
    consts = {}
    for n in ast.walk(tree):
        tgt = val = None
        if isinstance(n, ast.Assign) and len(n.targets) == 1:
            tgt, val = n.targets[0], n.value
        elif isinstance(n, ast.AnnAssign) and n.value is not None:
            tgt, val = n.target, n.value
        name = tgt.id if isinstance(tgt, ast.Name) else (tgt.attr if isinstance(tgt, ast.Attribute) else None)
        if name and isinstance(val, ast.Constant) and isinstance(val.value, int) \
                and not isinstance(val.value, bool) and 16 <= val.value <= 100000:
            consts[name] = val.value
    return consts


def diagnose():
    """Facts for the failing-input search, gathered without failing closed:
    boundaries  integer literals >= 16 seen in the RPC handlers (and the constants they name) and in the
                mutating Workflow methods they call
    suspects    handlers on which the strict scan raises
    multi_block handlers with more than one `async with` statement"""
    res = {"boundaries": {}, "suspects": {}, "multi_block": {}}
    try:
        tree = parse_module(f"{CORE}/director.py")
        consts = _module_int_consts(tree)
        cls = next(n for n in tree.body if isinstance(n, ast.ClassDef) and n.name == "DirectorHandler")
        methods = {n.name: n for n in cls.body if isinstance(n, (ast.FunctionDef, ast.AsyncFunctionDef))}
        module_funcs = {n.name: n for n in tree.body if isinstance(n, ast.FunctionDef)
                        and n.name not in PURE_NAMES and n.name not in AWAITABLE_NAMES}
        for name, fn in methods.items():
            lits = _int_literals(fn, consts)
            if lits:
                res["boundaries"][name] = sorted(lits)
            nblocks = sum(isinstance(n, ast.AsyncWith) for n in ast.walk(fn))
            if nblocks > 1:
                res["multi_block"][name] = nblocks
            if any(dotted(d) == "allow_rpc" for d in fn.decorator_list):
                try:
                    HandlerScan(set(methods), fn, module_funcs)
                except TranslatorError as e:
                    res["suspects"][name] = str(e)
                except Exception as e:  # noqa: BLE001
                    res["suspects"][name] = f"{type(e).__name__}: {e}"
    except Exception as e:  # noqa: BLE001
        res["error"] = f"{type(e).__name__}: {e}"
    try:
        tree = parse_module(f"{CORE}/workflow.py")
        consts = _module_int_consts(tree)
        for n in ast.walk(tree):
            if isinstance(n, (ast.FunctionDef, ast.AsyncFunctionDef)) and n.name in MUTATING_WORKFLOW_FUNCS:
                lits = _int_literals(n, consts)
                if lits:
                    res["boundaries"]["workflow." + n.name] = sorted(lits)
    except Exception as e:  # noqa: BLE001
        res["error_workflow"] = f"{type(e).__name__}: {e}"
    return res


def coq_item(it):
    if it[0] == "call":
        _, recv, meth, cls = it
        return f"ICall {coq_string(recv)} {coq_string(meth)} {cls}"
    if it[0] == "await":
        return f"IAwait {coq_string(it[1])}"
    if it[0] == "store":
        return f"IStore {coq_string(it[1])}"
    raise TranslatorError(f"bad item {it!r}")


def generate():
    handlers = scan_director()
    dbf = scan_dbsession()
    rpcf = scan_rpc()
    scratch = scan_scratch_tables()
    b = lambda x: "true" if x else "false"  # noqa: E731
    L = [
        "(* GENERATED by translator/gen_structure.py from /repo -- do not edit *)",
        "From Coq Require Import List String.",
        "Import ListNotations.",
        "Open Scope string_scope.",
        "",
        "(* classification of a call (tables in translator/gen_structure.py) *)",
        "Inductive cclass := CMut | CRead | CMem | CSepTxn | CPure | CHelper.",
        "Inductive item :=",
        "| ICall (recv meth : string) (c : cclass)",
        "| IAwait (what : string)",
        "| IStore (target : string).",
        "(* SBlock = the body of one `async with self.db:`; SOut = code between blocks *)",
        "Inductive seg := SOut (its : list item) | SBlock (its : list item).",
        "Record handler := { h_name : string; h_rpc : bool; h_segs : list seg }.",
        "",
        "(* director.py: every @allow_rpc method of DirectorHandler and the helpers they call *)",
        "Definition handlers : list handler := [",
    ]
    hs = []
    for name, is_rpc, segs in handlers:
        ss = []
        for kind, items in segs:
            ctor = "SBlock" if kind == "block" else "SOut"
            ss.append(f"      {ctor} [" + ";\n        ".join(coq_item(i) for i in items) + "]")
        hs.append(f"  {{| h_name := {coq_string(name)}; h_rpc := {b(is_rpc)}; h_segs := [\n" + ";\n".join(ss) + "] |}")
    L.append(";\n".join(hs))
    L += [
        "].",
        "",
        "(* sqlite3.py: DBSession.__aenter__ / __aexit__ *)",
        "Inductive axn := AxRequireHolder | AxCheckOpen | AxCommit | AxRollback | AxRelease.",
        f"(* __aenter__: await self._acquire(opened_transaction=True) [one await: self._lock.acquire()], then {dbf['begin_sql']!r} *)",
        f"Definition begin_sql : string := {coq_string(dbf['begin_sql'])}.",
        "(* __aexit__: try: con = self._require_transaction_con(); if exc is None: <aexit_ok> else: <aexit_exc>",
        "              finally: <aexit_finally>; the method contains no await *)",
        "Definition aexit_ok : list axn := [" + "; ".join(dbf["aexit_ok"]) + "].",
        "Definition aexit_exc : list axn := [" + "; ".join(dbf["aexit_exc"]) + "].",
        "Definition aexit_finally : list axn := [" + "; ".join(dbf["aexit_finally"]) + "].",
        "(* execute()/executemany() -> _run -> _require_transaction_con: only the holding task *)",
        f"Definition access_requires_holder : bool := {b(dbf['access_requires_holder'])}.",
        "",
        "(* rpc.py: RPCServerConnection teardown *)",
        f"(* _recv_stream_message returns None on {', '.join(rpcf['peer_gone_caught'])}; _iter_stream_messages",
        "   then sets the stop event and returns; _send_loop on ConnectionError sets it and returns *)",
        f"Definition peer_gone_cancels_inflight : bool := {b(rpcf['peer_gone_cancels_inflight'])}.",
        "(* _recv_loop: except BaseException: for task in list(self._tasks): task.cancel(); raise *)",
        f"Definition loop_failure_cancels_inflight : bool := {b(rpcf['loop_failure_cancels_inflight'])}.",
        "(* RPCServerConnection.stop() only sets the stop event *)",
        f"Definition stop_cancels_inflight : bool := {b(rpcf['stop_cancels_inflight'])}.",
        "(* _recv_loop: finally: await asyncio.gather( *self._tasks, return_exceptions=True) *)",
        f"Definition teardown_gathers_inflight : bool := {b(rpcf['teardown_gathers_inflight'])}.",
        "",
    ]
    L += ["(* temp tables that every user clears before use (checked by the translator): " + ", ".join(scratch) + " *)", ""]
    facts = {"scratch_tables": scratch, "handlers": [(n, r, [(k, len(i)) for k, i in s]) for n, r, s in handlers], "db": dbf, "rpc": rpcf}
    return "\n".join(L), facts


if __name__ == "__main__":
    print(generate()[0])
