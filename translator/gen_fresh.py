"""Translator for C03: the decision logic of the freshness / availability machinery.

Re-reads /repo on every run and writes coq/gen/GenFresh.v (definitions only):

* Scheduler.record_run_started / record_run_stopped / ran_concurrently as Gallina functions over
  lib/StampMap.v (the comparison operators are taken from the AST);
* _SupplyInfo.availability, the per-input loop body of Workflow.amend_step, the tail of
  DirectorHandler.amend_step (second read-only block, carry_on, defer), Executor.defer;
* Executor._classify_execution and Step.mark_completed (branch structure, statement by statement);
* the per-input loop body of Scheduler._derive_job (sanity branches);
* UNAVAILABLE_INPUT_WHERE parsed into a boolean expression;
* the state filter of Executor._compute_full_step_hash;
* skeleton facts about execute_job / _new_run / _finalize_failed_run / pop_next_job / compute_inp_hashes
  (exact statement skeletons compared with the ones the hand-written model was reviewed against).

The engine is deliberately small: a function body is translated statement by statement; every simple
statement and every condition must be found (by its `ast.unparse` text, literally or by regex) in the
table given for that function, otherwise TranslatorError (fail closed). Control flow (if / elif /
else / return / continue / raise, statement order) is taken from the AST.
"""

from __future__ import annotations

import ast
import re

from .astutil import TranslatorError, body_without_docstring, find_function, parse_module

CORE = "stepup/core"

CMP = {"<": "CLt", "<=": "CLe", ">": "CGt", ">=": "CGe", "==": "CEq", "!=": "CNe"}


def enum_values():
    from stepup.core.enums import Availability, FileState, HashUpdateCause, StepState
    return {"FileState": {e.name: e.value for e in FileState},
            "StepState": {e.name: e.value for e in StepState},
            "Availability": {e.name: e.value for e in Availability},
            "HashUpdateCause": {e.name: e.value for e in HashUpdateCause}}


class Table:
    """Statement and condition patterns of one function.

    stmts: list of (pattern, replacement). `pattern` is a literal unparse text or a compiled regex;
           `replacement` is a Gallina `let ... in` prefix (str), or a callable(match) -> str, or
           a ("return", expr) tuple for statements that end the function.
    conds: list of (pattern, replacement) giving a Gallina bool expression.
    """

    def __init__(self, name, stmts, conds, final=None, skip_logger=True, inline_db=False, cond_fn=None):
        self.name, self.stmts, self.conds, self.final, self.skip_logger = name, stmts, conds, final, skip_logger
        # inline_db: an `async with self.db:` block is translated as its body (the transaction
        # boundary is not part of the decision); cond_fn: structural translation of a condition,
        # tried before the literal table (returns None when it does not apply).
        self.inline_db, self.cond_fn = inline_db, cond_fn

    def _lookup(self, table, text, what):
        for pat, rep in table:
            if isinstance(pat, str):
                if pat == text:
                    return rep(None) if callable(rep) else rep
            else:
                m = pat.fullmatch(text)
                if m:
                    return rep(m) if callable(rep) else rep
        raise TranslatorError(f"{self.name}: unrecognised {what}: {text[:160]!r}")

    def cond(self, node):
        if self.cond_fn is not None:
            r = self.cond_fn(node)
            if r is not None:
                return r
        return self._lookup(self.conds, ast.unparse(node), "condition")

    def block(self, stmts, k):
        """Gallina term for `stmts` followed by continuation term `k` (None = fall off the end)."""
        if not stmts:
            if k is None:
                if self.final is None:
                    raise TranslatorError(f"{self.name}: control reaches the end of the function")
                return self.final
            return k
        s, rest = stmts[0], stmts[1:]
        if isinstance(s, ast.If):
            kk = self.block(rest, k) if (rest or k is not None or self.final is not None) else None
            c = self.cond(s.test)
            return f"(if {c}\n then {self.block(s.body, kk)}\n else {self.block(s.orelse, kk)})"
        if self.inline_db and isinstance(s, ast.AsyncWith) and len(s.items) == 1 \
                and ast.unparse(s.items[0].context_expr) == "self.db" and s.items[0].optional_vars is None:
            return self.block(list(s.body) + rest, k)
        text = ast.unparse(s)
        if self.skip_logger and isinstance(s, ast.Expr) and re.match(r"logger\.(debug|info|warning)\(", text):
            return self.block(rest, k)
        rep = self._lookup(self.stmts, text, "statement")
        if isinstance(rep, tuple) and rep[0] == "return":
            return rep[1]
        return f"{rep} {self.block(rest, k)}"


def R(p):
    return re.compile(p, re.S)


def fs_in(ev, var):
    """Replacement builder for `X in (FileState.A, FileState.B)` / `not in`."""
    def rep(m):
        names = re.findall(r"FileState\.(\w+)", m.group("set"))
        if not names:
            raise TranslatorError("empty FileState tuple")
        e = " || ".join(f"({var} =? {ev['FileState'][n]})" for n in names)
        return f"({e})"
    return rep


# ---------------------------------------------------------------------------------------------
# scheduler.py
# ---------------------------------------------------------------------------------------------


def gen_scheduler():
    tree = parse_module(f"{CORE}/scheduler.py")
    out = []

    fn = find_function(tree, "record_run_started", "Scheduler")
    if [a.arg for a in fn.args.args] != ["self", "step_i"]:
        raise TranslatorError("record_run_started signature changed")
    t = Table("record_run_started", [
        ("self.run_counter += 1", ""),
        ("self.start_times[step_i] = time.monotonic_ns()", "let starts := sm_set step_i now starts in"),
    ], [], final="(starts, stops)")
    out.append("Definition record_run_started_gen (starts stops : smap) (step_i now : N) : smap * smap :=\n  "
               + t.block(body_without_docstring(fn), None) + ".")

    fn = find_function(tree, "record_run_stopped", "Scheduler")
    if [a.arg for a in fn.args.args] != ["self", "step_i"] or [a.arg for a in fn.args.kwonlyargs] != ["succeeded"]:
        raise TranslatorError("record_run_stopped signature changed")

    def prune_loop(m):
        return f"let stops := sm_drop_if {CMP[m.group('op')]} oldest_start stops in"

    t = Table("record_run_stopped", [
        ("self.start_times.pop(step_i, None)", "let starts := sm_remove step_i starts in"),
        ("self.stop_times[step_i] = time.monotonic_ns()", "let stops := sm_set step_i now stops in"),
        ("self.stop_times.clear()", "let stops := @nil (N * N) in"),
        ("oldest_start = min(self.start_times.values())", "let oldest_start := sm_min starts in"),
        (R(r"for other_step_i, stop_time in list\(self\.stop_times\.items\(\)\):\n"
           r"    if stop_time (?P<op><=|<|>=|>|==|!=) oldest_start:\n"
           r"        del self\.stop_times\[other_step_i\]"), prune_loop),
    ], [
        ("succeeded", "succeeded"),
        ("len(self.start_times) == 0", "sm_is_empty starts"),
    ], final="(starts, stops)")
    out.append("Definition record_run_stopped_gen (starts stops : smap) (step_i now : N) (succeeded : bool)"
               " : smap * smap :=\n  " + t.block(body_without_docstring(fn), None) + ".")

    fn = find_function(tree, "ran_concurrently", "Scheduler")
    if [a.arg for a in fn.args.args] != ["self", "producer_i", "consumer_i"]:
        raise TranslatorError("ran_concurrently signature changed")

    def ran_ret(m):
        a, op, b = m.group("a"), m.group("op"), m.group("b")
        if {a, b} != {"start_time", "stop_time"}:
            raise TranslatorError("ran_concurrently compares something else than start_time and stop_time")
        va = {"start_time": "sc", "stop_time": "tp"}
        return ("return", "match stop_time, start_time with\n  | Some tp, Some sc => "
                f"cmp_eval {CMP[op]} {va[a]} {va[b]}\n  | _, _ => false\n  end")

    t = Table("ran_concurrently", [
        ("stop_time = self.stop_times.get(producer_i)", "let stop_time := sm_get producer_i stops in"),
        ("start_time = self.start_times.get(consumer_i)", "let start_time := sm_get consumer_i starts in"),
        (R(r"return stop_time is not None and start_time is not None and \(?(?P<a>\w+) (?P<op><=|<|>=|>|==|!=) (?P<b>\w+)\)?"),
         ran_ret),
    ], [])
    out.append("Definition ran_concurrently_gen (starts stops : smap) (producer_i consumer_i : N) : bool :=\n  "
               + t.block(body_without_docstring(fn), None) + ".")

    # build_completed clears both maps (last two statements)
    fn = find_function(tree, "build_completed", "Scheduler")
    tail = [ast.unparse(s) for s in body_without_docstring(fn)[-2:]]
    if tail != ["self.start_times.clear()", "self.stop_times.clear()"]:
        raise TranslatorError(f"build_completed no longer ends by clearing both stamp maps: {tail}")
    other = [ast.unparse(s) for s in body_without_docstring(fn)[:-2]]
    if any("start_times" in s or "stop_times" in s for s in other):
        raise TranslatorError("build_completed touches the stamp maps elsewhere")
    out.append("Definition build_completed_clears_stamps : bool := true.")

    # no other writer of the stamp maps in the whole package
    writers = set()
    for path in sorted((parse_module.__globals__["REPO"] / CORE).glob("*.py")):
        mod = parse_module(f"{CORE}/{path.name}")
        for node in ast.walk(mod):
            if isinstance(node, ast.Attribute) and node.attr in ("start_times", "stop_times"):
                fnname = _enclosing_function(mod, node)
                writers.add((path.name, fnname))
    allowed = {("scheduler.py", "record_run_started"), ("scheduler.py", "record_run_stopped"),
               ("scheduler.py", "ran_concurrently"), ("scheduler.py", "build_completed"),
               ("scheduler.py", None)}
    if not writers <= allowed:
        raise TranslatorError(f"start_times/stop_times used outside the modelled functions: {sorted(writers - allowed, key=str)}")

    # pop_next_job: draining guard first
    fn = find_function(tree, "pop_next_job", "Scheduler")
    body = body_without_docstring(fn)
    first = body[0]
    ok = (isinstance(first, ast.If) and ast.unparse(first.test) == "self.draining"
          and isinstance(first.body[-1], ast.Return) and ast.unparse(first.body[-1]) == "return None"
          and not first.orelse)
    if not ok:
        raise TranslatorError("pop_next_job does not start with `if self.draining: ... return None`")
    out.append("Definition pop_returns_none_when_draining : bool := true.")
    # inside the transaction: meta updates, then _get_next_step, _derive_job, set_state
    if not (len(body) == 2 and isinstance(body[1], ast.AsyncWith)):
        raise TranslatorError("pop_next_job: body is not `if draining` + one transaction")
    calls = [ast.unparse(s) for s in body[1].body if not (isinstance(s, ast.Expr) and ast.unparse(s).startswith("logger."))]
    expect = ["self._update_meta_safe()", "self._update_meta_after()", "self._update_meta_ready()",
              "result = self._get_next_step()",
              "if result is None:\n    logger.debug('No runnable steps found')\n    return None",
              "step, state = result", "job = self._derive_job(step)", "step.set_state(state)", "return job"]
    # astutil.parse_module drops log-only statements, so the `if result is None` arm arrives without its
    # logger.debug line; the literal form is still accepted for a tree parsed without that normalisation
    expect_nolog = [c.replace("\n    logger.debug('No runnable steps found')", "") for c in expect]
    if calls != expect and calls != expect_nolog:
        raise TranslatorError(f"pop_next_job transaction skeleton changed: {calls}")
    return out


def _enclosing_function(mod, target):
    best = None
    for node in ast.walk(mod):
        if isinstance(node, (ast.FunctionDef, ast.AsyncFunctionDef)):
            if any(n is target for n in ast.walk(node)):
                if best is None or any(n is node for n in ast.walk(best)):
                    best = node
    return best.name if best is not None else None


def gen_derive_job(ev):
    tree = parse_module(f"{CORE}/scheduler.py")
    fn = find_function(tree, "_derive_job", "Scheduler")
    body = body_without_docstring(fn)
    loops = [s for s in body if isinstance(s, ast.For)]
    if len(loops) != 1:
        raise TranslatorError("_derive_job: expected exactly one loop over the inputs")
    loop = loops[0]
    if ast.unparse(loop.target) != "(path, detached, fs_value, is_dynamic, hash_value)" or ast.unparse(loop.iter) != "cur":
        raise TranslatorError("_derive_job: loop header changed")
    pre = [ast.unparse(s) for s in body[:body.index(loop)]]
    if pre != ["dynamic_inputs_ready = True", "inp_hashes = {}", "cur = self.db.execute(SELECT_INPUTS, (step.i,))"]:
        raise TranslatorError(f"_derive_job: statements before the loop changed: {pre}")
    # SELECT_INPUTS column order
    sel = None
    for node in tree.body:
        if isinstance(node, ast.Assign) and ast.unparse(node.targets[0]) == "SELECT_INPUTS":
            sel = node.value.value
    if sel is None:
        raise TranslatorError("SELECT_INPUTS not found")
    cols = re.sub(r"\s+", " ", sel.split("FROM node JOIN")[0])
    if cols.strip() != ("SELECT node.label, node.detached, file.state, "
                        "EXISTS (SELECT 1 FROM dynamic_dep WHERE dynamic_dep.i = dep.i), file.hash"):
        raise TranslatorError(f"SELECT_INPUTS columns changed: {cols!r}")
    FS = ev["FileState"]
    t = Table("_derive_job.loop", [
        ("file_state = FileState(fs_value)", ""),
        (R(r"raise ConsistencyError\(.*\)"), ("return", "DJ_error")),
        ("inp_hashes[path] = FileHash.from_json(hash_value)", ""),
        ("continue", ("return", "DJ_hash")),
        ("dynamic_inputs_ready = False", ("return", "DJ_not_ready")),
    ], [
        (R(r"file_state == FileState\.(?P<n>\w+)"), lambda m: f"(st =? {FS[m.group('n')]})"),
        (R(r"not detached and file_state in (?P<set>\(.*\))"), lambda m: f"(negb detached && {fs_in(ev, 'st')(m)})"),
        ("is_dynamic", "dynamic"),
    ])
    return ["Inductive dj_result := DJ_hash | DJ_not_ready | DJ_error.",
            "Definition derive_job_input_gen (st : N) (detached dynamic : bool) : dj_result :=\n  "
            + t.block(loop.body, None) + "."]


# ---------------------------------------------------------------------------------------------
# step.py
# ---------------------------------------------------------------------------------------------


class SqlBool:
    """Recursive-descent parser for the boolean fragment used by UNAVAILABLE_INPUT_WHERE."""

    def __init__(self, text, atoms):
        text = re.sub(r"--[^\n]*", " ", text)
        self.toks = re.findall(r"\(|\)|,|=|[A-Za-z_][A-Za-z_0-9.]*|\d+", text)
        if "".join(self.toks) != re.sub(r"\s+", "", text):
            raise TranslatorError("UNAVAILABLE_INPUT_WHERE: unexpected characters")
        self.i, self.atoms = 0, atoms

    def peek(self, k=0):
        return self.toks[self.i + k].upper() if self.i + k < len(self.toks) else None

    def eat(self, t=None):
        tok = self.toks[self.i]
        if t is not None and tok.upper() != t:
            raise TranslatorError(f"SQL: expected {t}, got {tok}")
        self.i += 1
        return tok

    def parse(self):
        e = self.p_or()
        if self.i != len(self.toks):
            raise TranslatorError("SQL: trailing tokens")
        return e

    def p_or(self):
        e = self.p_and()
        while self.peek() == "OR":
            self.eat()
            e = f"({e} || {self.p_and()})"
        return e

    def p_and(self):
        e = self.p_not()
        while self.peek() == "AND":
            self.eat()
            e = f"({e} && {self.p_not()})"
        return e

    def p_not(self):
        if self.peek() == "NOT":
            self.eat()
            return f"(negb {self.p_not()})"
        return self.p_atom()

    def p_atom(self):
        if self.peek() == "(":
            self.eat()
            e = self.p_or()
            self.eat(")")
            return e
        name = self.eat()
        if name not in self.atoms:
            raise TranslatorError(f"SQL: unknown column {name}")
        kind, var = self.atoms[name]
        nxt = self.peek()
        if nxt == "=":
            self.eat()
            v = self.eat()
            if kind != "num" or not v.isdigit():
                raise TranslatorError("SQL: bad equality")
            return f"({var} =? {v})"
        if nxt == "IS":
            self.eat()
            neg = False
            if self.peek() == "NOT":
                self.eat()
                neg = True
            self.eat("NULL")
            if kind != "nullable":
                raise TranslatorError("SQL: IS NULL on a non-nullable column")
            return var if neg else f"(negb {var})"
        if nxt in ("IN", "NOT") and (nxt == "IN" or self.peek(1) == "IN"):
            neg = nxt == "NOT"
            if neg:
                self.eat()
            self.eat("IN")
            self.eat("(")
            vals = [self.eat()]
            while self.peek() == ",":
                self.eat()
                vals.append(self.eat())
            self.eat(")")
            if kind != "num" or not all(v.isdigit() for v in vals):
                raise TranslatorError("SQL: bad IN list")
            e = "(" + " || ".join(f"({var} =? {v})" for v in vals) + ")"
            return f"(negb {e})" if neg else e
        if kind != "bool":
            raise TranslatorError(f"SQL: bare non-boolean column {name}")
        return var


def gen_step(ev):
    out = []
    import importlib
    step_mod = importlib.import_module("stepup.core.step")
    sched_mod = importlib.import_module("stepup.core.scheduler")
    where = step_mod.UNAVAILABLE_INPUT_WHERE
    e = SqlBool(where, {"input_file.state": ("num", "st"),
                        "dynamic_dep.i": ("nullable", "dynamic"),
                        "input_node.detached": ("bool", "detached")}).parse()
    out.append("(* UNAVAILABLE_INPUT_WHERE *)\n"
               f"Definition unavailable_input_gen (st : N) (dynamic detached : bool) : bool :=\n  {e}.")
    # the subquery joins exactly the aliases the predicate uses
    sub = re.sub(r"\s+", " ", step_mod.unavailable_input_sql("X"))
    need = ("FROM dependency AS dep JOIN file AS input_file ON input_file.node = dep.source "
            "JOIN node AS input_node ON input_node.i = dep.source "
            "LEFT JOIN dynamic_dep ON dynamic_dep.i = dep.i WHERE dep.sink = X AND (")
    if need not in sub:
        raise TranslatorError("unavailable_input_sql: join structure changed")
    ready = re.sub(r"\s+", " ", sched_mod.RECOMPUTE_READY)
    if not re.search(r"UPDATE step SET _ready = NOT EXISTS \( SELECT 1 FROM dependency AS dep .* WHERE dep\.sink = step\.node AND \(", ready) \
            or not ready.strip().endswith("WHERE _check_ready"):
        raise TranslatorError("RECOMPUTE_READY: not `_ready = NOT EXISTS (unavailable input of this step)`")
    disp = re.sub(r"\s+", " ", step_mod.STEP_DISPATCH_WHERE)
    conj = [c.strip() for c in re.split(r" AND (?![^()]*\))", disp)]
    FSV = ev["StepState"]
    if f"step.state = {FSV['PENDING']}" not in conj or "step._ready" not in conj or "NOT step.deferred" not in conj:
        raise TranslatorError(f"STEP_DISPATCH_WHERE lost a conjunct: {conj}")
    sel = re.sub(r"\s+", " ", sched_mod.SELECT_NEXT_STEP)
    if disp not in sel or " OR " in sel.split(disp)[0].split("WHERE")[-1]:
        raise TranslatorError("SELECT_NEXT_STEP no longer conjoins STEP_DISPATCH_WHERE")
    out.append("Definition dispatch_requires_pending_ready_not_deferred : bool := true.")

    tree = parse_module(f"{CORE}/step.py")
    fn = find_function(tree, "mark_completed", "Step")
    if [a.arg for a in fn.args.args] != ["self", "new_hash", "wants_defer"]:
        raise TranslatorError("mark_completed signature changed")
    S = ev["StepState"]

    def set_state(m):
        st = S[m.group("s")]
        d = "deferred" if m.group("d") else "false"
        # trigger step_clear_deferred / step_reset_defer_count are part of the model (Fresh.v), not here
        return f"let state := {st} in let deferred_flag := {d} in"

    t = Table("mark_completed", [
        ("interrupted_defer = False", "let interrupted_defer := false in"),
        ("interrupted_defer = True", "let interrupted_defer := true in"),
        ("for file in self.products(File):\n    if file.get_state() == FileState.BUILT:\n"
         "        file.set_state(FileState.OUTDATED)", "let built_outputs_to_outdated := true in"),
        ("defer_count = self._increment_defer_count()", "let defer_count := defer_count + 1 in"),
        ("deferred = self.has_unavailable_dynamic_input()", "let deferred := has_unavailable_dynamic_input in"),
        (R(r"self\.set_state\(StepState\.(?P<s>\w+)(?P<d>, deferred)?\)"), set_state),
        ("self._detach_created_steps()", "let detach_created := true in"),
        ("self.delete_hash()", "let hash_stored := false in"),
        ("for file in self.products(File):\n    if file.get_state() == FileState.OUTDATED:\n"
         "        file.set_state(FileState.BUILT)\n        self.graph.mark_consuming_steps_pending(file)",
         "let outdated_outputs_to_built := true in"),
        ("self.set_hash(new_hash)", "let hash_stored := true in"),
        ("return interrupted_defer", ("return", "(state, deferred_flag, interrupted_defer, defer_count, hash_stored,"
                                                " detach_created, built_outputs_to_outdated, outdated_outputs_to_built)")),
    ], [
        ("new_hash is None", "negb hash_some"),
        ("wants_defer", "wants_defer"),
        (R(r"defer_count (?P<op><=|<|>=|>|==|!=) self\.graph\.defer_cap"),
         lambda m: f"cmp_eval {CMP[m.group('op')]} defer_count defer_cap"),
        (R(r"self\.get_state\(\) == StepState\.(?P<s>\w+)"), lambda m: f"(state =? {S[m.group('s')]})"),
    ])
    out.append(
        "Definition mark_completed_gen (hash_some wants_defer : bool) (defer_count defer_cap : N)\n"
        "    (has_unavailable_dynamic_input : bool) (state0 : N)\n"
        "    : N * bool * bool * N * bool * bool * bool * bool :=\n"
        "  let state := state0 in let deferred_flag := false in let deferred := false in\n"
        "  let hash_stored := false in let detach_created := false in\n"
        "  let built_outputs_to_outdated := false in let outdated_outputs_to_built := false in\n  "
        + t.block(body_without_docstring(fn), None) + ".")

    # has_unavailable_dynamic_input: dynamic input whose state is not CONFIRMED/BUILT (detached or not)
    fn = find_function(tree, "has_unavailable_dynamic_input", "Step")
    sqls = [n.value for n in ast.walk(fn) if isinstance(n, ast.Constant) and isinstance(n.value, str) and "SELECT" in n.value]
    txt = re.sub(r"\s+", " ", ast.unparse(fn))
    if "JOIN dynamic_dep ON dynamic_dep.i = dependency.i" not in txt or "file.state NOT IN (" not in txt:
        raise TranslatorError("has_unavailable_dynamic_input: query changed")
    m = re.search(r"file\.state NOT IN \(\{FileState\.(\w+)\.value\}, \{FileState\.(\w+)\.value\}\)", txt)
    if not m or {m.group(1), m.group(2)} != {"CONFIRMED", "BUILT"}:
        raise TranslatorError("has_unavailable_dynamic_input: state set changed")
    FS = ev["FileState"]
    out.append("Definition dyn_input_unavailable_gen (st : N) : bool :=\n"
               f"  negb ((st =? {FS[m.group(1)]}) || (st =? {FS[m.group(2)]})).")
    # the defer counter increment
    fn = find_function(tree, "_increment_defer_count", "Step")
    if "SET defer_count = defer_count + 1 WHERE node = ? RETURNING defer_count" not in ast.unparse(fn):
        raise TranslatorError("_increment_defer_count changed")
    # triggers that complete set_state
    schema = step_mod.STEP_SCHEMA
    trig = re.sub(r"\s+", " ", re.sub(r"--[^\n]*", " ", schema))
    m1 = re.search(r"CREATE TRIGGER IF NOT EXISTS step_clear_deferred .*? WHEN NEW\.state IN \((\d+), (\d+)\) .*? SET deferred = FALSE", trig)
    m2 = re.search(r"CREATE TRIGGER IF NOT EXISTS step_reset_defer_count .*? WHEN NEW\.state = (\d+) .*? SET defer_count = 0", trig)
    if not m1 or not m2:
        raise TranslatorError("step_clear_deferred / step_reset_defer_count triggers not recognised")
    if {int(m1.group(1)), int(m1.group(2))} != {S["SUCCEEDED"], S["FAILED"]} or int(m2.group(1)) != S["SUCCEEDED"]:
        raise TranslatorError("deferred/defer_count triggers fire on other states")
    out.append(f"Definition trigger_reset_defer_count_state : N := {m2.group(1)}.")
    if not re.search(r"CHECK \(NOT deferred OR state = %d\)" % S["PENDING"], trig):
        raise TranslatorError("CHECK (NOT deferred OR state = PENDING) not found")
    return out


# ---------------------------------------------------------------------------------------------
# workflow.py / director.py / executor.py
# ---------------------------------------------------------------------------------------------


def gen_workflow(ev):
    out = []
    tree = parse_module(f"{CORE}/workflow.py")
    FS, AV = ev["FileState"], ev["Availability"]
    fn = find_function(tree, "availability", "_SupplyInfo")
    t = Table("_SupplyInfo.availability", [
        (R(r"return Availability\.(?P<a>\w+)"), lambda m: ("return", str(AV[m.group("a")]))),
    ], [
        ("self.detached", "detached"),
        (R(r"self\.state == FileState\.(?P<n>\w+)"), lambda m: f"(st =? {FS[m.group('n')]})"),
        (R(r"self\.state in (?P<set>\(.*\))"), fs_in(ev, "st")),
    ])
    out.append("Definition availability_gen (detached : bool) (st : N) : N :=\n  "
               + t.block(body_without_docstring(fn), None) + ".")

    fn = find_function(tree, "amend_step", "Workflow")
    body = body_without_docstring(fn)
    texts = [ast.unparse(s) for s in body]
    for need in ("unavailable = set()", "unfresh = set()", "unconfirmed = set()", "dynamic_ideps = []",
                 "infos = self._supply_files(step, inp_paths, require_new_edge=False)",
                 "return (unavailable, unfresh, self._hashes_to_check(unconfirmed))"):
        if need not in texts:
            raise TranslatorError(f"Workflow.amend_step: statement missing: {need}")
    loops = [s for s in body if isinstance(s, ast.For) and ast.unparse(s.iter) == "infos"]
    if len(loops) != 1 or ast.unparse(loops[0].target) != "info":
        raise TranslatorError("Workflow.amend_step: loop over infos not found")
    loop = loops[0]
    if texts.index("infos = self._supply_files(step, inp_paths, require_new_edge=False)") + 1 != body.index(loop):
        raise TranslatorError("Workflow.amend_step: loop does not directly follow _supply_files")
    # nothing else in the function may touch the three result sets
    for s in body:
        if s is loop:
            continue
        txt = ast.unparse(s)
        if re.search(r"\b(unavailable|unfresh|unconfirmed)\b", txt) and txt not in (
                "unavailable = set()", "unfresh = set()", "unconfirmed = set()",
                "return (unavailable, unfresh, self._hashes_to_check(unconfirmed))"):
            raise TranslatorError(f"Workflow.amend_step: result sets modified outside the loop: {txt[:80]}")
    t = Table("Workflow.amend_step.loop", [
        ("availability = info.availability", "let availability := availability_gen detached st in"),
        ("unavailable.add(info.file.path)", "let unavailable := true in"),
        ("unconfirmed.add(info.file)", "let unconfirmed := true in"),
        ("producer = info.file.creator()", ""),
        ("unfresh.add(info.file.path)", "let unfresh := true in"),
        ("dynamic_ideps.append((info.new_idep,))", "let dynamic := true in"),
    ], [
        (R(r"availability == Availability\.(?P<a>\w+)"), lambda m: f"(availability =? {AV[m.group('a')]})"),
        (R(r"info\.state == FileState\.(?P<n>\w+)"), lambda m: f"(st =? {FS[m.group('n')]})"),
        ("isinstance(producer, Step) and ran_concurrently(producer.i, step.i)", "(producer_is_step && ran_conc)"),
        ("info.new_idep is not None", "new_edge"),
    ], final="(unavailable, unconfirmed, unfresh, dynamic)")
    out.append("(* one iteration of the loop over the supplied inputs in Workflow.amend_step:\n"
               "   (added to unavailable, added to unconfirmed/to_check, added to unfresh, edge made dynamic) *)\n"
               "Definition amend_input_gen (detached : bool) (st : N) (producer_is_step ran_conc new_edge : bool)\n"
               "    : bool * bool * bool * bool :=\n"
               "  let unavailable := false in let unconfirmed := false in let unfresh := false in let dynamic := false in\n  "
               + t.block(loop.body, None) + ".")

    # _resolve_supply_file: three-way branch on (node absent or detached, owning tree, creator)
    fn = find_function(tree, "_resolve_supply_file", "Workflow")
    body = body_without_docstring(fn)
    texts = [ast.unparse(s) for s in body]
    if texts[0] != "file, detached = self.find_and_detached(File, path)" or \
            texts[1] != "st = self._find_owning_static_tree(path) if file is None or detached else None":
        raise TranslatorError("_resolve_supply_file: prologue changed")
    br = body[2]
    if not isinstance(br, ast.If) or ast.unparse(br.test) != "st is not None":
        raise TranslatorError("_resolve_supply_file: first branch changed")
    b1 = [ast.unparse(s) for s in br.body]
    if b1[:1] != ["state = FileState.UNCONFIRMED"] or "file = self.create(File, st, path, state=state)" not in b1 \
            or "detached = False" not in b1:
        raise TranslatorError("_resolve_supply_file: tree branch changed")
    br2 = br.orelse[0] if len(br.orelse) == 1 and isinstance(br.orelse[0], ast.If) else None
    if br2 is None or ast.unparse(br2.test) != "file is None or file.creator() is None":
        raise TranslatorError("_resolve_supply_file: second branch changed")
    b2 = [ast.unparse(s) for s in br2.body]
    if b2[:1] != ["state = FileState.UNDECLARED"] or "file = self.create(File, None, path, state=state)" not in b2 \
            or "detached = True" not in b2:
        raise TranslatorError("_resolve_supply_file: undeclared branch changed")
    b3 = [ast.unparse(s) for s in br2.orelse]
    vol = br2.orelse[1] if len(br2.orelse) > 1 else None
    # reuse branch: `state = file.get_state()`, then `if state == FileState.VOLATILE:` whose body only
    # looks up what the message needs (`producer = file.creator()`, optional) and raises GraphError
    # (the text of the message is not part of the decision logic), then the forbidden-target check.
    ok = (b3[0] == "state = file.get_state()" and isinstance(vol, ast.If)
          and ast.unparse(vol.test) == "state == FileState.VOLATILE" and not vol.orelse
          and isinstance(vol.body[-1], ast.Raise)
          and isinstance(vol.body[-1].exc, ast.Call) and ast.unparse(vol.body[-1].exc.func) == "GraphError"
          and all(ast.unparse(x) == "producer = file.creator()" for x in vol.body[:-1])
          and b3[2:] == ["self._raise_if_forbidden_target(path, state)"])
    if not ok:
        raise TranslatorError("_resolve_supply_file: reuse branch changed")
    if texts[-1] != "return (file, state, detached, new_relation)":
        raise TranslatorError("_resolve_supply_file: return changed")
    out.append(
        "(* _resolve_supply_file: (state, detached) reported for the supplied file; None = GraphError (volatile) *)\n"
        "Definition resolve_supply_gen (exists_ detached0 has_creator tree_owns : bool) (st0 : N) : option (N * bool) :=\n"
        "  if (negb exists_ || detached0) && tree_owns then Some (%d, false)\n"
        "  else if negb exists_ || negb has_creator then Some (%d, true)\n"
        "  else if st0 =? %d then None else Some (st0, detached0)." % (FS["UNCONFIRMED"], FS["UNDECLARED"], FS["VOLATILE"]))
    return out


def gen_director(ev):
    out = []
    FS = ev["FileState"]
    tree = parse_module(f"{CORE}/director.py")
    fn = find_function(tree, "amend_step", "DirectorHandler")
    body = body_without_docstring(fn)
    if len(body) != 6:
        raise TranslatorError(f"DirectorHandler.amend_step: expected 6 top-level statements, found {len(body)}")
    w1, dirs, chk, carry, dfr, ret = body
    if not isinstance(w1, ast.AsyncWith) or ast.unparse(w1.items[0].context_expr) != "self.db":
        raise TranslatorError("DirectorHandler.amend_step: first statement is not the transaction")
    t1 = [ast.unparse(s) for s in w1.body]
    if t1 != ["step = self.scheduler.get_job_step(job_i)",
              "unavailable, unfresh, to_check = self.workflow.amend_step(step, inp_paths=inp_paths, env_deps=env_deps, "
              "out_paths=out_paths, vol_paths=vol_paths, ran_concurrently=self.scheduler.ran_concurrently)"]:
        raise TranslatorError(f"DirectorHandler.amend_step: first transaction changed: {t1}")
    if not ast.unparse(dirs).startswith("self.workflow.create_dirs("):
        raise TranslatorError("DirectorHandler.amend_step: create_dirs missing")
    if not (isinstance(chk, ast.If) and ast.unparse(chk.test) == "to_check" and not chk.orelse and len(chk.body) == 3):
        raise TranslatorError("DirectorHandler.amend_step: to_check block changed")
    c0, c1, c2 = chk.body
    if ast.unparse(c0) != "checked_paths = set(to_check)" or \
            ast.unparse(c1) != "await self.builder.run_promoted_hash_jobs(to_check, HashUpdateCause.CONFIRMED)":
        raise TranslatorError("DirectorHandler.amend_step: promoted hash jobs changed")
    if not (isinstance(c2, ast.AsyncWith) and len(c2.body) == 1 and isinstance(c2.body[0], ast.For)
            and ast.unparse(c2.body[0].target) == "path" and ast.unparse(c2.body[0].iter) == "checked_paths"):
        raise TranslatorError("DirectorHandler.amend_step: second block changed")
    t = Table("DirectorHandler.amend_step.second_block", [
        ("file = self.workflow.find(File, path)", ""),
        ("unavailable.add(path)", "let unavailable := true in"),
    ], [
        (R(r"file\.get_state\(\) not in (?P<set>\(.*\))"), lambda m: f"(negb {fs_in(ev, 'st')(m)})"),
    ], final="unavailable")
    out.append("(* second, read-only block of DirectorHandler.amend_step, per checked path *)\n"
               "Definition amend_second_block_gen (st : N) : bool :=\n  let unavailable := false in\n  "
               + t.block(c2.body[0].body, None) + ".")
    t = Table("DirectorHandler.amend_step.tail", [
        ("carry_on = len(unavailable) == 0 and len(unfresh) == 0",
         "let carry_on := negb unavailable_nonempty && negb unfresh_nonempty in"),
        ("self.executor.defer(job_i, unavailable=unavailable, unfresh=unfresh)", "let defer_called := true in"),
        ("return carry_on", ("return", "(carry_on, defer_called)")),
    ], [("not carry_on", "negb carry_on")])
    out.append("Definition amend_tail_gen (unavailable_nonempty unfresh_nonempty : bool) : bool * bool :=\n"
               "  let defer_called := false in\n  " + t.block([carry, dfr, ret], None) + ".")
    return out


def gen_executor(ev):
    out = []
    FS = ev["FileState"]
    tree = parse_module(f"{CORE}/executor.py")

    fn = find_function(tree, "defer", "Executor")
    t = Table("Executor.defer", [
        ("run = self.running.get(job_i)", ""),
        (R(r"raise ValueError\(.*\)"), ("return", "(run_unavailable, run_unfresh, run_success)")),
        ("run.unavailable.update(unavailable)", "let run_unavailable := run_unavailable || arg_unavailable in"),
        ("run.unfresh.update(unfresh)", "let run_unfresh := run_unfresh || arg_unfresh in"),
        ("run.success = False", "let run_success := false in"),
    ], [
        ("run is None", "false"),
        ("unavailable is not None", "true"),
        ("unfresh is not None", "true"),
    ], final="(run_unavailable, run_unfresh, run_success)")
    out.append("(* Executor.defer on a running job; sets are abstracted to `non-empty` flags *)\n"
               "Definition defer_gen (run_unavailable run_unfresh run_success arg_unavailable arg_unfresh : bool)\n"
               "    : bool * bool * bool :=\n  " + t.block(body_without_docstring(fn), None) + ".")

    fn = find_function(tree, "_classify_execution", "Executor")
    if [a.arg for a in fn.args.args] != ["self", "run", "new_hash", "new_inp_hashes", "unexpected_input_changes"]:
        raise TranslatorError("_classify_execution signature changed")
    t = Table("_classify_execution", [
        ("wants_defer = len(run.unavailable) > 0 or len(run.unfresh) > 0",
         "let wants_defer := run_unavailable || run_unfresh in"),
        ("run.success = False", "let run_success := false in"),
        ("new_hash = None", "let hash_some := false in"),
        ("run.unavailable.clear()", "let run_unavailable := false in"),
        ("run.unfresh.clear()", "let run_unfresh := false in"),
        ("wants_defer = False", "let wants_defer := false in"),
        ("self.workflow.update_file_hashes(new_inp_hashes, cause=HashUpdateCause.FAILED)",
         "let inputs_rehashed_failed := true in"),
        ("return (new_hash, wants_defer)",
         ("return", "(hash_some, wants_defer, run_success, run_unavailable, run_unfresh, inputs_rehashed_failed)")),
    ], [
        ("unexpected_input_changes", "unexpected_input_changes"),
        ("wants_defer", "wants_defer"),
        ("not run.success", "negb run_success"),
    ])
    out.append("Definition classify_gen (run_unavailable run_unfresh run_success hash_some unexpected_input_changes : bool)\n"
               "    : bool * bool * bool * bool * bool * bool :=\n  let inputs_rehashed_failed := false in\n  "
               + t.block(body_without_docstring(fn), None) + ".")

    # _compute_full_step_hash: which inputs are re-hashed after the command
    fn = find_function(tree, "_compute_full_step_hash", "Executor")
    comp = [n for n in ast.walk(fn) if isinstance(n, ast.DictComp) and "inp_paths" in ast.unparse(n)]
    if len(comp) != 1:
        raise TranslatorError("_compute_full_step_hash: input comprehension not found")
    c = comp[0]
    if ast.unparse(c.key) != "rec.path" or ast.unparse(c.value) != "rec.hash" \
            or ast.unparse(c.generators[0].iter) != "run.step.inp_paths()" or len(c.generators[0].ifs) != 1:
        raise TranslatorError("_compute_full_step_hash: input comprehension changed")
    m = re.fullmatch(r"rec\.state in (?P<set>\(.*\))", ast.unparse(c.generators[0].ifs[0]))
    if not m:
        raise TranslatorError("_compute_full_step_hash: state filter changed")
    out.append(f"Definition posthash_considers_gen (st : N) : bool := {fs_in(ev, 'st')(m)}.")
    txt = ast.unparse(fn)
    for need in ("functools.partial(compute_both_hashes, inp_hashes, out_hashes)",
                 "if len(inp_result.messages) == 0:", "return (step_hash, inp_result.new_hashes, out_result.new_hashes)",
                 "else:\n        step_hash = None\n        run.inp_messages.extend(inp_result.messages)\n        run.success = False"):
        if need not in txt:
            raise TranslatorError(f"_compute_full_step_hash: expected fragment missing: {need[:60]}")

    # skeletons the hand-written composition (model Fresh.exec_finish / new_run) was reviewed against
    def skeleton(name, expect, quiet=False):
        f = find_function(tree, name, "Executor")
        got = [re.sub(r"\s+", " ", ast.unparse(s)) for s in body_without_docstring(f)]
        exp = [re.sub(r"\s+", " ", e) for e in expect]
        if got != exp:
            if quiet:
                return False
            for i, (g, e) in enumerate(zip(got + [""] * len(exp), exp + [""] * len(got))):
                if g != e:
                    raise TranslatorError(f"Executor.{name}: statement {i} changed: {g[:200]!r} (expected {e[:200]!r})")
        return True
    def exec_skeleton(flag_call):
        return [
            "self.scheduler.record_run_started(step.i)",
            "run, new_hash = await self._new_run(job_i, step, inp_hashes, env_deps)",
            "if new_hash is None: return",
            "async with self.db: step.reset_for_rerun()",
            "self._report_step_counts()",
            "await self._run_command(run)",
            "new_hash, new_inp_hashes, new_out_hashes = await self._compute_full_step_hash(run)",
            "unexpected_input_changes = len(new_inp_hashes) > 0",
            "async with self.db: " + flag_call +
            "new_hash, wants_defer = self._classify_execution(run, new_hash, new_inp_hashes, "
            "unexpected_input_changes) self.workflow.update_file_hashes(new_out_hashes, cause=HashUpdateCause.SUCCEEDED "
            "if run.success else HashUpdateCause.FAILED) run.interrupted_defer = step.mark_completed(new_hash, wants_defer) "
            "self.scheduler.record_run_stopped(step.i, succeeded=new_hash is not None) "
            "if wants_defer and (not run.interrupted_defer): run.outcome = None "
            "if run.outcome is not None: step.set_outcome(run.outcome)",
            "self._report_step_counts()",
            "await self._report_run(run)",
            "if unexpected_input_changes: await self._drain_for_unexpected_input_changes()",
        ]
    # Two reviewed shapes: with the completion-time check of the inputs against the hashes the
    # command started from (first statement of the final transaction), and the older one without.
    # Which one the source has is a generated fact; the theorems need the first.
    flagging = skeleton("execute_job", exec_skeleton("self._flag_inputs_not_final(run, inp_hashes) "), quiet=True)
    if not flagging:
        skeleton("execute_job", exec_skeleton(""))
    out.append("(* execute_job calls _flag_inputs_not_final(run, inp_hashes) first in its final transaction *)\n"
               f"Definition exec_flags_inputs_not_final : bool := {'true' if flagging else 'false'}.")
    FSx = ev["FileState"]
    if flagging:
        f = find_function(tree, "_flag_inputs_not_final", "Executor")
        if [a.arg for a in f.args.args] != ["self", "run", "start_hashes"]:
            raise TranslatorError("_flag_inputs_not_final signature changed")
        fb = body_without_docstring(f)
        if len(fb) != 1 or not isinstance(fb[0], ast.For) or ast.unparse(fb[0].target) != "rec" \
                or ast.unparse(fb[0].iter) != "run.step.inp_paths()":
            raise TranslatorError("_flag_inputs_not_final: not a single loop over run.step.inp_paths()")
        t = Table("_flag_inputs_not_final.loop", [
            ("continue", ("return", "unfresh")),
            ("start_hash = start_hashes.get(rec.path)", ""),
            ("run.unfresh.add(rec.path)", "let unfresh := true in"),
            ("producer = self.workflow.find(File, rec.path).creator()", ""),
        ], [
            (R(r"rec\.state not in (?P<set>\(.*\))"), lambda m: f"(negb {fs_in(ev, 'st')(m)})"),
            ("start_hash is not None", "in_snapshot"),
            ("start_hash != rec.hash", "negb same_hash"),
            (R(r"rec\.state == FileState\.(?P<n>\w+)"), lambda m: f"(st =? {FSx[m.group('n')]})"),
            ("isinstance(producer, Step) and self.scheduler.ran_concurrently(producer.i, run.step.i)",
             "(producer_is_step && ran_conc)"),
        ], final="unfresh")
        out.append("(* one iteration of the loop of Executor._flag_inputs_not_final: is the input reported unfresh? *)\n"
                   "Definition flag_input_gen (st : N) (in_snapshot same_hash producer_is_step ran_conc : bool) : bool :=\n"
                   "  let unfresh := false in\n  " + t.block(fb[0].body, None) + ".")
    else:
        out.append("Definition flag_input_gen (st : N) (in_snapshot same_hash producer_is_step ran_conc : bool) : bool := false.")
    skeleton("_new_run", [
        "run = Run(step, job_i=job_i)",
        "new_step_hash, new_inp_hashes = await self._compute_inp_step_hash(run, inp_hashes, env_deps)",
        "if new_step_hash is not None: return (run, new_step_hash)",
        "unexpected_input_changes = len(new_inp_hashes) > 0",
        "if unexpected_input_changes: async with self.db: self.workflow.update_file_hashes(new_inp_hashes, "
        "cause=HashUpdateCause.FAILED)",
        "await self._finalize_failed_run(run)",
        "if unexpected_input_changes: await self._drain_for_unexpected_input_changes()",
        "return (run, None)",
    ])
    skeleton("_finalize_failed_run", [
        "async with self.db: run.step.mark_completed(None, False)",
        "self.scheduler.record_run_stopped(run.step.i, succeeded=False)",
        "self._report_step_counts()",
        "await self._report_run(run)",
    ])
    # _drain_for_unexpected_input_changes: TRANSLATED (does it set scheduler.draining?); any statement
    # other than that assignment and reporter calls fails closed
    f = find_function(tree, "_drain_for_unexpected_input_changes", "Executor")
    if [a.arg for a in f.args.args] != ["self"]:
        raise TranslatorError("_drain_for_unexpected_input_changes signature changed")
    t = Table("_drain_for_unexpected_input_changes", [
        ("self.scheduler.draining = True", "let draining_set := true in"),
        (R(r"await self\.reporter\('(ERROR|WARNING)', '[^']*'\)"), ""),
    ], [], final="draining_set")
    out.append("(* Executor._drain_for_unexpected_input_changes: does it set scheduler.draining? *)\n"
               "Definition drain_for_changes_gen : bool :=\n  let draining_set := false in\n  "
               + t.block(body_without_docstring(f), None) + ".")
    f = find_function(tree, "_compute_inp_step_hash", "Executor")
    txt = re.sub(r"\s+", " ", ast.unparse(f))
    for need in ("result = await self._run_work_thread(run, functools.partial(compute_inp_hashes, inp_hashes))",
                 "if len(result.messages) > 0: run.inp_messages.extend(result.messages) run.success = False "
                 "return (None, result.new_hashes)"):
        if need not in txt:
            raise TranslatorError(f"_compute_inp_step_hash: expected fragment missing: {need[:60]}")
    # _determine_tag / _report_run: which completions drain the scheduler
    f = find_function(tree, "_determine_tag", "Executor")
    TAGS = {"SUCCESS": 1, "FAIL": 2, "DEFERRED": 3}
    t = Table("_determine_tag", [
        (R(r"return '(?P<t>\w+)'"), lambda m: ("return", str(TAGS[m.group("t")]) if m.group("t") in TAGS else _unknown_tag(m.group("t")))),
    ], [
        ("run.interrupted_defer", "interrupted_defer"),
        ("len(run.unavailable) > 0 or len(run.unfresh) > 0", "(run_unavailable || run_unfresh)"),
        ("run.success", "run_success"),
    ])
    out.append("Definition TAG_SUCCESS : N := 1. Definition TAG_FAIL : N := 2. Definition TAG_DEFERRED : N := 3.\n"
               "Definition determine_tag_gen (interrupted_defer run_unavailable run_unfresh run_success : bool) : N :=\n  "
               + t.block(body_without_docstring(f), None) + ".")
    # _report_run: TRANSLATED statement by statement (which tag, under which option, drains)
    f = find_function(tree, "_report_run", "Executor")
    if [a.arg for a in f.args.args] != ["self", "run"]:
        raise TranslatorError("_report_run signature changed")
    tag_atoms = {f"tag == '{name}'": f"(tag =? {v})" for name, v in TAGS.items()}
    tag_atoms.update({f"tag != '{name}'": f"(negb (tag =? {v}))" for name, v in TAGS.items()})
    tag_atoms["self.keep_going"] = "keep_going"
    t = Table("_report_run", [
        ("pages = await self._build_report_pages(run)", ""),
        ("tag = self._determine_tag(run)", ""),
        ("self.scheduler.draining = True", "let drains := true in"),
        ("await self.reporter(tag, run.description, pages)", ""),
    ], [], final="drains", cond_fn=_bool_expr("_report_run", tag_atoms))
    body = body_without_docstring(f)
    if not body or _norm(body[0]) != "pages = await self._build_report_pages(run)" \
            or "tag = self._determine_tag(run)" not in [_norm(x) for x in body]:
        raise TranslatorError("_report_run: the tag is not computed by _determine_tag(run)")
    out.append("(* Executor._report_run: does this report drain the scheduler? *)\n"
               "Definition report_drains_gen (tag : N) (keep_going : bool) : bool :=\n  let drains := false in\n  "
               + t.block(body, None) + ".")
    out.append("Definition executor_skeletons_as_reviewed : bool := true.")

    # hash.compute_inp_hashes: a changed or vanished input is reported in new_hashes and in messages
    htree = parse_module(f"{CORE}/hash.py")
    f = find_function(htree, "compute_inp_hashes")
    got = [re.sub(r"\s+", " ", ast.unparse(s)) for s in body_without_docstring(f)]
    exp = [
        "messages = []", "new_inp_hashes = {}", "all_inp_hashes = {}",
        "for path in sorted(inp_hashes): old_file_hash = inp_hashes[path] "
        "new_file_hash = old_file_hash.refreshed(path, cancel_event) all_inp_hashes[path] = new_file_hash "
        "if new_file_hash != old_file_hash: new_inp_hashes[path] = new_file_hash "
        "if new_file_hash.is_unknown: messages.append(f'Input vanished unexpectedly: {path}') "
        "else: messages.append(f'Input changed unexpectedly: {path} ' + fmt_file_hash_diff(old_file_hash, new_file_hash)) "
        "elif old_file_hash.is_unknown: raise ConsistencyError('A step was scheduled with a missing input file.')",
        "return HashComputeResult(messages, new_inp_hashes, all_inp_hashes)",
    ]
    if len(got) == 5:
        # second reviewed shape (proposed fix findings.d/C03-unreadable-input): same decision for
        # readable files and missing paths, see translator/gen_fresh_stat.py
        from .gen_fresh_stat import INP_LOOP_UNREADABLE_REPORTED
        if got[3] == INP_LOOP_UNREADABLE_REPORTED:
            got[3] = exp[3]
    if got != exp:
        raise TranslatorError("hash.compute_inp_hashes changed")
    # FileHash equality: digest, mode, size (mtime and inode excluded)
    import attrs as _attrs
    from stepup.core.hash import FileHash
    eq_fields = [a.name for a in _attrs.fields(FileHash) if a.eq]
    if eq_fields != ["digest", "mode", "size"]:
        raise TranslatorError(f"FileHash equality fields changed: {eq_fields}")
    out.append("Definition filehash_eq_fields_digest_mode_size : bool := true.")
    return out


# ---------------------------------------------------------------------------------------------
# the CHECKING path: _get_next_step, the tail of _derive_job, job.py, try_skip_job,
# validate_dynamic_job, _reset_step_to_pending, hash cancellation
# ---------------------------------------------------------------------------------------------


def _norm(node_or_text):
    text = node_or_text if isinstance(node_or_text, str) else ast.unparse(node_or_text)
    return re.sub(r"\s+", " ", text)


# Methods of Step that only read the database (checked on every run by _assert_read_only): two
# adjacent simple assignments `name = [list(]step.<getter>()[)]` that bind distinct names and do not
# mention each other's targets commute, so their order in the source is not part of the skeleton.
READ_ONLY_GETTERS = ("env_deps", "get_hash", "inp_paths", "out_paths", "get_state", "uses_shell",
                     "get_env_overrides", "get_defer_count")
_SQL_WRITE = re.compile(r"\b(INSERT|UPDATE|DELETE|REPLACE|CREATE|DROP|ALTER)\b", re.I)


def _assert_read_only(stree, name):
    fn = find_function(stree, name, "Step")
    doc = fn.body[0].value if isinstance(fn.body[0], ast.Expr) else None
    for n in ast.walk(fn):
        if isinstance(n, ast.Constant) and isinstance(n.value, str) and n is not doc and _SQL_WRITE.search(n.value):
            raise TranslatorError(f"Step.{name} is assumed to be a pure read but contains SQL that writes")
        if isinstance(n, (ast.Assign, ast.AugAssign, ast.AnnAssign)):
            targets = n.targets if isinstance(n, ast.Assign) else [n.target]
            if any(not isinstance(t, ast.Name) for t in targets):
                raise TranslatorError(f"Step.{name} is assumed to be a pure read but assigns to {ast.unparse(targets[0])}")
        if isinstance(n, ast.Call) and isinstance(n.func, ast.Attribute) and n.func.attr in (
                "executemany", "executescript", "set_state", "set_hash", "delete_hash", "mark_completed", "commit"):
            raise TranslatorError(f"Step.{name} is assumed to be a pure read but calls {n.func.attr}")


def _pure_read_binding(stmt):
    """(target, getter) when `stmt` is `name = step.<getter>()` or `name = list(step.<getter>())`."""
    if not (isinstance(stmt, ast.Assign) and len(stmt.targets) == 1 and isinstance(stmt.targets[0], ast.Name)):
        return None
    v = stmt.value
    if isinstance(v, ast.Call) and isinstance(v.func, ast.Name) and v.func.id in ("list", "tuple") \
            and len(v.args) == 1 and not v.keywords:
        v = v.args[0]
    if isinstance(v, ast.Call) and not v.args and not v.keywords and isinstance(v.func, ast.Attribute) \
            and isinstance(v.func.value, ast.Name) and v.func.value.id == "step" and v.func.attr in READ_ONLY_GETTERS:
        return stmt.targets[0].id, v.func.attr
    return None


def canonical_read_order(stmts, stree):
    """`stmts` with every maximal run of adjacent independent pure-read bindings sorted by target name.
    Independent: distinct targets, none of them `step` (the receiver of the reads)."""
    out, run = [], []

    def flush():
        targets = [_pure_read_binding(x)[0] for x in run]
        if len(set(targets)) == len(targets) and "step" not in targets:
            out.extend(sorted(run, key=lambda x: _pure_read_binding(x)[0]))
        else:
            out.extend(run)
        run.clear()
    for st in stmts:
        b = _pure_read_binding(st)
        if b is not None:
            _assert_read_only(stree, b[1])
            run.append(st)
        else:
            flush()
            out.append(st)
    flush()
    return out


def _expect_skeleton(where, fn, expect):
    got = [_norm(s) for s in body_without_docstring(fn)]
    exp = [_norm(e) for e in expect]
    if got != exp:
        for i, (g, e) in enumerate(zip(got + [""] * len(exp), exp + [""] * len(got))):
            if g != e:
                raise TranslatorError(f"{where}: statement {i} changed: {g[:200]!r} (expected {e[:200]!r})")


def _bool_expr(where, atoms, compares=None):
    """Structural translation of a condition: and / or / not over the atoms (by unparse text) and
    over `A == B` / `A != B` between operand pairs listed in `compares` (frozenset of the two
    operand texts -> Gallina bool that is true iff they are equal)."""
    compares = compares or {}

    def tr(node):
        text = ast.unparse(node)
        if text in atoms:
            return atoms[text]
        if isinstance(node, ast.BoolOp):
            op = " && " if isinstance(node.op, ast.And) else " || "
            return "(" + op.join(tr(v) for v in node.values) + ")"
        if isinstance(node, ast.UnaryOp) and isinstance(node.op, ast.Not):
            return f"(negb {tr(node.operand)})"
        if isinstance(node, ast.Compare) and len(node.ops) == 1 and isinstance(node.ops[0], (ast.Eq, ast.NotEq)):
            key = frozenset({ast.unparse(node.left), ast.unparse(node.comparators[0])})
            if key in compares and len(key) == 2:
                e = compares[key]
                return e if isinstance(node.ops[0], ast.Eq) else f"(negb {e})"
        raise TranslatorError(f"{where}: unrecognised condition: {text[:160]!r}")
    return tr


UNUSABLE_SQL = re.compile(
    r"SELECT EXISTS \( SELECT 1 FROM dependency JOIN dynamic_dep ON dynamic_dep\.i = dependency\.i "
    r"JOIN node ON node\.i = dependency\.source JOIN file ON file\.node = dependency\.source "
    r"WHERE dependency\.sink = \? AND \( (?P<cond>.*) \) \)")


# the same query as a shared fragment (findings.d/C10-D39-refine.patch: unusable_dynamic_input_sql(node_expr),
# used by Step.has_unusable_dynamic_input and by the trigger step_node_undefer_reattached)
UNUSABLE_SQL_SHARED = re.compile(
    r"SELECT 1 FROM dependency AS dyn_dep JOIN dynamic_dep ON dynamic_dep\.i = dyn_dep\.i "
    r"JOIN node AS dyn_node ON dyn_node\.i = dyn_dep\.source JOIN file AS dyn_file ON dyn_file\.node = dyn_dep\.source "
    r"WHERE dyn_dep\.sink = @NODE@ AND \( (?P<cond>.*) \)")


def _fstring_sql(where, joined, ev, names=()):
    parts = []
    for v in joined.values:
        if isinstance(v, ast.Constant):
            parts.append(v.value)
            continue
        text = ast.unparse(v.value)
        m = re.fullmatch(r"FileState\.(\w+)\.value", text)
        if m and m.group(1) in ev["FileState"]:
            parts.append(str(ev["FileState"][m.group(1)]))
        elif text in names:
            parts.append(f"@{text.upper()}@")
        else:
            raise TranslatorError(f"{where}: unrecognised interpolation {text}")
    return re.sub(r"\s+", " ", "".join(parts)).strip()


def _unusable_shared_fragment(stree, ev):
    """Per-input condition of the module function unusable_dynamic_input_sql(node_expr), or None."""
    fns = [n for n in stree.body if isinstance(n, ast.FunctionDef) and n.name == "unusable_dynamic_input_sql"]
    if not fns:
        return None
    fn = fns[0]
    body = body_without_docstring(fn)
    if not ([a.arg for a in fn.args.args] == ["node_expr"] and len(body) == 1 and isinstance(body[0], ast.Return)
            and isinstance(body[0].value, ast.JoinedStr)):
        raise TranslatorError("unusable_dynamic_input_sql: not `return f'...'` of one argument node_expr")
    sql = _fstring_sql("unusable_dynamic_input_sql", body[0].value, ev, names=("node_expr",)).replace("@NODE_EXPR@", "@NODE@")
    m = UNUSABLE_SQL_SHARED.fullmatch(sql)
    if not m:
        raise TranslatorError(f"unusable_dynamic_input_sql: query shape changed: {sql[:300]}")
    return SqlBool(m.group("cond"), {"dyn_node.detached": ("bool", "detached"), "dyn_file.state": ("num", "st")}).parse()


def gen_unusable_dynamic_input(ev, uses):
    """Step.has_unusable_dynamic_input (84081f2): EXISTS over the dynamic dependencies of the step of a
    per-input condition on (node.detached, file.state); the condition is parsed with SqlBool.  When the
    method does not exist (source before 84081f2) validate_dynamic_job must not use it; the per-input
    condition then is the one of the commit that introduced it (unused by the decision)."""
    stree = parse_module(f"{CORE}/step.py")
    try:
        fn = find_function(stree, "has_unusable_dynamic_input", "Step")
    except TranslatorError:
        if uses:
            raise
        cond = "(detached || (negb ((st =? %d) || (st =? %d))))" % (ev["FileState"]["CONFIRMED"], ev["FileState"]["BUILT"])
        return ("(* Step.has_unusable_dynamic_input does not exist in this source; not used by validate_dynamic_job *)\n"
                f"Definition unusable_dyn_input_gen (st : N) (detached : bool) : bool := {cond}.\n"
                "Definition has_unusable_dynamic_input_in_source : bool := false.")
    body = body_without_docstring(fn)
    if not (len(body) == 2 and isinstance(body[0], ast.Assign) and ast.unparse(body[0].targets[0]) == "sql"
            and isinstance(body[0].value, ast.JoinedStr)
            and _norm(body[1]) == "return bool(self.db.execute(sql, (self.i,)).fetchone()[0])"):
        raise TranslatorError("Step.has_unusable_dynamic_input: body is not `sql = f'...'; return bool(execute(sql, (self.i,)).fetchone()[0])`")
    shared = _unusable_shared_fragment(stree, ev)
    if shared is not None:
        vals = body[0].value.values
        if not (len(vals) == 3 and isinstance(vals[0], ast.Constant) and vals[0].value.strip() == "SELECT EXISTS ("
                and isinstance(vals[2], ast.Constant) and vals[2].value.strip() == ")"
                and isinstance(vals[1], ast.FormattedValue)
                and ast.dump(vals[1].value) == ast.dump(ast.parse("unusable_dynamic_input_sql('?')").body[0].value)):
            raise TranslatorError("Step.has_unusable_dynamic_input: not `SELECT EXISTS (unusable_dynamic_input_sql('?'))`: "
                                  + _norm(body[0]))
        return ("(* Step.has_unusable_dynamic_input = EXISTS (unusable_dynamic_input_sql('?')): a dynamic dependency of\n"
                "   the step whose source file satisfies this (fragment shared with the trigger step_node_undefer_reattached) *)\n"
                f"Definition unusable_dyn_input_gen (st : N) (detached : bool) : bool := {shared}.\n"
                "Definition has_unusable_dynamic_input_in_source : bool := true.")
    parts = []
    for v in body[0].value.values:
        if isinstance(v, ast.Constant):
            parts.append(v.value)
        else:
            m = re.fullmatch(r"FileState\.(\w+)\.value", ast.unparse(v.value))
            if not m or m.group(1) not in ev["FileState"]:
                raise TranslatorError(f"Step.has_unusable_dynamic_input: unrecognised interpolation {ast.unparse(v.value)}")
            parts.append(str(ev["FileState"][m.group(1)]))
    sql = re.sub(r"\s+", " ", "".join(parts)).strip()
    m = UNUSABLE_SQL.fullmatch(sql)
    if not m:
        raise TranslatorError(f"Step.has_unusable_dynamic_input: query shape changed: {sql[:300]}")
    cond = SqlBool(m.group("cond"), {"node.detached": ("bool", "detached"), "file.state": ("num", "st")}).parse()
    return ("(* Step.has_unusable_dynamic_input: EXISTS (dynamic dependency of the step whose source file satisfies this) *)\n"
            f"Definition unusable_dyn_input_gen (st : N) (detached : bool) : bool := {cond}.\n"
            "Definition has_unusable_dynamic_input_in_source : bool := true.")


def gen_checking(ev):
    out = []
    S = ev["StepState"]
    tree = parse_module(f"{CORE}/scheduler.py")

    # --- _get_next_step: CHECKING iff the selected row has a stored hash
    fn = find_function(tree, "_get_next_step", "Scheduler")
    body = body_without_docstring(fn)
    texts = [_norm(x) for x in body]
    if len(texts) != 5 or texts[0] != "row = self.db.execute(SELECT_NEXT_STEP, (self.workflow.need_threshold.value,)).fetchone()" \
            or texts[1] != "if row is None: return None" or texts[2] != "i, label, has_hash = row" \
            or texts[4] != "return (Step(self.workflow, i, label), state)":
        raise TranslatorError(f"_get_next_step: skeleton changed: {texts}")
    m = re.fullmatch(r"state = StepState\.(\w+) if has_hash else StepState\.(\w+)", texts[3])
    if not m:
        raise TranslatorError(f"_get_next_step: state selection changed: {texts[3]}")
    out.append("(* Scheduler._get_next_step: the state a dispatched step is moved to *)\n"
               f"Definition get_next_step_state_gen (has_hash : bool) : N := if has_hash then {S[m.group(1)]} else {S[m.group(2)]}.")
    import importlib
    sched_mod = importlib.import_module("stepup.core.scheduler")
    step_mod = importlib.import_module("stepup.core.step")
    sel = _norm(sched_mod.SELECT_NEXT_STEP).strip()
    if not sel.startswith("SELECT node.i, node.label, step._has_hash FROM step INDEXED BY step_dispatch"):
        raise TranslatorError("SELECT_NEXT_STEP: select list changed")
    trig = _norm(re.sub(r"--[^\n]*", " ", step_mod.STEP_SCHEMA))
    for need in ("CREATE TRIGGER IF NOT EXISTS step_hash_ins AFTER INSERT ON step_hash BEGIN "
                 "UPDATE step SET _has_hash = 1 WHERE node = NEW.node; END;",
                 "CREATE TRIGGER IF NOT EXISTS step_hash_del AFTER DELETE ON step_hash BEGIN "
                 "UPDATE step SET _has_hash = 0 WHERE node = OLD.node; END;"):
        if need not in trig:
            raise TranslatorError("STEP_SCHEMA: _has_hash is no longer the trigger-maintained mirror of step_hash")
    stree = parse_module(f"{CORE}/step.py")
    _expect_skeleton("Step.get_hash", find_function(stree, "get_hash", "Step"), [
        "row = self.db.execute('SELECT hash FROM step_hash WHERE node = ?', (self.i,)).fetchone()",
        "return None if row is None else StepHash.from_json(row[0])"])
    _expect_skeleton("Step.set_hash", find_function(stree, "set_hash", "Step"), [
        "self.db.execute('INSERT OR REPLACE INTO step_hash VALUES (?, ?)', (self.i, step_hash.to_json()))"])
    _expect_skeleton("Step.delete_hash", find_function(stree, "delete_hash", "Step"), [
        "self.db.execute('DELETE FROM step_hash WHERE node = ?', (self.i,))"])

    # --- job.py: which coroutine a job runs
    jtree = parse_module(f"{CORE}/job.py")
    _expect_skeleton("RunJob.runs_command", find_function(jtree, "runs_command", "RunJob"),
                     ["return self.step_hash is None"])
    _expect_skeleton("RunJob.coro", find_function(jtree, "coro", "RunJob"), [
        "if self.runs_command: inner = executor.execute_job(self.job_i, self.step, self.inp_hashes, self.env_deps) "
        "else: inner = executor.try_skip_job(self.job_i, self.step, self.inp_hashes, self.env_deps, self.step_hash)",
        "return _run_job_with_log(self.job_i, self.name, inner) if executor.write_joblog else inner"])
    _expect_skeleton("ValidateDynamicJob.coro", find_function(jtree, "coro", "ValidateDynamicJob"), [
        "inner = executor.validate_dynamic_job(self.job_i, self.step, self.inp_hashes, self.env_deps, self.step_hash)",
        "return _run_job_with_log(self.job_i, self.name, inner) if executor.write_joblog else inner"])
    _expect_skeleton("_run_job_with_log", find_function(jtree, "_run_job_with_log"), [
        "append_joblog_record('STARTED', job_i, description)",
        "try: return await coro finally: append_joblog_record('ENDED', job_i, description)"])

    # --- tail of _derive_job: RunJob or ValidateDynamicJob
    fn = find_function(tree, "_derive_job", "Scheduler")
    body = body_without_docstring(fn)
    loop = [x for x in body if isinstance(x, ast.For)][0]
    # the two reads (stored hash, tracked environment variables) are independent pure reads of the
    # step inside one transaction: compared in canonical (target name) order, see canonical_read_order
    tail = canonical_read_order(body[body.index(loop) + 1:], stree)
    ttexts = [_norm(x) for x in tail]
    if len(tail) != 8 or ttexts[:5] != ["env_deps = list(step.env_deps())", "step_hash = step.get_hash()",
                                        "self.job_counter += 1", "job_i = self.job_counter", "self.jobs[job_i] = step"] \
            or ttexts[6:] != ["if self.write_joblog: append_joblog_record('CREATED', job_i, job.name)", "return job"] \
            or not isinstance(tail[5], ast.If):
        raise TranslatorError(f"_derive_job: statements after the loop changed: {ttexts}")
    t = Table("_derive_job.tail", [
        ("job = RunJob(step, inp_hashes, env_deps, step_hash, job_i=job_i)",
         ("return", "(if negb has_hash then JK_execute else JK_try_skip)")),
        ("job = ValidateDynamicJob(step, inp_hashes, env_deps, step_hash, job_i=job_i)", ("return", "JK_validate")),
    ], [], cond_fn=_bool_expr("_derive_job.tail", {"dynamic_inputs_ready": "dynamic_inputs_ready",
                                                    "step_hash is None": "(negb has_hash)",
                                                    "step_hash is not None": "has_hash"}))
    out.append("(* which coroutine the job derived by Scheduler._derive_job runs (job.py: RunJob.coro with\n"
               "   runs_command = step_hash is None, ValidateDynamicJob.coro) *)\n"
               "Inductive job_kind := JK_execute | JK_try_skip | JK_validate.\n"
               "Definition derive_job_kind_gen (dynamic_inputs_ready has_hash : bool) : job_kind :=\n  "
               + t.block([tail[5]], None) + ".")

    # --- executor.py
    etree = parse_module(f"{CORE}/executor.py")

    def set_state_rep(prefix):
        def rep(m):
            d = {"None": "false", "False": "false", "True": "true"}[str(m.group("d"))]
            return f"let {prefix}state_set := true in let {prefix}state := {S[m.group('s')]} in let {prefix}deferred := {d} in"
        return rep
    SET_STATE = R(r"step\.set_state\(StepState\.(?P<s>\w+)(?:, (?:deferred=)?(?P<d>True|False))?\)")

    # _reset_step_to_pending
    fn = find_function(etree, "_reset_step_to_pending", "Executor")
    if [a.arg for a in fn.args.args] != ["self", "step"]:
        raise TranslatorError("_reset_step_to_pending signature changed")
    t = Table("_reset_step_to_pending", [
        ("step.reset_for_rerun()", "let dyn_dropped := true in"),
        ("step.delete_hash()", "let hash_deleted := true in"),
        (SET_STATE, set_state_rep("")),
    ], [], final="(dyn_dropped, hash_deleted, state_set, state, deferred)", inline_db=True)
    out.append("(* Executor._reset_step_to_pending: (reset_for_rerun called, hash deleted, set_state called, state, deferred) *)\n"
               "Definition reset_to_pending_gen : bool * bool * bool * N * bool :=\n"
               "  let dyn_dropped := false in let hash_deleted := false in let state_set := false in\n"
               "  let state := 0 in let deferred := false in\n  "
               + t.block(body_without_docstring(fn), None) + ".")

    digests = {frozenset({"step_hash.inp_digest", "new_hash.inp_digest"}): "inp_equal"}
    digests2 = dict(digests)
    digests2[frozenset({"step_hash.out_digest", "new_hash.out_digest"})] = "out_equal"

    # validate_dynamic_job
    fn = find_function(etree, "validate_dynamic_job", "Executor")
    if [a.arg for a in fn.args.args] != ["self", "job_i", "step", "inp_hashes", "env_deps", "step_hash"]:
        raise TranslatorError("validate_dynamic_job signature changed")
    VRET = "(reset, state_set, state, deferred)"
    vstates = []
    # the `deferred` argument of set_state in validate_dynamic_job is a TRANSLATED expression: a
    # constant (d760e3e: True; before: absent) or, since 84081f2 (fix of D39), the value of
    # step.has_unusable_dynamic_input() in the transaction that records the outcome
    VDEFERRED = {"None": "false", "False": "false", "True": "true",
                 "step.has_unusable_dynamic_input()": "unusable_dyn"}
    VSET_STATE = R(r"step\.set_state\(StepState\.(?P<s>\w+)"
                   r"(?:, (?:deferred=)?(?P<d>True|False|step\.has_unusable_dynamic_input\(\)))?\)")

    def validate_set_state(m):
        d = VDEFERRED[str(m.group("d"))]
        vstates.append((S[m.group("s")], d))
        return f"let state_set := true in let state := {S[m.group('s')]} in let deferred := {d} in"
    t = Table("validate_dynamic_job", [
        ("run, new_hash = await self._new_run(job_i, step, inp_hashes, env_deps)", ""),
        ("return", ("return", VRET)),
        ("await self._outdated_dynamic(run, step_hash, new_hash)", ""),
        ("await self._reset_step_to_pending(step)", "let reset := true in"),
        (VSET_STATE, validate_set_state),
        ("self._report_step_counts()", ""),
    ], [], final=VRET, inline_db=True,
        cond_fn=_bool_expr("validate_dynamic_job", {"new_hash is None": "(negb new_run_ok)",
                                                      "new_hash is not None": "new_run_ok"}, digests))
    out.append("(* Executor.validate_dynamic_job after _new_run: (reset to pending, set_state called, state, deferred).\n"
               "   Any statement outside the table (mark_completed, _run_command, record_run_started, ...) is a\n"
               "   TranslatorError.\n"
               "   unusable_dyn = step.has_unusable_dynamic_input() evaluated in the transaction of the outcome. *)\n"
               "Definition validate_gen (new_run_ok inp_equal unusable_dyn : bool) : bool * bool * N * bool :=\n"
               "  let reset := false in let state_set := false in let state := 0 in let deferred := false in\n  "
               + t.block(body_without_docstring(fn), None) + ".")
    if len(set(vstates)) != 1:
        raise TranslatorError(f"validate_dynamic_job: expected exactly one set_state call, found {vstates}")
    out.append("(* the `deferred` argument of the only set_state call of validate_dynamic_job (the branch taken when\n"
               "   the input digest is unchanged) *)\n"
               f"Definition validate_unchanged_state : N := {vstates[0][0]}.\n"
               f"Definition validate_unchanged_deferred_gen (unusable_dyn : bool) : bool := {vstates[0][1]}.")
    out.append(gen_unusable_dynamic_input(ev, uses=vstates[0][1] == "unusable_dyn"))

    # try_skip_job, split at the output hashing (an await during which other actors run)
    fn = find_function(etree, "try_skip_job", "Executor")
    if [a.arg for a in fn.args.args] != ["self", "job_i", "step", "inp_hashes", "env_deps", "step_hash"]:
        raise TranslatorError("try_skip_job signature changed")
    body = body_without_docstring(fn)
    texts = [_norm(x) for x in body]
    SPLIT = "new_hash, new_out_hashes = await self._compute_out_step_hash(run, new_hash)"
    if texts.count(SPLIT) != 1 or texts[0] != "run, new_hash = await self._new_run(job_i, step, inp_hashes, env_deps)":
        raise TranslatorError("try_skip_job: _new_run / _compute_out_step_hash calls not found at top level")
    k = texts.index(SPLIT)
    for x in body[:k]:
        if SPLIT in _norm(x) and x is not body[k]:
            raise TranslatorError("try_skip_job: output hashing inside a branch")
    P1RET = "(returned, reset)"
    t = Table("try_skip_job.phase1", [
        ("run, new_hash = await self._new_run(job_i, step, inp_hashes, env_deps)", ""),
        ("return", ("return", "(true, reset)")),
        ("await self._noskip(run, step_hash, new_hash)", ""),
        ("await self._reset_step_to_pending(step)", "let reset := true in"),
    ], [], final="(false, reset)", inline_db=True,
        cond_fn=_bool_expr("try_skip_job.phase1", {"new_hash is None": "(negb new_run_ok)",
                                                     "new_hash is not None": "new_run_ok"}, digests))
    out.append("(* Executor.try_skip_job from _new_run up to the output hashing: (returned, reset to pending);\n"
               "   (false, false) = goes on to hash the outputs *)\n"
               "Definition try_skip_phase1_gen (new_run_ok inp_equal : bool) : bool * bool :=\n"
               "  let reset := false in\n  " + t.block(body[:k], None) + ".")
    P2RET = "(finalized_failed, reset, outs_recorded_succeeded, completed, skip_reported, repended, rp_state, rp_deferred)"
    rechecks = []

    def recheck_stmt(m):
        rechecks.append(True)
        return ""

    def completed(m):
        if m.group("h") != "new_hash" or m.group("d") != "False":
            raise TranslatorError("try_skip_job: mark_completed is not called with (new_hash, False)")
        return "let completed := true in"
    t = Table("try_skip_job.phase2", [
        ("return", ("return", P2RET)),
        ("await self._finalize_failed_run(run)", "let finalized_failed := true in"),
        ("await self._noskip(run, step_hash, new_hash)", ""),
        ("await self._reset_step_to_pending(step)", "let reset := true in"),
        ("await self._skip(run, step_hash)", "let skip_reported := true in"),
        ("self.workflow.update_file_hashes(new_out_hashes, cause=HashUpdateCause.SUCCEEDED)",
         "let outs_recorded_succeeded := true in"),
        (R(r"step\.mark_completed\((?P<h>\w+), (?P<d>\w+)\)"), completed),
        ("self._report_step_counts()", ""),
        # the shape proposed for finding D37: the records of the inputs are compared once more with the
        # hashes the job was created with, inside the transaction that records the skip
        (R(r"overtaken = self\._inputs_overtaken\(step, inp_hashes\)"), recheck_stmt),
        (SET_STATE, set_state_rep("rp_")),
    ], [], final=P2RET, inline_db=True,
        cond_fn=_bool_expr("try_skip_job.phase2", {"new_hash is None": "(negb out_hash_ok)",
                                                     "new_hash is not None": "out_hash_ok",
                                                     "overtaken": "overtaken"}, digests2))
    phase2 = t.block(body[k + 1:], None)
    phase2 = phase2.replace("let rp_state_set := true in", "let repended := true in")
    out.append("(* Executor.try_skip_job after the output hashing: (_finalize_failed_run called, reset to pending,\n"
               "   update_file_hashes(new_out_hashes, SUCCEEDED) called, mark_completed(new_hash, False) called,\n"
               "   SKIP reported, set_state called instead because an input record was overtaken, its state, its\n"
               "   deferred flag).\n"
               "   `overtaken` = the result of Executor._inputs_overtaken when try_skip_job calls it. *)\n"
               "Definition try_skip_phase2_gen (out_hash_ok inp_equal out_equal overtaken : bool)\n"
               "    : bool * bool * bool * bool * bool * bool * N * bool :=\n"
               "  let finalized_failed := false in let reset := false in let outs_recorded_succeeded := false in\n"
               "  let completed := false in let skip_reported := false in let repended := false in\n"
               "  let rp_state := 0 in let rp_deferred := false in\n  "
               + phase2 + ".")
    if len(rechecks) > 1:
        raise TranslatorError("try_skip_job: _inputs_overtaken is called more than once")
    FS = ev["FileState"]
    if rechecks:
        if "overtaken" not in phase2.replace("(out_hash_ok inp_equal out_equal overtaken", ""):
            raise TranslatorError("try_skip_job: the result of _inputs_overtaken is not used")
        f = find_function(etree, "_inputs_overtaken", "Executor")
        if [a.arg for a in f.args.args] != ["step", "start_hashes"]:
            raise TranslatorError("_inputs_overtaken signature changed")
        fb = body_without_docstring(f)
        ft = [_norm(x) for x in fb]
        if len(fb) != 4 or ft[0] != "records = list(step.inp_paths())" \
                or ft[1] != "if len(records) != len(start_hashes): return True" \
                or not isinstance(fb[2], ast.For) or _norm(fb[2].target) != "rec" or _norm(fb[2].iter) != "records" \
                or ft[3] != "return False":
            raise TranslatorError(f"_inputs_overtaken: skeleton changed: {ft}")
        t2 = Table("_inputs_overtaken.loop", [("return True", ("return", "true"))], [
            (R(r"rec\.state not in (?P<set>\(.*\))"), lambda m: f"(negb {fs_in(ev, 'st')(m)})"),
            ("start_hashes.get(rec.path) != rec.hash", "(negb same_hash)"),
        ], final="false")
        out.append("(* try_skip_job re-reads the records of the inputs in the transaction that records the skip *)\n"
                   "Definition skip_rechecks_inputs : bool := true.\n"
                   "(* one iteration of the loop of Executor._inputs_overtaken (after the comparison of the number of\n"
                   "   records with the number of hashes the job was created with) *)\n"
                   "Definition overtaken_record_gen (st : N) (same_hash : bool) : bool :=\n  "
                   + t2.block(fb[2].body, None) + ".")
    else:
        out.append("(* try_skip_job does not re-read the records of the inputs when it records the skip (finding D37) *)\n"
                   "Definition skip_rechecks_inputs : bool := false.\n"
                   "Definition overtaken_record_gen (st : N) (same_hash : bool) : bool := false.")
    # record_run_started / _run_command are called by execute_job only
    for name in ("validate_dynamic_job", "try_skip_job"):
        txt = ast.unparse(find_function(etree, name, "Executor"))
        for bad in ("record_run_started", "_run_command", "launch_command", "record_run_stopped"):
            if bad in txt:
                raise TranslatorError(f"{name}: mentions {bad}")

    # hash cancellation and the output hashing
    _expect_skeleton("Executor._run_work_thread", find_function(etree, "_run_work_thread", "Executor"), [
        "with self._track_running(run): worker = ThreadWorker(work=work, job_i=run.job_i) run.worker = worker "
        "try: return await worker.run_in_thread() except HashCancelledError: self._fail_run_with_message(run, "
        "'Hash computation was cancelled because the build is shutting down.') return None "
        "except Exception as exc: self._fail_run_with_message(run, f'Hash computation failed: {exc}') return None "
        "finally: run.worker = None"])
    f = find_function(etree, "_fail_run_with_message", "Executor")
    if _norm(body_without_docstring(f)[0]) != "run.success = False":
        raise TranslatorError("_fail_run_with_message no longer starts with run.success = False")
    _expect_skeleton("Executor._compute_out_step_hash", find_function(etree, "_compute_out_step_hash", "Executor"), [
        "async with self.db: out_hashes = {rec.path: rec.hash for rec in run.step.out_paths()}",
        "result = await self._run_work_thread(run, functools.partial(compute_out_hashes, out_hashes))",
        "if result is None: return (None, {})",
        "if len(result.messages) > 0: run.out_missing.extend(result.messages) run.success = False",
        "step_hash = step_hash.with_out_hashes(result.all_hashes)",
        "return (step_hash, result.new_hashes)"])
    txt = _norm(find_function(etree, "_compute_inp_step_hash", "Executor"))
    for need in ("if result is None: return (None, {})",
                 "step_hash = StepHash.from_inp(run.step.label, result.all_hashes, {name: self.base_env.get(name) "
                 "for name in env_deps}, explained=self.explain_rerun, shell=shell, env_overrides=env_overrides)",
                 "return (step_hash, {})"):
        if need not in txt:
            raise TranslatorError(f"_compute_inp_step_hash: expected fragment missing: {need[:60]}")
    txt = _norm(find_function(etree, "_compute_full_step_hash", "Executor"))
    for need in ("if result is None: return (None, {}, {})",
                 "step_hash = StepHash.from_inp(run.step.label, inp_result.all_hashes, {name: self.base_env.get(name) "
                 "for name in env_deps}, explained=self.explain_rerun, shell=shell, env_overrides=env_overrides) "
                 "step_hash = step_hash.with_out_hashes(out_result.all_hashes)",
                 "out_hashes = {rec.path: rec.hash for rec in run.step.out_paths()}",
                 "if len(out_result.messages) > 0: run.out_missing.extend(out_result.messages) run.success = False"):
        if need not in txt:
            raise TranslatorError(f"_compute_full_step_hash: expected fragment missing: {need[:60]}")
    out.append("Definition hash_cancel_returns_none_and_fails_run : bool := true.")
    # the reporting helpers only report
    for name in ("_skip", "_noskip", "_outdated_dynamic"):
        f = find_function(etree, name, "Executor")
        for node in ast.walk(f):
            if isinstance(node, ast.Call):
                callee = ast.unparse(node.func)
                if callee not in ("self.reporter", "compare_step_hashes", "len", "pages.append", "'\\n'.join", "AssertionError"):
                    raise TranslatorError(f"Executor.{name} calls {callee}: not a pure reporting helper any more")
            if isinstance(node, (ast.Assign, ast.AugAssign)):
                for tg in (node.targets if isinstance(node, ast.Assign) else [node.target]):
                    if "." in ast.unparse(tg):
                        raise TranslatorError(f"Executor.{name} assigns to {ast.unparse(tg)}")

    # hash.py: the ingredient lists of the two digests (C13 proves that equal digests have equal lists)
    htree = parse_module(f"{CORE}/hash.py")
    _expect_skeleton("hash._update_file_hashes", find_function(htree, "_update_file_hashes"), [
        "for path in sorted(file_hashes): file_hash = file_hashes[path] hw.update(path) "
        "hw.update(file_hash.mode.to_bytes(8)) hw.update(file_hash.size.to_bytes(8)) hw.update(file_hash.digest)"])
    _expect_skeleton("StepHash.from_inp", find_function(htree, "from_inp", "StepHash"), [
        "env_overrides = {} if env_overrides is None else env_overrides", "hw = HashWords()", "hw.update(step_label)",
        "hw.update('__shell__')", "hw.update(bytes([int(shell)]))", "hw.update('__inp_paths__')",
        "_update_file_hashes(hw, inp_hashes)", "hw.update('__env_vars__')",
        "for env_var, value in sorted(env_values.items()): hw.update(env_var) hw.update(value)",
        "hw.update(b'__env_overrides__' if env_overrides else '__env_overrides__')",
        "for name, value in sorted(env_overrides.items()): hw.update(name) hw.update(value)",
        "inp_info = InpInfo(dict(inp_hashes), dict(env_values), dict(env_overrides)) if explained else None",
        "return cls(hw.digest(), inp_info)"])
    _expect_skeleton("StepHash.with_out_hashes", find_function(htree, "with_out_hashes", "StepHash"), [
        "hw = HashWords()", "_update_file_hashes(hw, out_hashes)",
        "out_info = OutInfo(dict(out_hashes)) if self.inp_info is not None else None",
        "return self.__class__(self.inp_digest, self.inp_info, hw.digest(), out_info)"])
    _expect_skeleton("hash.compute_out_hashes", find_function(htree, "compute_out_hashes"), [
        "messages = []", "new_out_hashes = {}", "all_out_hashes = {}",
        "for path in sorted(out_hashes): old_file_hash = out_hashes[path] "
        "new_file_hash = old_file_hash.refreshed(path, cancel_event) all_out_hashes[path] = new_file_hash "
        "if new_file_hash != old_file_hash: new_out_hashes[path] = new_file_hash "
        "if new_file_hash.is_unknown: messages.append(path)",
        "return HashComputeResult(messages, new_out_hashes, all_out_hashes)"])
    out.append("Definition step_hash_ingredients_as_reviewed : bool := true.")

    # Workflow.mark_step_pending ignores RUNNING and CHECKING steps (c's row is observed, this is
    # recorded for the design notes only)
    wtree = parse_module(f"{CORE}/workflow.py")
    f = find_function(wtree, "mark_step_pending", "Workflow")
    b = [_norm(x) for x in body_without_docstring(f)]
    ignores = "if state in (StepState.RUNNING, StepState.CHECKING): return" in b
    out.append(f"Definition mark_step_pending_ignores_checking : bool := {'true' if ignores else 'false'}.")
    return out


def _unknown_tag(t):
    raise TranslatorError(f"_determine_tag: unknown tag {t}")


def generate():
    ev = enum_values()
    FS, SS, AV = ev["FileState"], ev["StepState"], ev["Availability"]
    lines = [
        "(* GENERATED by translator/gen_fresh.py from /repo -- do not edit *)",
        "From Coq Require Import List NArith Bool.",
        "From SV Require Import lib.StampMap.",
        "Import ListNotations.",
        "Open Scope N_scope.",
        "Open Scope bool_scope.",
        "",
        "(* enums.py *)",
    ]
    for n, v in FS.items():
        lines.append(f"Definition FS_{n} : N := {v}.")
    lines.append("Definition all_file_states : list N := [" + "; ".join(str(v) for v in FS.values()) + "].")
    for n, v in SS.items():
        lines.append(f"Definition SS_{n} : N := {v}.")
    for n, v in AV.items():
        lines.append(f"Definition AV_{n} : N := {v}.")
    lines.append("")
    lines += ["(* scheduler.py *)"] + gen_scheduler() + [""]
    lines += gen_derive_job(ev) + [""]
    lines += ["(* step.py *)"] + gen_step(ev) + [""]
    lines += ["(* workflow.py *)"] + gen_workflow(ev) + [""]
    lines += ["(* director.py *)"] + gen_director(ev) + [""]
    lines += ["(* executor.py, hash.py *)"] + gen_executor(ev) + [""]
    lines += ["(* the CHECKING path: scheduler.py, job.py, executor.py, hash.py *)"] + gen_checking(ev) + [""]
    from stepup.core.workflow import Workflow
    import attrs as _attrs
    cap = [a.default for a in _attrs.fields(Workflow) if a.name == "defer_cap"]
    lines.append(f"Definition default_defer_cap : N := {cap[0]}.")
    return "\n".join(lines) + "\n", {"enums": ev, "defer_cap": cap[0]}
