"""Translator for C09: the WRITER INVENTORY of stepup/core.

Question answered on every run, from the source given by VERIF_REPO:

  1. Which SQL statements of the package write (INSERT / UPDATE / DELETE / REPLACE, also inside
     triggers and `ON CONFLICT DO UPDATE`) a column that the canonical dump of the stored workflow
     reads (harness/e2.py DUMP_COLUMNS = what model/Graph.v describes)?  Every such statement must be
     listed in MODELLED_WRITERS below with the function of model/Graph.v (GraphTree.v, GraphExt.v)
     that describes it.  A statement that is not listed, or a listed one whose table / column set /
     enclosing function changed, raises TranslatorError (fail closed).
  2. Every other write statement (scheduling caches, durations, outcomes, resources, nglob rows,
     values of environment variables, temp tables) is recorded with its table and column set and
     classified `frame`: proofs/GraphWriters.v proves, from the generated list, that none of them
     writes a column of the dump (`gen_writers_frame_ok`), so that they cannot change the model
     state, hence not the invariant.
  3. Which transactions (`async with <...>db:` blocks) reach a modelled writer through the
     name-based call graph of the package, and which operation of the alphabet of the model
     describes each of them (TRANSACTIONS below).  A new transaction block, or one whose set of
     reached writer functions changed, raises TranslatorError.

Statements with an interpolated table or column name are only accepted when listed in DYNAMIC_SQL
with the values the interpolation can take (checked against the call sites).

Output: coq/gen/GenWriters.v (definitions only).
"""
from __future__ import annotations

import ast
import re

from . import sqlexpr
from .astutil import REPO, TranslatorError, coq_str, functions_with_parents

CORE = "stepup/core"

# ---------------------------------------------------------------------------------------------
# Hand-written classification (the part a reviewer reads)
# ---------------------------------------------------------------------------------------------

# (file, enclosing function or module constant, verb, table) -> model function(s) describing it.
# The column sets are recomputed and must equal the recorded ones.
MODELLED_WRITERS = {
    # trellis.py ------------------------------------------------------------------------------
    ("trellis.py", "RECURSIVELY_SET_DETACHED", "UPDATE", "node"): (("detached",), "set_detached_rec"),
    ("trellis.py", "Node.detach", "UPDATE", "node"): (("creator", "detached"), "node_detach"),
    ("trellis.py", "Node.reattach", "UPDATE", "node"): (("creator", "detached"), "node_reattach"),
    ("trellis.py", "Node.add_source", "INSERT", "dependency"): (("*",), "add_dep"),
    ("trellis.py", "Node.del_sources", "DELETE", "dependency"): (("*",), "del_deps_where (amend/reset_for_rerun)"),
    ("trellis.py", "Node.del_all_sources", "DELETE", "dependency"): (("*",), "del_all_sources"),
    ("trellis.py", "Trellis.create", "UPDATE", "node"): (("creator", "detached"), "create (partial recycle)"),
    ("trellis.py", "Trellis.create", "INSERT", "node"): (("*",), "create / init_st (root)"),
    ("trellis.py", "Trellis.delete_detached", "DELETE", "node"): (("*",), "delete_node"),
    # file.py ---------------------------------------------------------------------------------
    ("file.py", "trigger:file_clear_hash", "UPDATE", "file"): (("hash",), "clears_hash in set_fstate_hash"),
    ("file.py", "File.initialize_row", "INSERT", "file"): (("*", "state"), "file_initialize_row"),
    ("file.py", "File.set_state", "UPDATE", "file"): (("state",), "set_fstate"),
    # step.py ---------------------------------------------------------------------------------
    ("step.py", "trigger:step_reset_holding", "UPDATE", "step"): (("_holding",), "set_sstate"),
    ("step.py", "trigger:step_clear_deferred", "UPDATE", "step"): (("deferred",), "set_sstate"),
    ("step.py", "trigger:step_reset_defer_count", "UPDATE", "step"): (("defer_count",), "set_sstate"),
    ("step.py", "trigger:step_node_undefer_reattached", "UPDATE", "step"): (("deferred",), "undefer_post (GraphExt.v)"),
    ("step.py", "trigger:step_hash_ins", "UPDATE", "step"): (("_has_hash",), "has_hash (dump_of)"),
    ("step.py", "trigger:step_hash_del", "UPDATE", "step"): (("_has_hash",), "has_hash (dump_of)"),
    ("step.py", "Step.initialize_row", "DELETE", "step"): (("*",), "step_initialize_row"),
    ("step.py", "Step.initialize_row", "INSERT", "step"): (("*",), "step_initialize_row"),
    ("step.py", "Step.after_recycle", "UPDATE", "step"): (("_holding", "need", "shell"), "define_step (full recycle: need, holding 0)"),
    ("step.py", "Step.set_state", "UPDATE", "step"): (("deferred", "state"), "set_sstate"),
    ("step.py", "Step.hold", "UPDATE", "step"): (("_holding",), "hold"),
    ("step.py", "Step.release", "UPDATE", "step"): (("_holding",), "release"),
    ("step.py", "Step.add_env_deps", "REPLACE", "env_var"): (("*",), "add_env (replace)"),
    ("step.py", "Step.amend_env_deps", "INSERT", "env_var"): (("*",), "add_env (ignore)"),
    ("step.py", "Step.reset_for_rerun", "DELETE", "dynamic_dep"): (("*",), "reset_for_rerun"),
    ("step.py", "Step.reset_for_rerun", "DELETE", "env_var"): (("*",), "reset_for_rerun"),
    ("step.py", "Step._increment_defer_count", "UPDATE", "step"): (("defer_count",), "mark_completed (wants_defer)"),
    ("step.py", "Step.set_hash", "REPLACE", "step_hash"): (("*",), "store_hash"),
    ("step.py", "Step.delete_hash", "DELETE", "step_hash"): (("*",), "delete_hash"),
    # workflow.py -----------------------------------------------------------------------------
    ("workflow.py", "Workflow.update_file_hashes", "UPDATE", "file"): (("hash", "state"), "set_fstate_hash in update_file_hashes"),
    ("workflow.py", "Workflow.register_static_tree", "UPDATE", "node"): (("creator",), "register_static_tree (hand-over)"),
    ("workflow.py", "Workflow.amend_step", "INSERT", "dynamic_dep"): (("*",), "add_dep ... true (amend_step)"),
    # startup.py / finalize.py: raw statements outside the node classes --------------------------
    ("startup.py", "reset_interrupted_steps", "UPDATE", "step"): (("state",), "reset_interrupted (set_sstate_raw)"),
    ("finalize.py", "UPDATE_OPTIONAL_STEPS", "UPDATE", "step"): (("state",), "revert_optional (GraphExt.v)"),
    ("finalize.py", "UPDATE_OPTIONAL_TO_BE_DELETED", "UPDATE", "file"): (("hash", "state"), "revert_optional (GraphExt.v)"),
}

# f-strings whose table or column is interpolated: (file, function) -> the columns it can name
DYNAMIC_SQL = {
    ("scheduler.py", "Scheduler._clear_flag"): {
        "table": "step", "columns": ("_check_after", "_check_ready", "_check_safe"),
        # every call site passes a literal among these
        "callers_pass_literal": "_clear_flag",
    },
}

# Transactions (async with ...db) that reach a modelled writer:
# (file, function, ordinal of the block in the function) -> (writer API called in the block, operation(s) of the
# model alphabet; `*` = a sequence of them inside the one transaction).
TRANSACTIONS = {
    ("builder.py", "Builder.finalize", 0): (("delete_detached",), "OpDeleteDetached"),
    ("director.py", "DirectorHandler.amend_step", 0): (("amend_step",), "OpAmendStep"),
    ("director.py", "DirectorHandler.declare_static", 0):
        (("declare_static_files", "register_static_tree"), "OpRegisterTree* ; OpDeclareStatic (composition inside one transaction)"),
    ("director.py", "DirectorHandler.define_step", 0): (("define_step",), "OpDefineStep"),
    ("director.py", "DirectorHandler.hold_dispatch", 0): (("hold",), "OpHold"),
    ("director.py", "DirectorHandler.release_dispatch", 0): (("release",), "OpRelease"),
    ("director.py", "DirectorHandler.start_build_phase", 0): (("mark_step_pending",), "OpMarkStepPending*"),
    ("director.py", "serve", 0): (("initialize_boot",), "OpInitBoot (GraphExt.v)"),
    ("executor.py", "Executor._finalize_failed_run", 0): (("mark_completed",), "OpExecEnd l [] CFailed [] false false"),
    ("executor.py", "Executor._new_run", 0): (("update_file_hashes",), "OpUpdateHashes CFailed"),
    ("executor.py", "Executor._reset_step_to_pending", 0): (("delete_hash", "reset_for_rerun", "set_state"), "OpResetToPending"),
    ("executor.py", "Executor._run_hash_job", 0): (("update_file_hashes",), "OpUpdateHashes CConfirmed | CExternal"),
    ("executor.py", "Executor.execute_job", 0): (("reset_for_rerun",), "OpResetForRerun"),
    ("executor.py", "Executor.execute_job", 1):
        (("_classify_execution", "mark_completed", "update_file_hashes"), "OpExecEnd (pre = unexpected input changes)"),
    ("executor.py", "Executor.try_skip_job", 0):
        (("mark_completed", "set_state", "update_file_hashes"), "OpSkipOvertaken (GraphExt.v) | OpExecEnd l [] CSucceeded hs true false"),
    ("executor.py", "Executor.validate_dynamic_job", 0): (("set_state",), "OpValidatePending"),
    ("finalize.py", "revert_optional_steps", 0):
        (("UPDATE_OPTIONAL_STEPS", "UPDATE_OPTIONAL_TO_BE_DELETED"), "OpRevertOptional (GraphExt.v)"),
    ("scheduler.py", "Scheduler.pop_next_job", 0): (("set_state",), "OpDispatch"),
    ("startup.py", "rescan_env_vars", 1): (("mark_step_pending",), "OpMarkStepPending* (env_var.value: frame)"),
    ("startup.py", "rescan_nglobs", 1): (("persist_nglob_matches",), "OpInvalidateStep* (GraphExt.v; nglob.data: frame)"),
    ("startup.py", "reset_interrupted_steps", 0): (("<inline UPDATE step>",), "OpResetInterruptedRaw (GraphExt.v)"),
    ("startup.py", "reset_interrupted_steps", 1): (("mark_step_pending",), "OpMarkStepPending* (attached FAILED steps)"),
    ("trellis.py", "Trellis.initialize", 0): (("_check_consistency", "create"), "init_st | OpCheckConsistency (GraphCheck.v)"),
    ("watcher.py", "Watcher.run_once", 2): (("process_nglob_changes",), "OpInvalidateStep* (GraphExt.v)"),
}


# ---------------------------------------------------------------------------------------------
# SQL statement scanner
# ---------------------------------------------------------------------------------------------

_WS = re.compile(r"\s+")


def _norm(s: str) -> str:
    return _WS.sub(" ", sqlexpr.strip_comments(s)).strip()


_KEYWORD_STOP = re.compile(r"\b(WHERE|FROM|RETURNING)\b", re.I)


def _set_columns(text: str, start: int) -> tuple[list[str], int]:
    """Parse `col = expr, col = expr ...` at depth 0 starting at `start`; stops at a depth-0
    WHERE / FROM / RETURNING / `;` / end.  Returns (columns, end index)."""
    cols, depth, i, n = [], 0, start, len(text)
    expect_col = True
    while i < n:
        ch = text[i]
        if ch == "(":
            depth += 1
        elif ch == ")":
            if depth == 0:
                break
            depth -= 1
        elif ch == "'" :
            j = text.find("'", i + 1)
            i = n if j < 0 else j
        elif depth == 0:
            if ch == ";":
                break
            m = _KEYWORD_STOP.match(text, i)
            if m and (i == 0 or not (text[i - 1].isalnum() or text[i - 1] == "_")):
                break
            if expect_col:
                m = re.match(r"\s*([A-Za-z_{][\w{}]*)\s*=", text[i:])
                if m:
                    cols.append(m.group(1))
                    i += m.end()
                    expect_col = False
                    continue
                if not ch.isspace():
                    raise TranslatorError(f"SET list not recognised near: {text[i:i + 60]!r}")
            elif ch == ",":
                expect_col = True
        i += 1
    if not cols:
        raise TranslatorError(f"empty SET list in: {text[start:start + 80]!r}")
    return cols, i


_STMT = re.compile(
    r"\b(?:(UPDATE)\s+(?:OR\s+\w+\s+)?([\w.{}]+)\s+SET\s"
    r"|(INSERT|REPLACE)\s+(?:OR\s+(\w+)\s+)?INTO\s+([\w.{}]+)"
    r"|(DELETE)\s+FROM\s+([\w.{}]+)"
    r"|DO\s+(UPDATE)\s+SET\s)", re.I)


def scan_writes(sql: str):
    """[(verb, table, cols)] of one SQL text (may hold several statements; trigger bodies are NOT
    excluded here: callers pass trigger bodies separately and the enclosing CREATE TRIGGER text is
    removed first)."""
    text = _norm(sql)
    out = []
    last_insert_table = None
    for m in _STMT.finditer(text):
        if m.group(1):
            cols, _ = _set_columns(text, m.end())
            out.append(("UPDATE", m.group(2), tuple(sorted(set(cols)))))
        elif m.group(3):
            verb = "REPLACE" if (m.group(3).upper() == "REPLACE" or (m.group(4) or "").upper() == "REPLACE") else "INSERT"
            last_insert_table = m.group(5)
            out.append((verb, m.group(5), ("*",)))
        elif m.group(6):
            out.append(("DELETE", m.group(7), ("*",)))
        else:
            # ON CONFLICT ... DO UPDATE SET: an update of the table of the preceding INSERT
            if last_insert_table is None:
                raise TranslatorError(f"DO UPDATE SET without INSERT in: {text[:80]!r}")
            cols, _ = _set_columns(text, m.end())
            verb, table, old = out[-1]
            out[-1] = (verb, table, tuple(sorted(set(old) | set(cols))))
    return out


_CREATE_TABLE = re.compile(r"\bCREATE\s+(TEMP\s+|TEMPORARY\s+)?TABLE\s+(?:IF\s+NOT\s+EXISTS\s+)?((?:temp\.)?\w+)", re.I)
_CREATE_TRIGGER = re.compile(
    r"\bCREATE\s+(TEMP\s+|TEMPORARY\s+)?TRIGGER\s+(?:IF\s+NOT\s+EXISTS\s+)?(\w+)\s+(?:AFTER|BEFORE|INSTEAD\s+OF)\s+"
    r"(?:INSERT|DELETE|UPDATE(?:\s+OF\s+[\w, ]+?)?)\s+ON\s+(\w+)\s+(?:WHEN\s+.*?\s+)?BEGIN\s+(.*?)\bEND\s*;", re.I | re.S)
_WRITE_WORD = re.compile(r"\b(INSERT|UPDATE|DELETE|REPLACE|DROP|CREATE|ALTER)\b")


def _sql_like(text: str) -> bool:
    """Does the string contain an SQL write / DDL statement (not prose)?"""
    t = _norm(text)
    return bool(re.search(r"\b(INSERT\s+(OR\s+\w+\s+)?INTO|REPLACE\s+INTO|UPDATE\s+(OR\s+\w+\s+)?[\w.{}]+\s+SET\s|DELETE\s+FROM\s"
                          r"|CREATE\s+(TEMP\s+|TEMPORARY\s+)?(TABLE|TRIGGER)|DROP\s+(TABLE|TRIGGER|\{\}))", t))


# ---------------------------------------------------------------------------------------------
# Source walk: every string expression outside docstrings
# ---------------------------------------------------------------------------------------------


def _literal(node) -> str | None:
    if isinstance(node, ast.Constant) and isinstance(node.value, str):
        return node.value
    if isinstance(node, ast.JoinedStr):
        return "".join(v.value if isinstance(v, ast.Constant) else "{}" for v in node.values)
    if isinstance(node, ast.BinOp) and isinstance(node.op, ast.Add):
        a, b = _literal(node.left), _literal(node.right)
        if a is not None and b is not None:
            return a + b
        # `CONSTANT + "..."`: keep the literal part, mark the rest
        if a is not None or b is not None:
            return (a if a is not None else "{}") + (b if b is not None else "{}")
    return None


def _docstring_nodes(tree):
    ids = set()
    for node in ast.walk(tree):
        if isinstance(node, (ast.Module, ast.ClassDef, ast.FunctionDef, ast.AsyncFunctionDef)):
            body = node.body
            if body and isinstance(body[0], ast.Expr) and isinstance(body[0].value, ast.Constant) \
                    and isinstance(body[0].value.value, str):
                ids.add(id(body[0].value))
        # a bare string statement anywhere (attribute docstrings)
        if isinstance(node, ast.Expr) and isinstance(node.value, ast.Constant) and isinstance(node.value.value, str):
            ids.add(id(node.value))
    return ids


def _owner_map(tree):
    """id(node) -> qualified name of the innermost enclosing function; module-level statements map
    to the name of the assigned constant (or '<module>')."""
    owner = {}

    def mark(node, name):
        for n in ast.walk(node):
            owner.setdefault(id(n), name)

    for qual, fn in sorted(functions_with_parents(tree), key=lambda qf: -qf[0].count(".")):
        # innermost functions first: nested functions keep their own name
        for n in ast.walk(fn):
            if id(n) not in owner:
                owner[id(n)] = qual
    for st in tree.body:
        if isinstance(st, (ast.Assign, ast.AnnAssign)):
            tgt = st.targets[0] if isinstance(st, ast.Assign) else st.target
            name = tgt.id if isinstance(tgt, ast.Name) else "<module>"
            mark(st, name)
        else:
            mark(st, "<module>")
    return owner


def string_expressions(tree):
    """(owner, text) for every maximal string expression of the module outside docstrings."""
    docs = _docstring_nodes(tree)
    owner = _owner_map(tree)
    inner = set()
    res = []
    for node in ast.walk(tree):
        if id(node) in inner or id(node) in docs:
            continue
        text = None
        if isinstance(node, (ast.JoinedStr, ast.BinOp)) or (isinstance(node, ast.Constant) and isinstance(node.value, str)):
            text = _literal(node)
        if text is None:
            continue
        for sub in ast.walk(node):
            if sub is not node:
                inner.add(id(sub))
        res.append((owner.get(id(node), "<module>"), text))
    return res


# ---------------------------------------------------------------------------------------------
# Inventory
# ---------------------------------------------------------------------------------------------


def dump_columns():
    try:
        from harness import e2
    except Exception as e:  # noqa: BLE001
        raise TranslatorError(f"cannot import harness.e2: {e}") from e
    cols = getattr(e2, "DUMP_COLUMNS", None)
    if not isinstance(cols, dict):
        raise TranslatorError("harness/e2.py: DUMP_COLUMNS missing")
    return {t: tuple(sorted(c)) for t, c in cols.items()}


def inventory():
    files = sorted((REPO / CORE).glob("*.py"))
    if len(files) < 30:
        raise TranslatorError(f"{CORE}: only {len(files)} modules found")
    tables = {}      # name -> "persistent" | "temp"
    writers = []     # (file, owner, verb, table, cols)
    for path in files:
        try:
            tree = ast.parse(path.read_text(), filename=str(path))
        except SyntaxError as e:
            raise TranslatorError(f"cannot parse {path.name}: {e}") from e
        for owner, text in string_expressions(tree):
            if not _WRITE_WORD.search(text) or not _sql_like(text):
                continue
            norm = _norm(text)
            for m in _CREATE_TABLE.finditer(norm):
                name = m.group(2)
                temp = bool(m.group(1)) or name.lower().startswith("temp.")
                name = name.split(".")[-1]
                kind = "temp" if temp else "persistent"
                if tables.get(name, kind) != kind:
                    raise TranslatorError(f"table {name} created both temp and persistent")
                tables[name] = kind
            # `CREATE TEMP TABLE x AS SELECT`: recorded above.  Triggers: own records.
            rest = norm
            for m in _CREATE_TRIGGER.finditer(norm):
                temp, name, on_table, body = m.groups()
                for verb, table, cols in scan_writes(body):
                    writers.append((path.name, f"trigger:{name}", verb, table, cols))
            rest = _CREATE_TRIGGER.sub(" ", norm)
            if re.search(r"\bCREATE\s+(TEMP\s+|TEMPORARY\s+)?TRIGGER\b", rest, re.I):
                raise TranslatorError(f"{path.name}:{owner}: CREATE TRIGGER not recognised")
            for verb, table, cols in scan_writes(rest):
                writers.append((path.name, owner, verb, table, cols))
    return tables, writers


def classify(tables, writers, dcols):
    rows, seen = [], set()
    for file, owner, verb, table, cols in writers:
        dyn = DYNAMIC_SQL.get((file, owner))
        if "{" in table or any("{" in c for c in cols):
            if dyn is None:
                raise TranslatorError(f"{file}:{owner}: interpolated table/column in `{verb} {table} {cols}` (not in DYNAMIC_SQL)")
            if dyn.get("ddl_only"):
                continue
            table, cols = dyn["table"], tuple(sorted(dyn["columns"]))
        tname = table.split(".")[-1]
        if tname not in tables:
            raise TranslatorError(f"{file}:{owner}: {verb} on unknown table {table}")
        temp = tables[tname] == "temp"
        touched = ()
        if not temp and tname in dcols:
            touched = dcols[tname] if "*" in cols else tuple(c for c in cols if c in dcols[tname])
        key = (file, owner, verb, tname)
        if touched:
            exp = MODELLED_WRITERS.get(key)
            if exp is None:
                raise TranslatorError(
                    f"NEW WRITER of the stored workflow: {file}:{owner}: {verb} {tname} {list(cols)} writes the "
                    f"dump columns {list(touched)} and is not described by the model (MODELLED_WRITERS)")
            if tuple(sorted(exp[0])) != tuple(sorted(cols)):
                raise TranslatorError(f"{file}:{owner}: {verb} {tname}: columns {list(cols)}, the model knows {list(exp[0])}")
            seen.add(key)
            rows.append((file, owner, verb, tname, cols, "model", exp[1]))
        else:
            if key in MODELLED_WRITERS:
                raise TranslatorError(f"{file}:{owner}: {verb} {tname} {list(cols)} no longer writes a dump column")
            rows.append((file, owner, verb, tname, cols, "temp" if temp else "frame", ""))
    missing = set(MODELLED_WRITERS) - seen
    if missing:
        raise TranslatorError(f"modelled writers not found in the source any more: {sorted(missing)}")
    return sorted(set(rows))


# ---------------------------------------------------------------------------------------------
# Transactions and the name-based call graph
# ---------------------------------------------------------------------------------------------


def _called_names(node):
    names = set()
    for n in ast.walk(node):
        if isinstance(n, ast.Call):
            f = n.func
            if isinstance(f, ast.Attribute):
                names.add(f.attr)
            elif isinstance(f, ast.Name):
                names.add(f.id)
            # callbacks: a function or bound method handed over as an argument (call_later, partial,
            # add_done_callback, to_thread, sorted(key=...), ...) counts as called by the enclosing function
            for a in list(n.args) + [k.value for k in n.keywords]:
                if isinstance(a, ast.Starred):
                    a = a.value
                if isinstance(a, ast.Attribute):
                    names.add("cb:" + a.attr)
                elif isinstance(a, ast.Name):
                    names.add("cb:" + a.id)
                elif isinstance(a, ast.Lambda):
                    names |= _called_names(a.body)
        # SQL constants used by name: db.execute(UPDATE_OPTIONAL_STEPS)
        if isinstance(n, ast.Name) and n.id.isupper():
            names.add(n.id)
    return names


def _is_db_with(item) -> bool:
    e = item.context_expr
    src = ast.unparse(e)
    return bool(re.fullmatch(r"(\w+\.)*_?db", src))


GRAPH_MODULES = ("trellis.py", "workflow.py", "file.py", "step.py", "static_tree.py")
# method names too generic to resolve by name (they are defined on unrelated classes too)
_AMBIGUOUS = {"get", "add", "items", "values", "keys", "execute", "executemany", "update", "clear", "pop",
              "append", "extend", "discard", "remove", "format", "join", "close", "put", "set", "run", "stop",
              "start", "wait", "cancel", "send", "write", "read", "copy", "sort", "index", "count", "acquire"}


def call_graph():
    """defs: short name -> set of qualified names; calls: qualified name -> set of short names."""
    defs, calls, trees = {}, {}, {}
    for path in sorted((REPO / CORE).glob("*.py")):
        tree = ast.parse(path.read_text(), filename=str(path))
        trees[path.name] = tree
        for qual, fn in functions_with_parents(tree):
            full = f"{path.name}:{qual}"
            defs.setdefault(qual.split(".")[-1], set()).add(full)
            calls[full] = _called_names(fn) - _AMBIGUOUS
    return defs, calls, trees


def _resolve(name, from_file, defs):
    if name.startswith("cb:"):
        name = name[3:]
    """Functions a call of `name` made in `from_file` may denote: a definition of the same file,
    or a method / function of the graph modules (name-based: sound over-approximation for the calls
    that go through Workflow / Node objects; callbacks are not followed)."""
    return {g for g in defs.get(name, ()) if g.split(":")[0] == from_file or g.split(":")[0] in GRAPH_MODULES}


def transactions(rows):
    defs, calls, trees = call_graph()
    prim_funcs = {f"{f}:{o}" for f, o, v, t, c, cls, _ in rows if cls == "model" and not o.startswith("trigger:")}
    prim_consts = {o for f, o, v, t, c, cls, _ in rows if cls == "model" and o.isupper()}
    reach = {f: ({f} if f in prim_funcs else set()) for f in calls}
    for f, names in calls.items():
        reach[f] |= {f"const:{n}" for n in names if n in prim_consts}
    changed = True
    while changed:
        changed = False
        for f, names in calls.items():
            acc = reach[f]
            before = len(acc)
            for n in names:
                for g in _resolve(n, f.split(":")[0], defs):
                    acc |= reach[g]
            if len(acc) != before:
                changed = True
    best = {}
    for fname, tree in trees.items():
        for qual, fn in functions_with_parents(tree):
            k = 0
            for n in ast.walk(fn):
                if isinstance(n, (ast.AsyncWith, ast.With)) and any(_is_db_with(it) for it in n.items):
                    names = set()
                    for st in n.body:
                        names |= _called_names(st)
                    names -= _AMBIGUOUS
                    api = set()
                    # write statements spelled out inside the block itself
                    for st in n.body:
                        for sub in ast.walk(st):
                            txt = _literal(sub) if isinstance(sub, (ast.Constant, ast.JoinedStr)) else None
                            if txt and _WRITE_WORD.search(txt) and _sql_like(txt):
                                for verb, table, cols in scan_writes(txt):
                                    if (fname, qual, verb, table.split(".")[-1]) in MODELLED_WRITERS:
                                        api.add(f"<inline {verb} {table}>")
                    for nm in sorted(names):
                        r = set()
                        if nm in prim_consts:
                            r.add(f"const:{nm}")
                        for g in _resolve(nm, fname, defs):
                            r |= reach[g]
                        if r:
                            api.add(nm)
                    best[(fname, qual, k)] = tuple(sorted(api))
                    k += 1
    return best


# ---------------------------------------------------------------------------------------------
# Rendering
# ---------------------------------------------------------------------------------------------


# Foreign keys: (table, column) -> (referenced table, ON DELETE action) and what the model does about it
FOREIGN_KEYS = {
    ("node", "creator"): ("node", None, "inv_local_b: the creator exists; delete_detached only deletes nodes without products"),
    ("dependency", "source"): ("node", None, "inv_deps_b; deletable: no outgoing edge"),
    ("dependency", "sink"): ("node", None, "inv_deps_b; delete_node removes the incoming edges first (del_all_sources)"),
    ("file", "node"): ("node", "CASCADE", "delete_node removes the file row"),
    ("step", "node"): ("node", "CASCADE", "delete_node removes the step row"),
    ("step_hash", "node"): ("node", "CASCADE", "delete_node removes the shash entry"),
    ("env_var", "node"): ("node", "CASCADE", "delete_node removes the env rows"),
    ("dynamic_dep", "i"): ("dependency", "CASCADE", "the dynamic flag is a field of the edge (ddyn)"),
    ("nglob", "node"): ("node", "CASCADE", "frame: table outside the dump"),
    ("step_outcome", "node"): ("node", "CASCADE", "frame: table outside the dump"),
    ("step_resource", "node"): ("node", "CASCADE", "frame: table outside the dump"),
    ("step_subprocess", "node"): ("node", "CASCADE", "frame: table outside the dump"),
}

# CHECK constraints that mention a dump column: normalised text (integers = enum values) -> the clause of
# inv_b (model/GraphInv.v) that implies it, or the reason why it is not a clause
CHECK_CLAUSES = {
    ("node", "detached IN (FALSE, TRUE)"): "type: ndet : bool",
    ("node", "kind = 'root' OR i != 1"): "inv_nodes_b (I0): keys are (kind,label); exactly one root key",
    ("node", "kind != 'root' OR i = 1"): "inv_nodes_b (I0): no other root-kind key",
    ("node", "kind = 'root' OR creator IS NOT NULL OR detached"): "inv_local_b (I1): no creator -> detached",
    ("node", "kind = 'root' OR creator IS NULL OR creator != i"): "inv_local_b (I6): the creator is another node",
    ("node", "kind != 'root' OR creator IS i"): "inv_nodes_b (I0): root row = (root, creator root, attached)",
    ("node", "kind != 'root' OR NOT detached"): "inv_nodes_b (I0)",
    ("node", "kind != 'root' OR label = ''"): "inv_nodes_b (I0): root_key = (KRoot, [])",
    ("file", "state >= 11 AND state <= 18"): "type: fstate (GraphTables.v: codes = enums.py)",
    ("file", "state NOT IN (14, 16, 17) OR hash IS NOT NULL"): "inv_fhash_b (I5a), first half; second half = trigger file_clear_hash",
    ("file", "hash IS NULL OR json_valid(hash)"): "abstraction: hashes are identifiers (option N)",
    ("step", "state >= 21 AND state <= 25"): "type: sstate",
    ("step", "need IN (31, 32, 34)"): "type: need",
    ("step", "deferred IN (0, 1)"): "type: sdef : bool",
    ("step", "defer_count >= 0"): "type: sdc : N",
    ("step", "_holding >= 0"): "type: shold : N",
    ("step", "_has_hash IN (0, 1)"): "dump_of: has_hash (mirror of step_hash, triggers step_hash_ins/_del); inv_rows_b: shash within steps",
    ("step", "NOT deferred OR state = 21"): "inv_step_b (I5b): deferred -> PENDING",
    ("env_var", "dynamic IN (0, 1)"): "type: edyn : bool",
}


def constraint_census(dcols):
    """Every FOREIGN KEY and every CHECK (of a persistent table) that mentions a dump column must be
    listed above; the others are recorded."""
    from . import gen_graph
    mods = {"trellis": "TRELLIS_SCHEMA", "file": "FILE_SCHEMA", "step": "STEP_SCHEMA", "workflow": "WORKFLOW_SCHEMA"}
    fks, checks, other_checks = {}, [], 0
    for mod, const in mods.items():
        script = sqlexpr.strip_comments(gen_graph._const(gen_graph._import(f"stepup.core.{mod}"), const))
        for m in re.finditer(r"CREATE TABLE IF NOT EXISTS (\w+)\s*\(", script):
            table = m.group(1)
            start = m.end() - 1
            end = gen_graph._matching_paren(script, start)
            body = script[start + 1:end]
            for fk in re.finditer(r"FOREIGN KEY \((\w+)\) REFERENCES (\w+)\((\w+)\)(?:\s+ON DELETE (\w+(?: \w+)?))?", body):
                fks[(table, fk.group(1))] = (fk.group(2), fk.group(4))
            if len(re.findall(r"\bREFERENCES\b", body)) != len(re.findall(r"FOREIGN KEY \(", body)):
                raise TranslatorError(f"table {table}: a REFERENCES clause that is not a table-level FOREIGN KEY")
            for c in gen_graph.table_checks(script, table):
                cols = set(re.findall(r"[A-Za-z_]\w*", c))
                if table in dcols and cols & set(dcols[table]):
                    if (table, c) not in CHECK_CLAUSES:
                        raise TranslatorError(f"table {table}: CHECK ({c}) on a dump column is not classified (CHECK_CLAUSES)")
                    checks.append((table, c, CHECK_CLAUSES[(table, c)]))
                else:
                    other_checks += 1
    got = {k: (v[0], v[1]) for k, v in fks.items()}
    want = {k: (v[0], v[1]) for k, v in FOREIGN_KEYS.items()}
    if got != want:
        raise TranslatorError(f"foreign keys changed: {sorted(set(got.items()) ^ set(want.items()))}")
    missing = set(CHECK_CLAUSES) - {(t, c) for t, c, _ in checks}
    if missing:
        raise TranslatorError(f"classified CHECK constraints not found any more: {sorted(missing)}")
    return checks, other_checks


def facts():
    dcols = dump_columns()
    tables, writers = inventory()
    for t in dcols:
        if tables.get(t) != "persistent":
            raise TranslatorError(f"dump table {t} is not a persistent table of the schema")
    rows = classify(tables, writers, dcols)
    tx = transactions(rows)
    reaching = {k: v for k, v in tx.items() if v}
    for k, api in sorted(reaching.items()):
        exp = TRANSACTIONS.get(k)
        if exp is None:
            raise TranslatorError(f"NEW TRANSACTION writing the stored workflow: {k[0]}:{k[1]} (block {k[2]}) calls "
                                  f"{list(api)}; not mapped to an operation of the model (TRANSACTIONS)")
        if tuple(sorted(exp[0])) != tuple(sorted(api)):
            raise TranslatorError(f"transaction {k[0]}:{k[1]} (block {k[2]}) now calls {list(api)}, the model knows {list(exp[0])}")
    gone = set(TRANSACTIONS) - set(reaching)
    if gone:
        raise TranslatorError(f"transactions of the model not found in the source any more: {sorted(gone)}")
    checks, other_checks = constraint_census(dcols)
    return {"tables": tables, "rows": rows, "dump_columns": dcols, "transactions": tx, "checks": checks,
            "other_checks": other_checks}


def render(f) -> str:
    L = ["(* GENERATED by translator/gen_writers.py from every module of stepup/core. Do not edit. *)",
         "From Coq Require Import List NArith Bool.", "From SV Require Import lib.Bytes.",
         "Import ListNotations.", "Open Scope N_scope.", "",
         "(* columns read by the canonical dump (harness/e2.py DUMP_COLUMNS) *)",
         "Definition gen_dump_columns : list (str * list str) := ["]
    L.append(";\n".join(f"  ({coq_str(t)}, [{'; '.join(coq_str(c) for c in cs)}])"
                        for t, cs in sorted(f["dump_columns"].items())))
    L += ["].", "",
          "(* every write statement of the package: (table, columns written (\"*\" = whole row), class)",
          "   class 0 = frame (persistent table, no dump column), 1 = described by the model, 2 = temp table *)",
          "Definition gen_writers : list (str * list str * N) := ["]
    code = {"frame": 0, "model": 1, "temp": 2}
    items = []
    for file, owner, verb, table, cols, cls, fn in f["rows"]:
        items.append(f"  (* {file}:{owner}: {verb}{' -> ' + fn if fn else ''} *)\n"
                     f"  ({coq_str(table)}, [{'; '.join(coq_str(c) for c in cols)}], {code[cls]})")
    L.append(";\n".join(items))
    L += ["].", "", "(* transactions (`async with ...db` blocks) and the writer API they call; empty = read-only or frame only:"]
    for (file, fn, k), api in sorted(f["transactions"].items()):
        exp = TRANSACTIONS.get((file, fn, k))
        L.append(f"     {file}:{fn}#{k}: {', '.join(api) if api else '-'}{'  =>  ' + exp[1] if exp else ''}")
    L += ["*)", "", "(* CHECK constraints on dump columns and the clause of the invariant that covers them:"]
    for t, c, why in f["checks"]:
        L.append(f"     {t}: CHECK ({c})  =>  {why}")
    L += [f"   ({f['other_checks']} further CHECK constraints mention no dump column)", "   foreign keys:"]
    for (t, c), (rt, act, why) in sorted(FOREIGN_KEYS.items()):
        L.append(f"     {t}.{c} -> {rt}{' ON DELETE ' + act if act else ''}  =>  {why}")
    L += ["*)", "",
          "(* persistent tables of the schema *)",
          "Definition gen_persistent_tables : list str := ["
          + "; ".join(coq_str(t) for t, k in sorted(f["tables"].items()) if k == "persistent") + "].", ""]
    return "\n".join(L)


def generate(ctx):
    f = facts()
    ctx.write_gen("GenWriters.v", render(f))
    n = {"model": 0, "frame": 0, "temp": 0}
    for r in f["rows"]:
        n[r[5]] += 1
    try:
        ctx.stats["writer_inventory"] = n
        ctx.stats["transactions_writing_the_graph"] = len([1 for v in f["transactions"].values() if v])
        ctx.stats["transactions_total"] = len(f["transactions"])
    except AttributeError:
        pass
    return f


if __name__ == "__main__":
    f = facts()
    for r in f["rows"]:
        print(r)
    print(f["tables"])
