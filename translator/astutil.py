"""Small helpers shared by the fail-closed translators."""

from __future__ import annotations

import ast
from pathlib import Path

import os
REPO = Path(os.environ.get("VERIF_REPO", "/repo"))


class TranslatorError(Exception):
    pass


def parse_module(rel: str) -> ast.Module:
    path = REPO / rel
    try:
        return ast.parse(path.read_text(), filename=str(path))
    except (OSError, SyntaxError) as e:
        raise TranslatorError(f"cannot parse {rel}: {e}") from e


def find_function(tree: ast.AST, name: str, cls: str | None = None) -> ast.FunctionDef | ast.AsyncFunctionDef:
    scope = tree
    if cls is not None:
        for node in ast.walk(tree):
            if isinstance(node, ast.ClassDef) and node.name == cls:
                scope = node
                break
        else:
            raise TranslatorError(f"class {cls} not found")
    for node in ast.walk(scope):
        if isinstance(node, (ast.FunctionDef, ast.AsyncFunctionDef)) and node.name == name:
            return node
    raise TranslatorError(f"function {name} not found")


def body_without_docstring(fn) -> list[ast.stmt]:
    body = list(fn.body)
    if body and isinstance(body[0], ast.Expr) and isinstance(body[0].value, ast.Constant) \
            and isinstance(body[0].value.value, str):
        body = body[1:]
    return body


def functions_with_parents(tree: ast.Module):
    """Yield (qualified name, function node) for every function/method in the module."""
    def rec(node, prefix):
        for child in ast.iter_child_nodes(node):
            if isinstance(child, (ast.FunctionDef, ast.AsyncFunctionDef)):
                yield prefix + child.name, child
                yield from rec(child, prefix + child.name + ".")
            elif isinstance(child, ast.ClassDef):
                yield from rec(child, prefix + child.name + ".")
            else:
                yield from rec(child, prefix)
    yield from rec(tree, "")


def str_constants(node: ast.AST):
    """All string constants (including f-string literal parts) under node."""
    for n in ast.walk(node):
        if isinstance(n, ast.Constant) and isinstance(n.value, str):
            yield n.value


def joined_text(node: ast.AST) -> str:
    """Concatenate the literal parts of a (possibly implicit-concatenated / f-) string expression,
    writing `{}` for every interpolation."""
    if isinstance(node, ast.Constant) and isinstance(node.value, str):
        return node.value
    if isinstance(node, ast.JoinedStr):
        out = []
        for v in node.values:
            if isinstance(v, ast.Constant):
                out.append(v.value)
            else:
                out.append("{}")
        return "".join(out)
    if isinstance(node, ast.BinOp) and isinstance(node.op, ast.Add):
        return joined_text(node.left) + joined_text(node.right)
    raise TranslatorError(f"not a string expression: {ast.dump(node)[:80]}")


def coq_str(s: str) -> str:
    return "[" + ";".join(str(ord(c)) for c in s) + "]%N"
