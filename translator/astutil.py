"""Small helpers shared by the fail-closed translators."""

from __future__ import annotations

import ast
from pathlib import Path

import os
REPO = Path(os.environ.get("VERIF_REPO", "/repo"))


class TranslatorError(Exception):
    pass


_LOGGER_NAMES = {"logger", "log", "_logger", "LOGGER"}
_LOG_METHODS = {"debug", "info", "warning", "error", "exception", "critical", "log"}


def _pure_expr(e: ast.AST) -> bool:
    """Expressions whose evaluation cannot write anything: names, attribute chains on names,
    constants, f-strings / tuples / %-formatting of those.  (An attribute could be a property with
    side effects; the repository has none that write.  This is part of the translators' trusted base.)"""
    if isinstance(e, (ast.Constant, ast.Name)):
        return True
    if isinstance(e, ast.Attribute):
        return _pure_expr(e.value)
    if isinstance(e, ast.JoinedStr):
        return all(_pure_expr(v) for v in e.values)
    if isinstance(e, ast.FormattedValue):
        return _pure_expr(e.value) and (e.format_spec is None or _pure_expr(e.format_spec))
    if isinstance(e, (ast.Tuple, ast.List)):
        return all(_pure_expr(v) for v in e.elts)
    if isinstance(e, ast.BinOp) and isinstance(e.op, (ast.Mod, ast.Add)):
        return _pure_expr(e.left) and _pure_expr(e.right)
    return False


def _is_logger_call(e: ast.AST, methods) -> bool:
    return (isinstance(e, ast.Call) and isinstance(e.func, ast.Attribute) and e.func.attr in methods
            and isinstance(e.func.value, ast.Name) and e.func.value.id in _LOGGER_NAMES
            and all(_pure_expr(a) for a in e.args) and all(_pure_expr(k.value) for k in e.keywords))


def _is_logging_only(stmt: ast.stmt) -> bool:
    """A statement that only emits a log record: `logger.debug(<pure args>)`, or
    `if logger.isEnabledFor(<pure>): <logging-only statements>` without else."""
    if isinstance(stmt, ast.Expr) and _is_logger_call(stmt.value, _LOG_METHODS):
        return True
    if isinstance(stmt, ast.If) and not stmt.orelse and _is_logger_call(stmt.test, {"isEnabledFor"}):
        return all(isinstance(s, ast.Pass) or _is_logging_only(s) for s in stmt.body)
    return False


class _DropLogging(ast.NodeTransformer):
    """Behaviour-preserving normalisation applied to every module the translators read: statements
    that only emit a log record are dropped, as is a module-level `logger = logging.getLogger(...)`.
    Everything the translators recognise or fingerprint is therefore insensitive to added or removed
    debug logging.  Docstrings are dropped by the translators themselves (body_without_docstring)."""

    def _filter(self, body):
        out = [s for s in body if not _is_logging_only(s)]
        return out or [ast.Pass()]

    def generic_visit(self, node):
        super().generic_visit(node)
        for field in ("body", "orelse", "finalbody"):
            val = getattr(node, field, None)
            if isinstance(val, list) and val and isinstance(val[0], ast.stmt):
                new = self._filter(val) if field == "body" else [s for s in val if not _is_logging_only(s)]
                setattr(node, field, new)
        return node

    def visit_Module(self, node):
        self.generic_visit(node)
        def is_logger_def(s):
            return (isinstance(s, ast.Assign) and len(s.targets) == 1 and isinstance(s.targets[0], ast.Name)
                    and s.targets[0].id in _LOGGER_NAMES and isinstance(s.value, ast.Call)
                    and ast.unparse(s.value.func) == "logging.getLogger")
        node.body = [s for s in node.body if not is_logger_def(s)]
        return node


def parse_module(rel: str) -> ast.Module:
    path = REPO / rel
    try:
        tree = ast.parse(path.read_text(), filename=str(path))
    except (OSError, SyntaxError) as e:
        raise TranslatorError(f"cannot parse {rel}: {e}") from e
    tree = _DropLogging().visit(tree)
    ast.fix_missing_locations(tree)
    return tree


def find_function(tree: ast.AST, name: str, cls: str | None = None) -> ast.FunctionDef | ast.AsyncFunctionDef:
    scope = tree
    if cls is not None:
        for node in ast.walk(tree):
            if isinstance(node, ast.ClassDef) and node.name == cls:
                scope = node
                break
        else:
            raise TranslatorError(f"class {cls} not found")
    for node in ast.walk(scope):
        if isinstance(node, (ast.FunctionDef, ast.AsyncFunctionDef)) and node.name == name:
            return node
    raise TranslatorError(f"function {name} not found")


def body_without_docstring(fn) -> list[ast.stmt]:
    body = list(fn.body)
    if body and isinstance(body[0], ast.Expr) and isinstance(body[0].value, ast.Constant) \
            and isinstance(body[0].value.value, str):
        body = body[1:]
    return body


def functions_with_parents(tree: ast.Module):
    """Yield (qualified name, function node) for every function/method in the module."""
    def rec(node, prefix):
        for child in ast.iter_child_nodes(node):
            if isinstance(child, (ast.FunctionDef, ast.AsyncFunctionDef)):
                yield prefix + child.name, child
                yield from rec(child, prefix + child.name + ".")
            elif isinstance(child, ast.ClassDef):
                yield from rec(child, prefix + child.name + ".")
            else:
                yield from rec(child, prefix)
    yield from rec(tree, "")


def str_constants(node: ast.AST):
    """All string constants (including f-string literal parts) under node."""
    for n in ast.walk(node):
        if isinstance(n, ast.Constant) and isinstance(n.value, str):
            yield n.value


def joined_text(node: ast.AST) -> str:
    """Concatenate the literal parts of a (possibly implicit-concatenated / f-) string expression,
    writing `{}` for every interpolation."""
    if isinstance(node, ast.Constant) and isinstance(node.value, str):
        return node.value
    if isinstance(node, ast.JoinedStr):
        out = []
        for v in node.values:
            if isinstance(v, ast.Constant):
                out.append(v.value)
            else:
                out.append("{}")
        return "".join(out)
    if isinstance(node, ast.BinOp) and isinstance(node.op, ast.Add):
        return joined_text(node.left) + joined_text(node.right)
    raise TranslatorError(f"not a string expression: {ast.dump(node)[:80]}")


def coq_str(s: str) -> str:
    return "[" + ";".join(str(ord(c)) for c in s) + "]%N"
