"""Translator for C04: regenerates coq/gen/GenNoop.v from the working tree of the repo.

Generated (definitions only, compared with the hand-written model by lemmas of proofs/NoopProofs.v):
* `gen_hash_job_applies`  the rule of Executor._run_hash_job that decides whether a re-hash result
  reaches Workflow.update_file_hashes (translated from the AST of the `if` test);
* `gen_rescan_excluded`   the file states startup.rescan_files does not re-hash, and
  `gen_rescan_confirm_state`, the state that is re-hashed with cause CONFIRMED;
* `gen_transitions`       the whole `_HASH_TRANSITIONS` table as (cause, old, known, new, action) codes,
  one row per (cause, state, known) combination, absent keys included as such;
* `gen_startup_sequence`  the functions awaited by startup.resume_from_db, in order (codes);
* `gen_pending_sites`     number of call sites of the functions that make a step PENDING.

Fail closed:
* every function whose behaviour is hand-modelled in coq/model/Noop.v (or in the part of
  coq/model/Graph.v the C04 proofs unfold) is fingerprinted (AST without docstrings);
* the SQL of finalize.revert_optional_steps and the dispatch predicate are fingerprinted as text;
* the set of call sites of mark_step_pending / mark_consuming_steps_pending / mark_file_outdated /
  persist_nglob_matches / delete_hash / a direct set_state(PENDING) in stepup/core is compared with the
  list the cone was defined against: a new way for a step to become PENDING breaks the obligation.
An unknown shape raises TranslatorError naming the function.
"""
from __future__ import annotations

import ast
import hashlib
import importlib
import re
import sys

from .astutil import REPO, TranslatorError, body_without_docstring, find_function, functions_with_parents, parse_module


def _fp(fn) -> str:
    clone = ast.Module(body=body_without_docstring(fn), type_ignores=[])
    return hashlib.sha256(ast.dump(clone, annotate_fields=True, include_attributes=False).encode()).hexdigest()[:16]


def _fp_text(text: str) -> str:
    return hashlib.sha256(re.sub(r"\s+", " ", re.sub(r"--[^\n]*", "", text)).strip().encode()).hexdigest()[:16]


FUNCTIONS = [
    ("stepup/core/startup.py", None, "resume_from_db"),
    ("stepup/core/startup.py", None, "reset_interrupted_steps"),
    ("stepup/core/startup.py", None, "rescan_files"),
    ("stepup/core/startup.py", None, "rescan_nglobs"),
    ("stepup/core/executor.py", "Executor", "_run_hash_job"),
    ("stepup/core/executor.py", "Executor", "validate_dynamic_job"),
    ("stepup/core/workflow.py", "Workflow", "mark_consuming_steps_pending"),
    ("stepup/core/workflow.py", "Workflow", "mark_file_outdated"),
    ("stepup/core/workflow.py", "Workflow", "handle_updated_file"),
    ("stepup/core/workflow.py", "Workflow", "handle_deleted_file"),
    ("stepup/core/workflow.py", "Workflow", "persist_nglob_matches"),
    ("stepup/core/workflow.py", "Workflow", "steps"),
    ("stepup/core/finalize.py", None, "revert_optional_steps"),
    ("stepup/core/director.py", "DirectorHandler", "start_build_phase"),
    ("stepup/core/watcher.py", "Watcher", "run_once"),
]

# regenerate with `python -m translator.gen_noop --print` after a reviewed change of the repo
FINGERPRINTS = {
    "stepup/core/startup.py:resume_from_db": ("6ad066191b0d5512", "f73937e0ee9e422b",),  # first: with log-only statements dropped (astutil._DropLogging)
    "stepup/core/startup.py:reset_interrupted_steps": ("ed62a94f9b3c60bd",),
    # first shape: the value seen at startup is stored (fix cc92e6e); second: it is not (A->B->A missed)
    "stepup/core/startup.py:rescan_files": ("a64cd5905d5443f5",),
    "stepup/core/startup.py:rescan_nglobs": ("447d45a8dbb23181",),
    # first shape: stale CONFIRMED results are dropped (fix a139b14); second: the shape before it
    "stepup/core/executor.py:Executor._run_hash_job": ("1c00d122f33c1535", "d18aa73b3fe5cff5"),
    # first shape: an unchanged validation leaves the step PENDING, deferred iff one of its dynamic inputs is
    # still unusable, decided in the recording transaction (fix 84081f2, D39); second: PENDING *and deferred*
    # unconditionally (fix d760e3e, D36); third: PENDING without the flag (the same job is dispatched again at once).
    # The difference is GENERATED (gen_validate_flag_mode) and the older shapes break
    # C04_model_matches_generated_facts by name.
    "stepup/core/executor.py:Executor.validate_dynamic_job": ("66c3a31377b03d64", "c64f8ccfa4c864d5", "5c3f511f7670d82c"),
    "stepup/core/workflow.py:Workflow.mark_consuming_steps_pending": ("ea8f95325e91cd94",),
    "stepup/core/workflow.py:Workflow.mark_file_outdated": ("80624a1262d8eb0b", "3e5de8360a06d014",),  # first: with log-only statements dropped (astutil._DropLogging)
    "stepup/core/workflow.py:Workflow.handle_updated_file": ("b5eb3aa537d4511a",),
    "stepup/core/workflow.py:Workflow.handle_deleted_file": ("86294ee3a09c77fc", "242340e02edfca74",),  # first: with log-only statements dropped (astutil._DropLogging)
    "stepup/core/workflow.py:Workflow.persist_nglob_matches": ("9194b56c3f705a07",),
    "stepup/core/workflow.py:Workflow.steps": ("f80b6ef0d1c623f5",),
    "stepup/core/finalize.py:revert_optional_steps": ("125f68043491a8fd",),
    "stepup/core/director.py:DirectorHandler.start_build_phase": ("818b7ed37736663a",),
    # second shape: EXTERNAL re-hash restricted to attached nodes (fix proposed by the C14 check)
    "stepup/core/watcher.py:Watcher.run_once": ("54095d82d3758994", "e385562df43b7d3e"),
}

TEXTS = [
    ("stepup.core.finalize", "CREATE_OPTIONAL_STEP_TABLE"),
    ("stepup.core.finalize", "CREATE_OPTIONAL_TO_BE_DELETED_TABLE"),
    ("stepup.core.finalize", "UPDATE_OPTIONAL_STEPS"),
    ("stepup.core.finalize", "UPDATE_OPTIONAL_TO_BE_DELETED"),
    ("stepup.core.step", "STEP_DISPATCH_WHERE"),
    ("stepup.core.step", "UNAVAILABLE_INPUT_WHERE"),
    ("stepup.core.scheduler", "SELECT_NEXT_STEP"),
    ("stepup.core.scheduler", "UPDATE_CHECK_AFTER"),
]
TEXT_FINGERPRINTS = {
    "stepup.core.finalize.CREATE_OPTIONAL_STEP_TABLE": ("cf31d6e80d1ad536",),
    "stepup.core.finalize.CREATE_OPTIONAL_TO_BE_DELETED_TABLE": ("23511d9bfe8f7466",),
    "stepup.core.finalize.UPDATE_OPTIONAL_STEPS": ("5d3a50cbacb5a244",),
    "stepup.core.finalize.UPDATE_OPTIONAL_TO_BE_DELETED": ("a04ca0230056a35b",),
    "stepup.core.step.STEP_DISPATCH_WHERE": ("adcee90b795b7f4b",),
    "stepup.core.step.UNAVAILABLE_INPUT_WHERE": ("bd47b8443e88ebac",),
    "stepup.core.scheduler.SELECT_NEXT_STEP": ("101aa21afe38e192",),
    "stepup.core.scheduler.UPDATE_CHECK_AFTER": ("f0b95035735ea878",),
}

# Every place in stepup/core where a step can be made PENDING or lose its stored hash:
# (module, enclosing function, callee).  The cone of model/Noop.v and the list of operations in
# cone_invariant_partial were written against exactly this list.
PENDING_CALLEES = ("mark_step_pending", "mark_consuming_steps_pending", "mark_file_outdated",
                   "persist_nglob_matches", "delete_hash")
PENDING_SITES = [
    ('director', 'DirectorHandler.start_build_phase', 'mark_step_pending'),
    ('executor', 'Executor._reset_step_to_pending', 'delete_hash'),
    ('executor', 'Executor._reset_step_to_pending', 'set_state(PENDING)'),
    ('executor', 'Executor.validate_dynamic_job', 'set_state(PENDING)'),
    ('file', 'File.initialize_row', 'mark_file_outdated'),
    ('finalize', '<module>', 'UPDATE step SET state'),
    ('startup', 'rescan_env_vars', 'mark_step_pending'),
    ('startup', 'rescan_nglobs', 'persist_nglob_matches'),
    ('startup', 'reset_interrupted_steps', 'UPDATE step SET state'),
    ('startup', 'reset_interrupted_steps', 'mark_step_pending'),
    ('step', 'Step.after_lost_product', 'delete_hash'),
    ('step', 'Step.after_recycle', 'mark_step_pending'),
    ('step', 'Step.mark_completed', 'delete_hash'),
    ('step', 'Step.mark_completed', 'mark_consuming_steps_pending'),
    ('step', 'Step.mark_completed', 'set_state(PENDING)'),
    ('step', 'Step.reset_for_rerun', 'mark_file_outdated'),
    ('step', 'Step.set_state', 'UPDATE step SET state'),
    ('workflow', 'Workflow._check_consistency', 'mark_step_pending'),
    ('workflow', 'Workflow.handle_deleted_file', 'mark_consuming_steps_pending'),
    ('workflow', 'Workflow.handle_deleted_file', 'mark_step_pending'),
    ('workflow', 'Workflow.handle_updated_file', 'mark_consuming_steps_pending'),
    ('workflow', 'Workflow.handle_updated_file', 'mark_step_pending'),
    ('workflow', 'Workflow.mark_consuming_steps_pending', 'mark_step_pending'),
    ('workflow', 'Workflow.mark_file_outdated', 'mark_consuming_steps_pending'),
    ('workflow', 'Workflow.mark_step_pending', 'mark_file_outdated'),
    ('workflow', 'Workflow.mark_step_pending', 'set_state(PENDING)'),
    ('workflow', 'Workflow.persist_nglob_matches', 'delete_hash'),
    ('workflow', 'Workflow.persist_nglob_matches', 'mark_step_pending'),
    ('workflow', 'Workflow.process_nglob_changes', 'persist_nglob_matches'),
    ('workflow', 'Workflow.update_file_hashes', 'mark_consuming_steps_pending'),
]

MODULES = ["builder", "director", "executor", "file", "finalize", "scheduler", "startup", "step",
           "static_tree", "trellis", "watcher", "workflow", "hash_queue", "job"]


def _import_repo(name):
    if str(REPO) not in sys.path:
        sys.path.insert(0, str(REPO))
    try:
        return importlib.import_module(name)
    except Exception as e:  # noqa: BLE001
        raise TranslatorError(f"cannot import {name}: {type(e).__name__}: {e}") from e


def fingerprints():
    out, trees = {}, {}
    for rel, cls, fn in FUNCTIONS:
        if rel not in trees:
            trees[rel] = parse_module(rel)
        out[f"{rel}:{cls + '.' if cls else ''}{fn}"] = _fp(find_function(trees[rel], fn, cls))
    return out


def text_fingerprints():
    out = {}
    for mod, name in TEXTS:
        m = _import_repo(mod)
        try:
            out[f"{mod}.{name}"] = _fp_text(getattr(m, name))
        except AttributeError as e:
            raise TranslatorError(f"{mod}.{name} not found") from e
    return out


def pending_sites():
    sites = []
    for mod in MODULES:
        rel = f"stepup/core/{mod}.py"
        tree = parse_module(rel)
        for qual, fn in functions_with_parents(tree):
            # only the function's own statements, not nested functions (they are listed themselves)
            for node in ast.walk(fn):
                if not isinstance(node, ast.Call) or not isinstance(node.func, ast.Attribute):
                    continue
                callee = node.func.attr
                if callee in PENDING_CALLEES:
                    sites.append((mod, qual, callee))
                elif callee == "set_state" and node.args and ast.unparse(node.args[0]) == "StepState.PENDING":
                    sites.append((mod, qual, "set_state(PENDING)"))
            # raw SQL that writes step.state is found by the text below
        src = (REPO / rel).read_text()
        for m in re.finditer(r"UPDATE step SET state", src):
            line = src.count("\n", 0, m.start()) + 1
            owner = "<module>"
            for qual, fn in functions_with_parents(tree):
                if fn.lineno <= line <= (fn.end_lineno or fn.lineno):
                    owner = qual
            sites.append((mod, owner, "UPDATE step SET state"))
    return sorted(set(sites))


def _hash_job_rule(tree) -> str:
    """The test of the `if` that guards update_file_hashes in _run_hash_job, as Gallina over the
    booleans `changed` (new_hash != old_hash) and `confirmed` (cause == CONFIRMED)."""
    fn = find_function(tree, "_run_hash_job", "Executor")
    guards = []
    for node in ast.walk(fn):
        if isinstance(node, ast.If) and "update_file_hashes" in ast.unparse(ast.Module(body=node.body, type_ignores=[])):
            guards.append(node)
    stale = [g for g in guards if ast.unparse(g.test) == "not self._is_stale_confirmation(hash_job)"]
    guards = [g for g in guards if g not in stale]
    if len(guards) != 1 or len(stale) > 1:
        raise TranslatorError("_run_hash_job: expected exactly one guarded update_file_hashes")
    if guards[0].orelse or (stale and stale[0].orelse):
        raise TranslatorError("_run_hash_job: the guard has an else branch")
    _hash_job_rule.drops_stale = bool(stale)

    atoms = {
        "new_hash != hash_job.old_hash": "changed",
        "hash_job.old_hash != new_hash": "changed",
        "hash_job.cause == HashUpdateCause.CONFIRMED": "confirmed",
        "new_hash == hash_job.old_hash": "(negb changed)",
        "hash_job.cause != HashUpdateCause.CONFIRMED": "(negb confirmed)",
    }

    def tr(e):
        if isinstance(e, ast.BoolOp):
            op = " || " if isinstance(e.op, ast.Or) else " && "
            return "(" + op.join(tr(v) for v in e.values) + ")"
        if isinstance(e, ast.UnaryOp) and isinstance(e.op, ast.Not):
            return f"(negb {tr(e.operand)})"
        if isinstance(e, ast.Constant) and isinstance(e.value, bool):
            return "true" if e.value else "false"
        u = ast.unparse(e)
        if u in atoms:
            return atoms[u]
        raise TranslatorError(f"_run_hash_job: unrecognised term in the apply rule: {u}")
    return tr(guards[0].test)


def _rescan_files_facts(tree):
    fn = find_function(tree, "rescan_files")
    src = ast.unparse(fn)
    if "state NOT IN (?, ?) AND NOT detached" not in src:
        raise TranslatorError("rescan_files: selection SQL not recognised")
    data = None
    for node in ast.walk(fn):
        if isinstance(node, ast.Assign) and len(node.targets) == 1 and isinstance(node.targets[0], ast.Name) \
                and node.targets[0].id == "data" and isinstance(node.value, ast.Tuple):
            data = []
            for e in node.value.elts:
                u = ast.unparse(e)
                if not (u.startswith("FileState.") and u.endswith(".value")):
                    raise TranslatorError(f"rescan_files: excluded state not recognised: {u}")
                data.append(u.split(".")[1])
    if data is None:
        raise TranslatorError("rescan_files: excluded states not found")
    m = re.search(r"HashUpdateCause\.CONFIRMED if FileState\(state\) == FileState\.(\w+) else HashUpdateCause\.EXTERNAL", src)
    if not m:
        raise TranslatorError("rescan_files: cause rule not recognised")
    return data, m.group(1)


def _stale_confirmation_states(tree):
    """States in which a CONFIRMED result is still applied (Executor._is_stale_confirmation)."""
    try:
        fn = find_function(tree, "_is_stale_confirmation", "Executor")
    except TranslatorError:
        return None
    body = body_without_docstring(fn)
    src = [ast.unparse(b) for b in body]
    if len(body) != 4 or src[0] != "if hash_job.cause != HashUpdateCause.CONFIRMED:\n    return False" \
            or src[1] != "file = self.workflow.find(File, hash_job.path)" \
            or src[2] != "if file is None:\n    return True":
        raise TranslatorError("_is_stale_confirmation: shape not recognised")
    ret = body[3]
    if not (isinstance(ret, ast.Return) and isinstance(ret.value, ast.Compare) and len(ret.value.ops) == 1
            and isinstance(ret.value.ops[0], ast.NotIn) and ast.unparse(ret.value.left) == "file.get_state()"
            and isinstance(ret.value.comparators[0], ast.Tuple)):
        raise TranslatorError("_is_stale_confirmation: return expression not recognised")
    names = []
    for e in ret.value.comparators[0].elts:
        u = ast.unparse(e)
        if not u.startswith("FileState."):
            raise TranslatorError(f"_is_stale_confirmation: state not recognised: {u}")
        names.append(u.split(".")[1])
    return names


_ENV_REPORT_OK = ("reported_names.add(name)", "old_fmt = fmt_env_value(old_value)", "new_fmt = fmt_env_value(new_value)")


def _env_loop_effects(loop, differs):
    """Effects of one iteration of the loop of rescan_env_vars over the env_var rows, for a row whose current value
    differs / does not differ from the recorded one: 'rerun' (the step is collected), 'store' (the value that was
    compared is queued for the write-back).  Reporting is noise."""
    out = []

    def reporting_only(stmts):
        for st in stmts:
            text = ast.unparse(st)
            if text in _ENV_REPORT_OK or text.startswith("await reporter("):
                continue
            raise TranslatorError(f"rescan_env_vars: statement in the reporting part not recognised: {text[:80]}")

    def run(stmts):
        for st in stmts:
            text = ast.unparse(st)
            if isinstance(st, ast.Continue):
                return True
            if text == "new_value = os.getenv(name)":
                continue
            if isinstance(st, ast.If):
                test = st.test
                neg = isinstance(test, ast.UnaryOp) and isinstance(test.op, ast.Not)
                core = ast.unparse(test.operand if neg else test)
                if core in ("new_value == old_value", "old_value == new_value"):
                    val = not differs
                elif core in ("new_value != old_value", "old_value != new_value"):
                    val = differs
                elif core == "name not in reported_names" and not neg:
                    reporting_only(st.body)
                    reporting_only(st.orelse)
                    continue
                else:
                    raise TranslatorError(f"rescan_env_vars: condition not recognised: {ast.unparse(test)}")
                if run(st.body if val != neg else st.orelse):
                    return True
                continue
            if text == "steps_to_rerun[node_i] = Step(workflow, node_i, label)":
                out.append("rerun")
                continue
            if text == "changed.append((new_value, node_i, name))":
                out.append("store")
                continue
            raise TranslatorError(f"rescan_env_vars: statement in the loop not recognised: {text[:80]}")
        return False
    run(loop.body)
    return out


def _env_rescan_facts(tree):
    """rescan_env_vars, translated statement by statement: the selection (attached steps), the loop interpreted for a
    row that differs / does not differ (which rows are collected for a rerun and for the write-back), the one
    transaction that marks the collected steps pending and - since cc92e6e - stores the values that were seen.
    Returns (stores, marks_when_differs, marks_when_equal)."""
    fn = find_function(tree, "rescan_env_vars")
    src = ast.unparse(fn)
    if "WHERE NOT node.detached" not in src:
        raise TranslatorError("rescan_env_vars: selection SQL not recognised")
    loops = [n for n in fn.body if isinstance(n, ast.For)]
    if len(loops) != 1 or ast.unparse(loops[0].target) != "(node_i, label, name, old_value)" \
            or ast.unparse(loops[0].iter) != "env_var_uses":
        raise TranslatorError("rescan_env_vars: loop over the env_var rows not recognised")
    eff_d, eff_e = _env_loop_effects(loops[0], True), _env_loop_effects(loops[0], False)
    blocks = [n for n in ast.walk(fn) if isinstance(n, ast.AsyncWith)
              and "mark_step_pending" in ast.unparse(ast.Module(body=n.body, type_ignores=[]))]
    if len(blocks) != 1:
        raise TranslatorError("rescan_env_vars: expected one transaction that marks steps pending")
    body = ast.unparse(ast.Module(body=blocks[0].body, type_ignores=[]))
    if "for step in steps_to_rerun.values():\n    workflow.mark_step_pending(step)" not in body:
        raise TranslatorError("rescan_env_vars: the collected steps are not the ones marked pending")
    stores = "UPDATE env_var SET value = ? WHERE node = ? AND name = ?" in body
    if stores and ("store" in eff_d) != ("rerun" in eff_d) or ("store" in eff_e) != ("rerun" in eff_e) and stores:
        raise TranslatorError("rescan_env_vars: the rows written back are not the rows found changed")
    if "UPDATE env_var" in src and not stores:
        raise TranslatorError("rescan_env_vars: env_var is written outside the marking transaction")
    _env_rescan_facts.marks = ("rerun" in eff_d, "rerun" in eff_e)
    return stores


# ---------------------------------------------------------------------------------------------------------
# Statement-level translation of Workflow.mark_step_pending and Executor._reset_step_to_pending: the functions
# are INTERPRETED (per old state of the step / as a straight-line transaction) and the effects are generated;
# a behaviour-preserving rewrite (if/else instead of an early return, a guarded debug log, ...) gives the same
# table and is accepted, a behaviour change gives another table and breaks a named theorem.
# ---------------------------------------------------------------------------------------------------------
_STEP_STATES = ("PENDING", "RUNNING", "SUCCEEDED", "FAILED", "CHECKING")
_OUTDATE_LOOP = ("for file in step.sinks(File, include_detached=True):\n"
                 "    if file.get_state() == FileState.BUILT:\n"
                 "        self.mark_file_outdated(file)")


def _is_noise(st):
    """statements without effect on the stored workflow: pass, log records, a guard around log records"""
    if isinstance(st, ast.Pass):
        return True
    if isinstance(st, ast.Expr) and isinstance(st.value, ast.Call) and ast.unparse(st.value.func).startswith("logger."):
        return True
    if isinstance(st, ast.If) and ast.unparse(st.test).startswith("logger.isEnabledFor(") \
            and all(_is_noise(s) for s in st.body + st.orelse):
        return True
    return False


def _mark_step_pending_table(tree):
    """old state -> effects of Workflow.mark_step_pending: 1 = step.set_state(PENDING) (clears deferred),
    2 = every BUILT output (detached ones included) is made OUTDATED through mark_file_outdated."""
    fn = find_function(tree, "mark_step_pending", "Workflow")
    body = body_without_docstring(fn)
    if [a.arg for a in fn.args.args] != ["self", "step"]:
        raise TranslatorError("mark_step_pending: signature changed")

    def state_set(test):
        m = re.fullmatch(r"state in \((.*)\)", ast.unparse(test)) or re.fullmatch(r"state == (.*)", ast.unparse(test))
        if not m:
            raise TranslatorError(f"mark_step_pending: condition not recognised: {ast.unparse(test)}")
        names = [x.strip() for x in m.group(1).split(",") if x.strip()]
        if not all(n.startswith("StepState.") and n[10:] in _STEP_STATES for n in names):
            raise TranslatorError(f"mark_step_pending: condition not recognised: {ast.unparse(test)}")
        return {n[10:] for n in names}

    def run(stmts, state, out, known):
        for st in stmts:
            if _is_noise(st):
                continue
            if isinstance(st, ast.Return) and st.value is None:
                return True
            if isinstance(st, ast.Assign) and ast.unparse(st) == "state = step.get_state()":
                known.add("state")
                continue
            if isinstance(st, ast.If):
                if "state" not in known:
                    raise TranslatorError("mark_step_pending: state tested before it is read")
                neg = isinstance(st.test, ast.UnaryOp) and isinstance(st.test.op, ast.Not)
                inside = state in state_set(st.test.operand if neg else st.test)
                if run(st.body if inside != neg else st.orelse, state, out, known):
                    return True
                continue
            if isinstance(st, ast.For) and ast.unparse(st) == _OUTDATE_LOOP:
                out.append(2)
                continue
            if isinstance(st, ast.Expr) and ast.unparse(st) == "step.set_state(StepState.PENDING)":
                out.append(1)
                continue
            raise TranslatorError(f"mark_step_pending: statement not recognised: {ast.unparse(st)[:90]}")
        return False
    table = []
    for state in _STEP_STATES:
        out = []
        run(body, state, out, set())
        table.append((state, out))
    return table


def _reset_to_pending_effects(tree):
    """Executor._reset_step_to_pending: ONE transaction with, in order, 1 = step.reset_for_rerun(),
    2 = step.delete_hash(), 3 = step.set_state(PENDING)."""
    fn = find_function(tree, "_reset_step_to_pending", "Executor")
    body = [s for s in body_without_docstring(fn) if not _is_noise(s)]
    if len(body) != 1 or not isinstance(body[0], ast.AsyncWith) or len(body[0].items) != 1 \
            or ast.unparse(body[0].items[0].context_expr) != "self.db":
        raise TranslatorError("_reset_step_to_pending: not a single `async with self.db` transaction")
    codes = {"step.reset_for_rerun()": 1, "step.delete_hash()": 2, "step.set_state(StepState.PENDING)": 3}
    out = []
    for st in body[0].body:
        if _is_noise(st):
            continue
        text = ast.unparse(st)
        if text not in codes:
            raise TranslatorError(f"_reset_step_to_pending: statement not recognised: {text[:90]}")
        out.append(codes[text])
    return out


# Executor.try_skip_job is translated structurally:# Executor.try_skip_job is translated structurally: the part up to and including the comparison of the output
# digests is fingerprinted (TRY_SKIP_PREFIX), the rest - the transaction that records the outcome - is interpreted
# for both values of `overtaken` (_skip_tail_outcomes), so that a variant of that part is TRANSLATED
# (gen_skip_overtaken_outcome) and breaks a named theorem instead of a fingerprint.
TRY_SKIP_PREFIX = ("03f570213f808d20",)
_SKIP_EFFECTS = {"set_state": "set_state", "_reset_step_to_pending": "reset_drop_hash",
                 "update_file_hashes": "update_file_hashes", "mark_completed": "mark_completed", "_skip": "skip"}
_SKIP_NEUTRAL = {"_report_step_counts"}


def _call_of(stmt):
    v = stmt.value if isinstance(stmt, ast.Expr) else None
    if isinstance(v, ast.Await):
        v = v.value
    return v if isinstance(v, ast.Call) and isinstance(v.func, ast.Attribute) else None


def _skip_tail_effects(stmts, overtaken):
    """Effects of the tail of try_skip_job for one value of `overtaken`: list of effect names, in order."""
    out = []

    def run(body):
        for st in body:
            if isinstance(st, ast.Return):
                return True
            if isinstance(st, ast.AsyncWith):
                if run(st.body):
                    return True
                continue
            if isinstance(st, ast.Assign) and len(st.targets) == 1 and isinstance(st.targets[0], ast.Name) \
                    and st.targets[0].id == "overtaken":
                if "_inputs_overtaken(step, inp_hashes)" not in ast.unparse(st.value):
                    raise TranslatorError("try_skip_job: `overtaken` is not self._inputs_overtaken(step, inp_hashes)")
                continue
            if isinstance(st, ast.If):
                test = ast.unparse(st.test)
                if test == "overtaken":
                    branch = st.body if overtaken else st.orelse
                elif test == "not overtaken":
                    branch = st.orelse if overtaken else st.body
                else:
                    raise TranslatorError(f"try_skip_job: condition in the recording part not recognised: {test}")
                if run(branch):
                    return True
                continue
            call = _call_of(st)
            if call is None:
                raise TranslatorError(f"try_skip_job: statement in the recording part not recognised: {ast.unparse(st)[:80]}")
            name = call.func.attr
            if name in _SKIP_NEUTRAL:
                continue
            if name not in _SKIP_EFFECTS:
                raise TranslatorError(f"try_skip_job: call in the recording part not recognised: {name}")
            eff = _SKIP_EFFECTS[name]
            if eff == "set_state":
                args = [ast.unparse(a) for a in call.args]
                if args != ["StepState.PENDING"] or call.keywords:
                    raise TranslatorError(f"try_skip_job: set_state{args} in the recording part")
                eff = "pending_keep_hash"
            out.append(eff)
        return False
    run(stmts)
    return out


def _skip_job_facts(tree):
    """(fingerprint of the checking part, outcome of an overtaken check: 0 = there is no such test (before 3ce20a7),
    1 = back to PENDING with the stored hash, 2 = _reset_step_to_pending: the hash is dropped)."""
    fn = find_function(tree, "try_skip_job", "Executor")
    body = [s for s in fn.body if not (isinstance(s, ast.Expr) and isinstance(s.value, ast.Constant))]
    cut = next((i for i, s in enumerate(body) if isinstance(s, ast.If)
                and ast.unparse(s.test) == "step_hash.out_digest != new_hash.out_digest"), None)
    if cut is None:
        raise TranslatorError("try_skip_job: comparison of the output digests not found")
    prefix, tail = body[:cut + 1], body[cut + 1:]
    fp = _fp_text("\n".join(ast.dump(s) for s in prefix))
    normal = _skip_tail_effects(tail, False)
    if sorted(normal) != ["mark_completed", "skip", "update_file_hashes"]:
        raise TranslatorError(f"try_skip_job: a check that passes does {normal}")
    uses = any(isinstance(n, ast.Name) and n.id == "overtaken" for s in tail for n in ast.walk(s))
    if not uses:
        return fp, 0
    over = _skip_tail_effects(tail, True)
    if over == ["pending_keep_hash"]:
        return fp, 1
    if over == ["reset_drop_hash"]:
        return fp, 2
    raise TranslatorError(f"try_skip_job: an overtaken check does {over}")


def _validate_unchanged_deferred(tree):
    """validate_dynamic_job, inputs unchanged: the one transaction after the digest comparison sets the step
    PENDING; which deferred flag is passed?  0 = none / False, 1 = True, 2 = step.has_unusable_dynamic_input()
    evaluated in that transaction (84081f2)."""
    fn = find_function(tree, "validate_dynamic_job", "Executor")
    calls = [n for n in ast.walk(fn) if isinstance(n, ast.Call) and isinstance(n.func, ast.Attribute)
             and n.func.attr == "set_state"]
    if len(calls) != 1 or not calls[0].args or ast.unparse(calls[0].args[0]) != "StepState.PENDING":
        raise TranslatorError("validate_dynamic_job: expected exactly one set_state(StepState.PENDING, ...)")
    call = calls[0]
    if call.keywords or len(call.args) > 2:
        raise TranslatorError("validate_dynamic_job: set_state call not recognised")
    if len(call.args) == 1:
        return 0
    flag = ast.unparse(call.args[1])
    modes = {"False": 0, "True": 1, "step.has_unusable_dynamic_input()": 2}
    if flag not in modes:
        raise TranslatorError(f"validate_dynamic_job: deferred flag not recognised: {flag}")
    if modes[flag] == 2:
        # the flag must be computed inside the transaction that records the outcome
        withs = [n for n in ast.walk(fn) if isinstance(n, ast.AsyncWith)
                 and any(c is call for c in ast.walk(n))]
        if not withs or not any("self.db" in ast.unparse(i.context_expr) for w in withs for i in w.items):
            raise TranslatorError("validate_dynamic_job: the deferred flag is not decided inside the transaction")
    return modes[flag]


ENV_SOURCE_CODES = {"self.base_env.get(name)": 1, "os.getenv(name)": 2, "os.environ.get(name)": 2}


def _digest_env_source(tree, fn_name):
    """Which mapping provides the values of the tracked variables in the input digest computed by `fn_name`
    (Executor._compute_inp_step_hash: the digest of the skip / validate check and STEPUP_STEP_INP_DIGEST;
    Executor._compute_full_step_hash: the digest stored after a run): 1 = Executor.base_env, 2 = os.environ."""
    fn = find_function(tree, fn_name, "Executor")
    calls = [n for n in ast.walk(fn) if isinstance(n, ast.Call) and ast.unparse(n.func) == "StepHash.from_inp"]
    if len(calls) != 1 or len(calls[0].args) != 3:
        raise TranslatorError(f"{fn_name}: expected exactly one StepHash.from_inp(label, hashes, env_values, ...)")
    arg = calls[0].args[2]
    if not (isinstance(arg, ast.DictComp) and ast.unparse(arg.key) == "name" and len(arg.generators) == 1
            and ast.unparse(arg.generators[0].target) == "name" and ast.unparse(arg.generators[0].iter) == "env_deps"
            and not arg.generators[0].ifs):
        raise TranslatorError(f"{fn_name}: env_values is not {{name: <source>(name) for name in env_deps}}: "
                              f"{ast.unparse(arg)[:80]}")
    src = ast.unparse(arg.value)
    if src not in ENV_SOURCE_CODES:
        raise TranslatorError(f"{fn_name}: unknown source of the tracked variables' values: {src}")
    kw = {k.arg: ast.unparse(k.value) for k in calls[0].keywords}
    if kw.get("env_overrides") != "env_overrides" or kw.get("shell") != "shell":
        raise TranslatorError(f"{fn_name}: shell / env_overrides ingredients of the digest not recognised: {kw}")
    # the label ingredient: 1 = the label of the step, 2 = Run.description (its display form with escapes)
    label_src = ast.unparse(calls[0].args[0])
    if label_src not in LABEL_SOURCE_CODES:
        raise TranslatorError(f"{fn_name}: unknown label ingredient of the digest: {label_src}")
    _digest_env_source.label[fn_name] = LABEL_SOURCE_CODES[label_src]
    return ENV_SOURCE_CODES[src]


LABEL_SOURCE_CODES = {"run.step.label": 1, "step.label": 1, "run.description": 2}
_digest_env_source.label = {}


def _base_env_facts(tree):
    """Executor.base_env = {**os.environ, **self.infra_env} (cached); Executor._run_command starts the child's
    environment from dict(self.base_env), applies the step's overrides, then sets exactly the reserved names."""
    fn = find_function(tree, "base_env", "Executor")
    assigns = [n for n in ast.walk(fn) if isinstance(n, ast.Assign)]
    if len(assigns) != 1 or ast.unparse(assigns[0].value) != "{**os.environ, **self.infra_env}":
        raise TranslatorError("Executor.base_env: not os.environ overlaid with infra_env")
    rets = [n for n in ast.walk(fn) if isinstance(n, ast.Return)]
    if len(rets) != 1 or ast.unparse(rets[0].value) != ast.unparse(assigns[0].targets[0]):
        raise TranslatorError("Executor.base_env: return value not recognised")
    run = find_function(tree, "_run_command", "Executor")
    body = body_without_docstring(run)
    env_stmts = [ast.unparse(s) for s in body if "env" in ast.unparse(s).split("=")[0] or ast.unparse(s).startswith("env.")]
    env_stmts = [s for s in env_stmts if s.startswith("env")]
    if not env_stmts or env_stmts[0] != "env = dict(self.base_env)":
        raise TranslatorError(f"_run_command: the child's environment does not start from base_env: {env_stmts[:1]}")
    if len(env_stmts) < 2 or env_stmts[1] != "env.update(env_overrides)":
        raise TranslatorError("_run_command: the step's overrides are not applied right after base_env")
    keys = []
    for s in env_stmts[2:]:
        m = re.fullmatch(r"env\['([A-Z_]+)'\] = .*", s, re.S)
        if not m:
            raise TranslatorError(f"_run_command: unrecognised statement on the child's environment: {s[:60]}")
        keys.append(m.group(1))
    stepmod = _import_repo("stepup.core.step")
    if sorted(keys) != sorted(stepmod.RESERVED_ENV_VARS):
        raise TranslatorError(f"_run_command: variables set for the child {sorted(keys)} differ from "
                              f"RESERVED_ENV_VARS {sorted(stepmod.RESERVED_ENV_VARS)}")
    launch = [n for n in ast.walk(run) if isinstance(n, ast.Call) and ast.unparse(n.func) == "launch_command"]
    if len(launch) != 1 or {k.arg: ast.unparse(k.value) for k in launch[0].keywords}.get("env") != "env":
        raise TranslatorError("_run_command: launch_command is not given the environment built above")
    return 1


def _startup_sequence(tree):
    fn = find_function(tree, "resume_from_db")
    seq = []
    for stmt in body_without_docstring(fn):
        if isinstance(stmt, ast.Expr) and isinstance(stmt.value, ast.Await) and isinstance(stmt.value.value, ast.Call) \
                and isinstance(stmt.value.value.func, ast.Name):
            seq.append(stmt.value.value.func.id)
        elif isinstance(stmt, ast.Expr) and isinstance(stmt.value, ast.Call) and "logger" in ast.unparse(stmt):
            continue
        else:
            raise TranslatorError(f"resume_from_db: unrecognised statement: {ast.unparse(stmt)[:60]}")
    return seq


STARTUP_CODES = {"reset_interrupted_steps": 1, "watch_known_dirs": 2, "rescan_env_vars": 3,
                 "rescan_files": 4, "rescan_nglobs": 5}
ACTION_CODES = {None: 0, "updated": 1, "deleted": 2, "completed": 3}


def generate(check=True):
    facts = {}
    fps = fingerprints()
    tfps = text_fingerprints()
    sites = pending_sites()
    facts["fingerprints"] = fps
    facts["text_fingerprints"] = tfps
    facts["pending_sites"] = [list(s) for s in sites]
    if check:
        for key, fp in fps.items():
            if fp not in FINGERPRINTS.get(key, ()):
                raise TranslatorError(f"{key}: source shape {fp} is not one the C04 model was written against")
        for key, fp in tfps.items():
            if fp not in TEXT_FINGERPRINTS.get(key, ()):
                raise TranslatorError(f"{key}: SQL text {fp} is not the one the C04 model was written against")
        want = sorted(tuple(s) for s in PENDING_SITES)
        # since fix 3ce20a7 try_skip_job has one more site: an overtaken check goes back to PENDING (the step is
        # CHECKING, hence in flight and in the cone; the stored workflow model has no transaction for it yet)
        overtaken = ('executor', 'Executor.try_skip_job', 'set_state(PENDING)')
        facts["skip_overtaken_site"] = overtaken in sites
        if overtaken in sites and overtaken not in want:
            want = sorted(want + [overtaken])
        if sites != want:
            new = [s for s in sites if s not in want]
            gone = [s for s in want if s not in sites]
            raise TranslatorError(f"call sites that make a step PENDING changed: new={new} gone={gone}")

    ex_tree = parse_module("stepup/core/executor.py")
    rule = _hash_job_rule(ex_tree)
    drops_stale = _hash_job_rule.drops_stale
    keep_states = _stale_confirmation_states(ex_tree)
    if drops_stale != (keep_states is not None):
        raise TranslatorError("_run_hash_job / _is_stale_confirmation: inconsistent shapes")
    validate_deferred = _validate_unchanged_deferred(ex_tree)
    skip_prefix_fp, skip_overtaken = _skip_job_facts(ex_tree)
    msp_table = _mark_step_pending_table(parse_module("stepup/core/workflow.py"))
    rtp_effects = _reset_to_pending_effects(ex_tree)
    facts["mark_step_pending_table"] = msp_table
    facts["reset_to_pending_effects"] = rtp_effects
    facts["try_skip_prefix"] = skip_prefix_fp
    if check and skip_prefix_fp not in TRY_SKIP_PREFIX:
        raise TranslatorError(f"stepup/core/executor.py:Executor.try_skip_job: the checking part has shape "
                              f"{skip_prefix_fp}, not one the C04 model was written against")
    inp_env_src = _digest_env_source(ex_tree, "_compute_inp_step_hash")
    full_env_src = _digest_env_source(ex_tree, "_compute_full_step_hash")
    cmd_env_src = _base_env_facts(ex_tree)
    st_tree = parse_module("stepup/core/startup.py")
    env_stores = _env_rescan_facts(st_tree)
    excluded, confirm_state = _rescan_files_facts(st_tree)
    seq = _startup_sequence(st_tree)
    for name in seq:
        if name not in STARTUP_CODES:
            raise TranslatorError(f"resume_from_db awaits an unknown function {name}")
    enums = _import_repo("stepup.core.enums")
    wfmod = _import_repo("stepup.core.workflow")
    table = wfmod._HASH_TRANSITIONS
    rows = []
    for cause in enums.HashUpdateCause:
        for st in enums.FileState:
            for known in (True, False):
                tr = table.get((cause, st, known))
                if tr is None:
                    rows.append(f"  ({cause.value}, {st.value}, {'true' if known else 'false'}, None)")
                else:
                    new, act = tr
                    if act not in ACTION_CODES or not isinstance(new, enums.FileState):
                        raise TranslatorError(f"_HASH_TRANSITIONS: unrecognised entry {(cause, st, known)!r}")
                    rows.append(f"  ({cause.value}, {st.value}, {'true' if known else 'false'}, "
                                f"Some ({new.value}, {ACTION_CODES[act]}))")
    extra = [k for k in table if not (isinstance(k, tuple) and len(k) == 3)]
    if extra or len(table) != sum(1 for r in rows if "Some" in r):
        raise TranslatorError("_HASH_TRANSITIONS: keys outside HashUpdateCause x FileState x bool")
    try:
        exc_codes = [str(enums.FileState[n].value) for n in excluded]
        conf_code = enums.FileState[confirm_state].value
    except KeyError as e:
        raise TranslatorError(f"rescan_files: unknown FileState {e}") from e
    try:
        keep_codes = [str(enums.FileState[n].value) for n in (keep_states or [])]
    except KeyError as e:
        raise TranslatorError(f"_is_stale_confirmation: unknown FileState {e}") from e
    facts.update(rule=rule, rescan_excluded=excluded, confirm_state=confirm_state, startup=seq,
                 transitions=len(table), env_stores=env_stores, drops_stale=drops_stale,
                 validate_deferred=validate_deferred, env_sources=(inp_env_src, full_env_src, cmd_env_src))
    out = [
        "(* GENERATED by translator/gen_noop.py from stepup/core/{executor,startup,workflow,enums}.py. Do not edit. *)",
        "From Coq Require Import List NArith Bool.",
        "Import ListNotations.",
        "Open Scope N_scope.",
        "",
        "(* Executor._run_hash_job: a re-hash result is passed to update_file_hashes iff ... *)",
        f"Definition gen_hash_job_applies (changed confirmed : bool) : bool := {rule}.",
        "",
        "(* startup.rescan_files: attached files in these states are not re-hashed; this state is",
        "   re-hashed with cause CONFIRMED, every other one with cause EXTERNAL *)",
        f"Definition gen_rescan_excluded : list N := [{'; '.join(exc_codes)}].",
        f"Definition gen_rescan_confirm_state : N := {conf_code}.",
        "(* Executor._is_stale_confirmation: a CONFIRMED result is applied only while the file is in one",
        "   of these states (empty list with flag false: the code has no such rule) *)",
        f"Definition gen_drops_stale_confirmation : bool := {'true' if drops_stale else 'false'}.",
        f"Definition gen_confirmation_kept_states : list N := [{'; '.join(keep_codes)}].",
        "",
        "(* startup.rescan_env_vars: the transaction that marks the steps pending also stores the value",
        "   that was seen, so that the next start compares against it *)",
        f"Definition gen_env_rescan_stores_seen_value : bool := {'true' if env_stores else 'false'}.",
        "",
        "(* Executor.validate_dynamic_job, inputs unchanged: the step goes back to PENDING with this",
        "   deferred flag: 0 = not deferred, 1 = deferred, 2 = deferred iff Step.has_unusable_dynamic_input()",
        "   holds in the recording transaction (84081f2) *)",
        f"Definition gen_validate_flag_mode : N := {int(validate_deferred)}.",
        "",
        "(* startup.rescan_env_vars, the loop over the env_var rows of the attached steps interpreted for one row: is the",
        "   step collected for a rerun when the current value DIFFERS from the recorded one / when it is EQUAL *)",
        f"Definition gen_env_rescan_marks : bool * bool := ({'true' if _env_rescan_facts.marks[0] else 'false'}, "
        f"{'true' if _env_rescan_facts.marks[1] else 'false'}).",
        "",
        "(* Executor.try_skip_job, the transaction that records the outcome, when an input record was replaced while",
        "   the step was being checked (_inputs_overtaken): 0 = no such test (before 3ce20a7), 1 = back to PENDING",
        "   with the stored hash (checked again), 2 = _reset_step_to_pending: the hash is dropped (executed next) *)",
        f"Definition gen_skip_overtaken_outcome : N := {int(skip_overtaken)}.",
        "",
        "(* Workflow.mark_step_pending interpreted per old state of the step (codes of enums.StepState): the effects in",
        "   order, 1 = set_state(PENDING), 2 = every BUILT output (detached ones included) goes OUTDATED *)",
        "Definition gen_mark_step_pending_table : list (N * list N) := ["
        + "; ".join(f"({enums.StepState[s].value}, [{'; '.join(map(str, eff))}])" for s, eff in msp_table) + "].",
        "(* Executor._reset_step_to_pending, one transaction: 1 = reset_for_rerun, 2 = delete_hash, 3 = set_state(PENDING) *)",
        f"Definition gen_reset_to_pending_effects : list N := [{'; '.join(map(str, rtp_effects))}].",
        "",
        "(* Which mapping provides the values of a step's tracked environment variables: 1 = Executor.base_env",
        "   (os.environ overlaid with the director's infra_env), 2 = os.environ.",
        "   check: Executor._compute_inp_step_hash (skip check, validate check, STEPUP_STEP_INP_DIGEST);",
        "   stored: Executor._compute_full_step_hash (the hash stored after a run);",
        "   command: what Executor._run_command hands to the child before overrides and reserved names *)",
        f"Definition gen_digest_label_source_check : N := {_digest_env_source.label['_compute_inp_step_hash']}.",
        f"Definition gen_digest_label_source_stored : N := {_digest_env_source.label['_compute_full_step_hash']}.",
        f"Definition gen_digest_env_source_check : N := {inp_env_src}.",
        f"Definition gen_digest_env_source_stored : N := {full_env_src}.",
        f"Definition gen_command_env_source : N := {cmd_env_src}.",
        "",
        "(* startup.resume_from_db: 1 reset_interrupted_steps, 2 watch_known_dirs, 3 rescan_env_vars,",
        "   4 rescan_files, 5 rescan_nglobs *)",
        f"Definition gen_startup_sequence : list N := [{'; '.join(str(STARTUP_CODES[n]) for n in seq)}].",
        "",
        "(* workflow._HASH_TRANSITIONS: (cause, old state, hash known, Some (new state, action)) with",
        "   action 0 none, 1 updated, 2 deleted, 3 completed; None: no such key *)",
        "Definition gen_transitions : list (N * N * bool * option (N * N)) := [",
        ";\n".join(rows),
        "].",
        "",
        f"Definition gen_pending_sites : N := {len(sites)}.",
        "",
    ]
    return "\n".join(out), facts


if __name__ == "__main__":
    if "--print" in sys.argv:
        print("FINGERPRINTS")
        for k, v in fingerprints().items():
            print(f'    "{k}": ("{v}",),')
        print("TEXT_FINGERPRINTS")
        for k, v in text_fingerprints().items():
            print(f'    "{k}": ("{v}",),')
        print("PENDING_SITES = [")
        for s in pending_sites():
            print(f"    {s!r},")
        print("]")
    else:
        text, facts = generate(check="--nocheck" not in sys.argv)
        print(text)
