"""Translator for C06 / C07: everything in the cleanup code that is data or a small decision.

Regenerated from the working tree of the repository on every run, fail closed:

* enum values (FileState, roles, Need.OPTIONAL, StepState.PENDING, ReturnCode.WARNING);
* the guard chain of `Builder.finalize` as an ordered list of recognised conditions and the ordered
  list of cleanup calls in its final `else`;
* `File.before_delete`: which states queue the path (volatile: unconditionally; hashed: with hash);
* the WHEN clause of the `file_clear_hash` trigger;
* the "keep the old output state" rule of `File.initialize_row`;
* `_HASH_TRANSITIONS` (imported data);
* every writer of `file.state` in stepup/core: guarded `set_state(FileState.X)` sites, the bulk
  UPDATE of `update_file_hashes`, the upsert of `initialize_row`, the revert UPDATE of finalize.py;
  every `create(File, ...)` / `_declare_file(...)` site with the state it requests;
* revert_optional_steps: the selecting need, the states selected, the state written, the exempt state;
* clean.py: SELECT_OUTPUTS state filter, the detached-only suffix and how `--all` feeds it;
* every file-removal call site in stepup/core and every caller of the cleanup entry points.
"""
from __future__ import annotations

import ast
import importlib
import re

from .astutil import (REPO, TranslatorError, body_without_docstring, coq_str, find_function,
                      functions_with_parents, parse_module)

CORE = "stepup/core"


def _fs_const(node):
    """FileState.X -> 'X' (or None)."""
    if (isinstance(node, ast.Attribute) and isinstance(node.value, ast.Name)
            and node.value.id == "FileState"):
        return node.attr
    return None


def _fs_tuple(node, where):
    if _fs_const(node):
        return [_fs_const(node)]
    if isinstance(node, (ast.Tuple, ast.List, ast.Set)):
        out = [_fs_const(e) for e in node.elts]
        if all(out):
            return out
    raise TranslatorError(f"{where}: not a tuple of FileState constants: {ast.unparse(node)[:80]}")


def _enums():
    en = importlib.import_module("stepup.core.enums")
    fs = {s.name: s.value for s in en.FileState}
    roles = {r.name: sorted(s.value for s in en.FILE_STATES_BY_ROLE[r]) for r in en.FileRole}
    for st, role in en.FILE_ROLE_BY_STATE.items():
        if st.value not in roles[role.name]:
            raise TranslatorError("FILE_ROLE_BY_STATE and FILE_STATES_BY_ROLE disagree")
    return {
        "fs": fs, "roles": roles,
        "need_optional": en.Need.OPTIONAL.value,
        "ss_pending": en.StepState.PENDING.value,
        "rc_warning": en.ReturnCode.WARNING.value,
        "rc_all": {r.name: r.value for r in en.ReturnCode},
    }


# ---------------------------------------------------------------------------------------------
# Builder.finalize
# ---------------------------------------------------------------------------------------------

CLEANUP_NAMES = {"revert_optional_steps": "CRevert", "delete_detached": "CDeleteDetached",
                 "remove_deletable_files": "CRemoveFiles"}
DESTRUCTIVE = set(CLEANUP_NAMES) | {"_prune_empty_dirs", "to_be_deleted", "mark_dir_to_be_deleted",
                                    "remove", "rmdir", "remove_p", "unlink", "rmtree"}


def _names_in(node):
    out = set()
    for n in ast.walk(node):
        if isinstance(n, ast.Name):
            out.add(n.id)
        elif isinstance(n, ast.Attribute):
            out.add(n.attr)
    return out


def _classify_guard(test, en):
    txt = ast.unparse(test)
    if txt == "len(self.workflow.targets) > 0 or len(self.workflow.target_dirs) > 0":
        return "GTargets"
    if txt == "self.returncode & ~ReturnCode.WARNING":
        return f"(GRcMasked {en['rc_warning']})"
    m = re.fullmatch(r"self\.returncode & ~ReturnCode\.([A-Z]+)", txt)
    if m and m.group(1) in en["rc_all"]:
        return f"(GRcMasked {en['rc_all'][m.group(1)]})"
    if txt == "self.returncode":
        return "(GRcMasked 0)"
    if txt == "not self.do_remove_outdated":
        return "GNoClean"
    raise TranslatorError(f"Builder.finalize: unrecognised guard condition: {txt!r}")


def translate_finalize(en):
    tree = parse_module(f"{CORE}/builder.py")
    fn = find_function(tree, "finalize", cls="Builder")
    body = body_without_docstring(fn)
    chain = None
    rc_assigned_before = False
    for idx, st in enumerate(body):
        if isinstance(st, ast.If):
            if chain is not None:
                raise TranslatorError("Builder.finalize: more than one top-level if")
            chain = (idx, st)
        else:
            names = _names_in(st)
            if names & DESTRUCTIVE:
                raise TranslatorError(f"Builder.finalize: cleanup call outside the guard chain: {ast.unparse(st)[:80]}")
            if chain is None and isinstance(st, ast.Assign) and ast.unparse(st.targets[0]) == "self.returncode":
                if "report_unbuilt" not in names:
                    raise TranslatorError("Builder.finalize: returncode is not taken from report_unbuilt")
                rc_assigned_before = True
    if chain is None:
        raise TranslatorError("Builder.finalize: no guard chain found")
    if not rc_assigned_before:
        raise TranslatorError("Builder.finalize: self.returncode is not assigned before the guard chain")
    guards = []
    node = chain[1]
    while True:
        guards.append(_classify_guard(node.test, en))
        for st in node.body:
            if _names_in(st) & DESTRUCTIVE:
                raise TranslatorError("Builder.finalize: a guarded branch performs cleanup")
            if not (isinstance(st, ast.Expr) and isinstance(st.value, ast.Await)
                    and ast.unparse(st.value.value).startswith("self.reporter(")):
                raise TranslatorError(f"Builder.finalize: guarded branch does more than report: {ast.unparse(st)[:60]}")
        if len(node.orelse) == 1 and isinstance(node.orelse[0], ast.If):
            node = node.orelse[0]
            continue
        final = node.orelse
        break
    if not final:
        raise TranslatorError("Builder.finalize: guard chain has no else branch")
    calls = []
    for st in final:
        found = []
        if isinstance(st, ast.AsyncWith):
            if [ast.unparse(i.context_expr) for i in st.items] != ["self.db"]:
                raise TranslatorError("Builder.finalize: unexpected async with in the cleanup branch")
            inner = st.body
        else:
            inner = [st]
        for s2 in inner:
            if not isinstance(s2, ast.Expr):
                raise TranslatorError(f"Builder.finalize: unexpected statement in cleanup branch: {ast.unparse(s2)[:60]}")
            call = s2.value.value if isinstance(s2.value, ast.Await) else s2.value
            if not isinstance(call, ast.Call):
                raise TranslatorError("Builder.finalize: cleanup branch statement is not a call")
            name = call.func.attr if isinstance(call.func, ast.Attribute) else getattr(call.func, "id", None)
            if name not in CLEANUP_NAMES:
                raise TranslatorError(f"Builder.finalize: unknown call in cleanup branch: {name}")
            if name == "delete_detached" and not isinstance(st, ast.AsyncWith):
                raise TranslatorError("Builder.finalize: delete_detached outside a transaction")
            found.append(CLEANUP_NAMES[name])
        calls += found
    return guards, calls


# ---------------------------------------------------------------------------------------------
# file.py: before_delete, initialize_row keep rule, file_clear_hash
# ---------------------------------------------------------------------------------------------


_PRED_NODES = (ast.Expression, ast.Compare, ast.BoolOp, ast.UnaryOp, ast.And, ast.Or, ast.Not, ast.Eq, ast.NotEq, ast.In,
               ast.NotIn, ast.Is, ast.IsNot, ast.Name, ast.Attribute, ast.Subscript, ast.Tuple, ast.List, ast.Set, ast.Load)


def _state_predicate(test, var, where):
    """The set of FileState names for which `test` (an expression over the variable `var` and the constants of
    enums.py: comparisons, membership, and/or/not) is true -- by evaluating it for every member of the enum.  A
    rewrite that keeps the set is accepted, one that changes it is translated."""
    for n in ast.walk(test):
        if not isinstance(n, _PRED_NODES):
            raise TranslatorError(f"{where}: state test not understood: {ast.unparse(test)[:80]!r}")
        if isinstance(n, ast.Name) and n.id not in (var, "FileState", "FileRole", "FILE_STATES_BY_ROLE", "FILE_ROLE_BY_STATE"):
            raise TranslatorError(f"{where}: state test uses {n.id!r}: {ast.unparse(test)[:80]!r}")
    en = importlib.import_module("stepup.core.enums")
    code = compile(ast.Expression(body=test), "<state test>", "eval")
    env = {"FileState": en.FileState, "FileRole": en.FileRole, "FILE_STATES_BY_ROLE": en.FILE_STATES_BY_ROLE,
           "FILE_ROLE_BY_STATE": en.FILE_ROLE_BY_STATE}
    out = []
    for st in en.FileState:
        try:
            if eval(code, {"__builtins__": {}}, dict(env, **{var: st})):  # noqa: S307 - whitelisted node types only
                out.append(st.name)
        except Exception as e:  # noqa: BLE001
            raise TranslatorError(f"{where}: state test cannot be evaluated for {st.name}: {e}") from e
    return out


def translate_before_delete():
    tree = parse_module(f"{CORE}/file.py")
    fn = find_function(tree, "before_delete", cls="File")
    body = body_without_docstring(fn)
    ok = (len(body) == 3 and isinstance(body[0], ast.Assign) and ast.unparse(body[0]) == "state = self.get_state()"
          and isinstance(body[1], ast.If) and isinstance(body[2], ast.Expr)
          and ast.unparse(body[2]) == "self.graph.mark_dir_to_be_deleted(self.path.parent)")
    if not ok:
        raise TranslatorError("File.before_delete: body shape changed")
    top = body[1]
    # the two tests of the if / elif are evaluated for every FileState: which states queue the path as volatile
    # (first branch) and which with their hash (second branch, only reached when the first test is false)
    in_first = _state_predicate(top.test, "state", "File.before_delete")
    if [ast.unparse(s) for s in top.body] != ["self.graph.to_be_deleted[self.path] = None"]:
        raise TranslatorError("File.before_delete: volatile branch changed")
    if not (len(top.orelse) == 1 and isinstance(top.orelse[0], ast.If) and not top.orelse[0].orelse):
        raise TranslatorError("File.before_delete: elif branch changed")
    el = top.orelse[0]
    in_second = _state_predicate(el.test, "state", "File.before_delete")
    vol = in_first
    hashed = [x for x in in_second if x not in in_first]
    want = ["file_hash = self.get_hash()",
            "if not file_hash.is_unknown:\n    self.graph.to_be_deleted[self.path] = file_hash"]
    if [ast.unparse(s) for s in el.body] != want:
        raise TranslatorError("File.before_delete: hashed branch changed")
    # Step.before_delete
    tree = parse_module(f"{CORE}/step.py")
    fn = find_function(tree, "before_delete", cls="Step")
    body = body_without_docstring(fn)
    if [ast.unparse(s) for s in body] != ["self.graph.mark_dir_to_be_deleted(self.command_and_workdir[1])"]:
        raise TranslatorError("Step.before_delete: body changed")
    fn = find_function(tree, "after_lost_product", cls="Step")
    if [ast.unparse(s) for s in body_without_docstring(fn)] != ["self.delete_hash()"]:
        raise TranslatorError("Step.after_lost_product: body changed")
    return vol, hashed


_BLOCK_NODES = _PRED_NODES + (ast.Module, ast.Assign, ast.If, ast.Constant, ast.Call, ast.Store)


def _run_state_block(stmts, where, requested, row):
    """Execute a block that consists of assignments to local names and if / elif / else over them (expressions:
    comparisons, membership, and/or/not, `row[k]`, `X.value`, `FileState(row[0])`, constants of enums.py) for one
    requested state and one old row; the two statements that read the row from the database are replaced by `row`.
    Named intermediate booleans, reordered tuples, split or merged conditions all give the same result."""
    en = importlib.import_module("stepup.core.enums")
    reads = {"sql = 'SELECT state, hash FROM file WHERE node = ?'", "row = self.db.execute(sql, (self.i,)).fetchone()",
             "row = self.db.execute('SELECT state, hash FROM file WHERE node = ?', (self.i,)).fetchone()"}

    class Strip(ast.NodeTransformer):
        def visit_Assign(self, node):
            return None if _ws(ast.unparse(node)) in reads else node
    import copy
    keep = [Strip().visit(copy.deepcopy(st)) for st in stmts]
    mod = ast.Module(body=keep, type_ignores=[])
    for n in ast.walk(mod):
        if not isinstance(n, _BLOCK_NODES):
            raise TranslatorError(f"{where}: statement not understood: {type(n).__name__} in {ast.unparse(n)[:60]!r}")
        if isinstance(n, ast.Call) and not (isinstance(n.func, ast.Name) and n.func.id == "FileState" and len(n.args) == 1):
            raise TranslatorError(f"{where}: call not understood: {ast.unparse(n)[:60]!r}")
        if isinstance(n, ast.Attribute) and n.attr.startswith("_"):
            raise TranslatorError(f"{where}: attribute not understood: {ast.unparse(n)[:60]!r}")
    env = {"FileState": en.FileState, "FileRole": en.FileRole, "FILE_STATES_BY_ROLE": en.FILE_STATES_BY_ROLE,
           "FILE_ROLE_BY_STATE": en.FILE_ROLE_BY_STATE, "state": requested, "row": row, "hash_json": None}
    ast.fix_missing_locations(mod)
    exec(compile(mod, "<keep rule>", "exec"), {"__builtins__": {}}, env)  # noqa: S102 - whitelisted node types only
    return env["state"], env["hash_json"]


def translate_keep_rule():
    """File.initialize_row, the block that decides which state an existing row ends up in.  The block is EXECUTED for
    every requested FileState and every old row (none, or any FileState with a hash); the resulting table must be
    the one the model's init_row_state computes from (keep_requested, keep_old, keep_volatile_on_supply), which are
    read off the table."""
    en = importlib.import_module("stepup.core.enums")
    tree = parse_module(f"{CORE}/file.py")
    fn = find_function(tree, "initialize_row", cls="File")
    body = body_without_docstring(fn)
    where = "File.initialize_row"
    if not (body and _ws(ast.unparse(body[0])) == "hash_json = None"):
        raise TranslatorError(f"{where}: hash_json is not initialised to None")
    ifs = [s for s in body if isinstance(s, ast.If)]
    if len(ifs) != 2 or ifs[0].orelse:
        raise TranslatorError(f"{where}: expected two if statements")
    first = ifs[0]
    states = list(en.FileState)
    table, hashes = {}, {}
    for r in states:
        for o in [None] + states:
            row = None if o is None else (o.value, "HASH")
            got, hj = _run_state_block([first], where, r, row)
            if not isinstance(got, en.FileState):
                raise TranslatorError(f"{where}: the block leaves a non-state in `state`")
            table[(r.name, None if o is None else o.name)] = got.name
            hashes[(r.name, None if o is None else o.name)] = hj
    # read the three parameters of the model off the table ...
    requested = [r.name for r in states if any(table[(r.name, o.name)] != r.name for o in states)]
    old = [o.name for o in states if requested and all(table[(r, o.name)] == o.name for r in requested)
           and any(r != o.name for r in requested)]
    keep_vol = table[("UNDECLARED", "VOLATILE")] == "VOLATILE"
    # the hash handed to the upsert is the row's whenever a hashed old state is kept by the rule
    for r in requested:
        for o in old:
            if hashes[(r, o)] != "HASH":
                raise TranslatorError(f"{where}: old state {o} kept over requested {r} without its hash")
    # ... and check that they reproduce it exactly (model/Clean.v init_row_state)
    for (r, o), got in table.items():
        if o is None:
            want = r
        elif r in requested and o in old:
            want = o
        elif keep_vol and r == "UNDECLARED" and o == "VOLATILE":
            want = "VOLATILE"
        else:
            want = r
        if got != want:
            raise TranslatorError(f"{where}: requested {r} over an old {o} row gives {got}; not expressible by the "
                                  f"keep rule of the model (keep_requested={requested}, keep_old={old}, volatile arm={keep_vol})")
    # the upsert must assign only the state column
    sqls = [n.value for n in ast.walk(fn) if isinstance(n, ast.Constant) and isinstance(n.value, str)
            and "INSERT INTO file" in n.value]
    joined = " ".join(n.value for n in ast.walk(fn) if isinstance(n, ast.Constant) and isinstance(n.value, str))
    if "ON CONFLICT DO UPDATE SET state = :state WHERE node = :node" not in joined or not sqls:
        raise TranslatorError("File.initialize_row: upsert text changed")
    second = ifs[1]
    if ast.unparse(second.test) != "state == FileState.BUILT" or \
            [ast.unparse(s) for s in second.body] != ["self.graph.mark_file_outdated(self)"]:
        raise TranslatorError("File.initialize_row: BUILT degradation changed")
    return requested, old, keep_vol


def translate_clear_hash(en):
    mod = importlib.import_module("stepup.core.file")
    m = re.search(r"CREATE TRIGGER IF NOT EXISTS file_clear_hash AFTER UPDATE OF state ON file\s+WHEN (.*?)\s+BEGIN\s+(.*?)END;",
                  mod.FILE_SCHEMA, re.S)
    if not m:
        raise TranslatorError("file_clear_hash trigger not found")
    when = re.sub(r"\s+", " ", m.group(1)).strip()
    action = re.sub(r"\s+", " ", m.group(2)).strip()
    if action != "UPDATE file SET hash = NULL WHERE node = NEW.node;":
        raise TranslatorError(f"file_clear_hash action changed: {action}")
    m2 = re.fullmatch(r"\( NEW\.state IN \(([0-9, ]+)\) OR \( NEW\.state = (\d+) AND OLD\.state IN \(([0-9, ]+)\) \) \) "
                      r"AND NEW\.hash IS NOT NULL", when)
    if not m2:
        raise TranslatorError(f"file_clear_hash WHEN clause not recognised: {when}")
    ints = lambda s: [int(x) for x in s.replace(" ", "").split(",")]
    return ints(m2.group(1)), [int(m2.group(2))], ints(m2.group(3))


# ---------------------------------------------------------------------------------------------
# writers of file.state
# ---------------------------------------------------------------------------------------------


def _guard_of_set_state(fn, call, rel):
    """The `FileState` guard under which `<x>.set_state(FileState.S)` executes."""
    recv = ast.unparse(call.func.value)
    # find the innermost enclosing If whose body contains the call
    best = None
    for node in ast.walk(fn):
        if isinstance(node, ast.If) and any(call is c for s in node.body for c in ast.walk(s)):
            if best is None or any(node is c for c in ast.walk(best)):
                best = node
    if best is None:
        raise TranslatorError(f"{rel}: unguarded set_state(FileState...) on {recv}")
    t = best.test
    txt = ast.unparse(t)
    if not (isinstance(t, ast.Compare) and len(t.ops) == 1 and isinstance(t.ops[0], ast.Eq)
            and _fs_const(t.comparators[0])):
        raise TranslatorError(f"{rel}: guard of set_state not `== FileState.X`: {txt}")
    left = ast.unparse(t.left)
    if left == f"{recv}.get_state()":
        return _fs_const(t.comparators[0])
    # `state = <recv>.get_state()` immediately before
    for node in ast.walk(fn):
        if isinstance(node, ast.Assign) and ast.unparse(node.targets[0]) == left \
                and ast.unparse(node.value) == f"{recv}.get_state()":
            return _fs_const(t.comparators[0])
    raise TranslatorError(f"{rel}: guard of set_state does not test the state of {recv}: {txt}")


def _preceding_assign(fn, call, name):
    """The assignment to `name` that precedes `call` in the statement list containing it."""
    for node in ast.walk(fn):
        for field in ("body", "orelse", "finalbody"):
            block = getattr(node, field, None)
            if not isinstance(block, list):
                continue
            for idx, st in enumerate(block):
                if any(call is c for c in ast.walk(st)):
                    if any(isinstance(c, (ast.If, ast.For, ast.While, ast.With, ast.Try)) and
                           any(call is d for d in ast.walk(c)) for c in ast.iter_child_nodes(st)) \
                            or isinstance(st, (ast.If, ast.For, ast.While, ast.With, ast.Try)):
                        continue  # the call sits deeper; a nested block will be visited
                    for prev in reversed(block[:idx]):
                        if isinstance(prev, ast.Assign) and ast.unparse(prev.targets[0]) == name:
                            return [prev]
                    return []
    return []


def scan_state_writers(en):
    set_sites, sql_sites, declare_sites, create_sites = [], [], [], []
    for path in sorted((REPO / CORE).glob("*.py")):
        rel = f"{CORE}/{path.name}"
        tree = parse_module(rel)
        fns = list(functions_with_parents(tree))
        covered_consts = set()
        for qual, fn in fns:
            inner = [f2 for q2, f2 in fns if q2.startswith(qual + ".")]
            skip = {id(n) for f2 in inner for n in ast.walk(f2)}
            for node in ast.walk(fn):
                if id(node) in skip:
                    continue
                if isinstance(node, ast.Call) and isinstance(node.func, ast.Attribute):
                    name = node.func.attr
                    if name == "set_state" and node.args and _fs_const(node.args[0]):
                        frm = _guard_of_set_state(fn, node, f"{rel}:{qual}")
                        set_sites.append((f"{path.name}:{qual}", frm, _fs_const(node.args[0])))
                    elif name == "set_state" and node.args and not (
                            isinstance(node.args[0], ast.Attribute) and isinstance(node.args[0].value, ast.Name)
                            and node.args[0].value.id == "StepState"):
                        recv = ast.unparse(node.func.value)
                        if path.name == "file.py" or "file" in recv.lower():
                            raise TranslatorError(f"{rel}:{qual}: set_state with a computed state on {recv}")
                    elif name == "_declare_file":
                        if len(node.args) != 3 or not _fs_const(node.args[2]):
                            raise TranslatorError(f"{rel}:{qual}: _declare_file with a computed state")
                        declare_sites.append((f"{path.name}:{qual}", ast.unparse(node.args[0]), _fs_const(node.args[2])))
                    elif name == "create" and node.args and ast.unparse(node.args[0]) == "File":
                        kw = {k.arg: k.value for k in node.keywords}
                        if "state" not in kw:
                            raise TranslatorError(f"{rel}:{qual}: create(File) without state=")
                        stv = kw["state"]
                        if _fs_const(stv):
                            states = [_fs_const(stv)]
                        elif isinstance(stv, ast.Name):
                            # every assignment to that name in the function must be a FileState constant,
                            # or the name is the `file_state` parameter of _declare_file
                            assigns = _preceding_assign(fn, node, stv.id)
                            if assigns:
                                states = []
                                for a in assigns:
                                    if not _fs_const(a.value):
                                        raise TranslatorError(f"{rel}:{qual}: state variable assigned a non-constant")
                                    states.append(_fs_const(a.value))
                            elif qual.endswith("_declare_file") and stv.id in [a.arg for a in fn.args.args]:
                                states = ["<param>"]
                            else:
                                raise TranslatorError(f"{rel}:{qual}: create(File, state={stv.id}) not understood")
                        else:
                            raise TranslatorError(f"{rel}:{qual}: create(File) with computed state")
                        create_sites.append((f"{path.name}:{qual}", ast.unparse(node.args[1]), states))
        # SQL texts that write the file table
        for node in ast.walk(tree):
            if isinstance(node, ast.Constant) and isinstance(node.value, str):
                txt = node.value
                if len(txt) > 1500 and "CREATE TABLE IF NOT EXISTS file" in txt:
                    continue  # FILE_SCHEMA itself (trigger handled separately)
                if re.search(r"\bUPDATE\s+file\b|\bINSERT\s+(OR\s+\w+\s+)?INTO\s+file\b|\bDELETE\s+FROM\s+file\b|\bREPLACE\s+INTO\s+file\b", txt):
                    owner = [q for q, f2 in fns if any(n2 is node for n2 in ast.walk(f2))]
                    owner = max(owner, key=len) if owner else "module"
                    if owner == "module":
                        # name of the module-level constant this piece belongs to
                        for st in tree.body:
                            if isinstance(st, ast.Assign) and any(n2 is node for n2 in ast.walk(st)):
                                owner = "module." + ast.unparse(st.targets[0])
                    if owner == "module.FILE_SCHEMA":
                        continue  # the trigger action; translate_clear_hash pins its exact text
                    sql_sites.append((f"{path.name}:{owner}", re.sub(r"\s+", " ", txt).strip()))
    return set_sites, sql_sites, declare_sites, create_sites


KNOWN_SQL_WRITERS = {
    ("file.py:File.initialize_row", "upsert"),
    ("file.py:File.set_state", "set_state"),
    ("workflow.py:Workflow.update_file_hashes", "bulk"),
    ("finalize.py:module.UPDATE_OPTIONAL_TO_BE_DELETED", "revert"),
}


def classify_sql_sites(sql_sites):
    out = []
    for site, txt in sql_sites:
        if site == "file.py:File.initialize_row" and txt.startswith("INSERT INTO file VALUES(:node, :state, :hash)"):
            out.append((site, "upsert"))
        elif site == "file.py:File.set_state" and txt == "UPDATE file SET state = ? WHERE node = ?":
            out.append((site, "set_state"))
        elif site == "workflow.py:Workflow.update_file_hashes" and txt == "UPDATE file SET state = ?, hash = ? WHERE node = ?":
            out.append((site, "bulk"))
        elif site == "finalize.py:module.UPDATE_OPTIONAL_TO_BE_DELETED":
            out.append((site, "revert"))  # exact text pinned by translate_revert
        else:
            raise TranslatorError(f"unrecognised SQL writer of the file table at {site}: {txt[:90]!r}")
    if set(out) != KNOWN_SQL_WRITERS:
        raise TranslatorError(f"writers of the file table changed: {sorted(out)}")
    return sorted(set(out))


def translate_hash_transitions():
    wf = importlib.import_module("stepup.core.workflow")
    rows = []
    for (cause, old, known), (new, action) in wf._HASH_TRANSITIONS.items():
        rows.append((cause.value, old.value, bool(known), new.value))
    # update_file_hashes must use the table through .get((cause, old_state, known)) and raise otherwise
    tree = parse_module(f"{CORE}/workflow.py")
    fn = find_function(tree, "update_file_hashes", cls="Workflow")
    src = ast.unparse(fn)
    if "_HASH_TRANSITIONS.get((cause, old_state, not new_fh.is_unknown))" not in src:
        raise TranslatorError("update_file_hashes no longer looks up _HASH_TRANSITIONS by (cause, old_state, known)")
    if not _has(src, "if transition is None: raise_unexpected(path, old_state, new_fh)") or "raise_unexpected(path, old_state, new_fh)" not in src:
        raise TranslatorError("update_file_hashes: the missing-key branch changed")
    return sorted(rows)


# ---------------------------------------------------------------------------------------------
# finalize.py revert / remove; clean.py
# ---------------------------------------------------------------------------------------------


def translate_revert(en):
    fin = importlib.import_module("stepup.core.finalize")
    norm = lambda s: re.sub(r"--[^\n]*\n", " ", s)
    ws = lambda s: re.sub(r"\s+", " ", norm(s)).strip()
    t1 = ws(fin.CREATE_OPTIONAL_STEP_TABLE)
    m = re.fullmatch(r"CREATE TEMP TABLE optional_step AS SELECT step\.node AS i, node\.label, step\.state FROM step "
                     r"JOIN node ON step\.node = node\.i WHERE _implied_need = (\d+) AND NOT node\.detached", t1)
    if not m:
        raise TranslatorError(f"CREATE_OPTIONAL_STEP_TABLE changed: {t1}")
    need = int(m.group(1))
    t2 = ws(fin.CREATE_OPTIONAL_TO_BE_DELETED_TABLE)
    m = re.fullmatch(r"CREATE TEMP TABLE optional_to_be_deleted AS SELECT node\.i, node\.label, file\.state, file\.hash "
                     r"FROM file JOIN node ON file\.node = node\.i JOIN dependency ON dependency\.sink = node\.i "
                     r"JOIN optional_step ON dependency\.source = optional_step\.i WHERE file\.state IN \(([0-9, ]+)\)", t2)
    if not m:
        raise TranslatorError(f"CREATE_OPTIONAL_TO_BE_DELETED_TABLE changed: {t2}")
    frm = [int(x) for x in m.group(1).replace(" ", "").split(",")]
    t3 = ws(fin.UPDATE_OPTIONAL_TO_BE_DELETED)
    m = re.fullmatch(r"UPDATE file SET state = (\d+), hash = NULL FROM optional_to_be_deleted "
                     r"WHERE file\.node = optional_to_be_deleted\.i AND file\.state != (\d+)", t3)
    if not m:
        raise TranslatorError(f"UPDATE_OPTIONAL_TO_BE_DELETED changed: {t3}")
    to, exempt = int(m.group(1)), int(m.group(2))
    t4 = ws(fin.UPDATE_OPTIONAL_STEPS)
    m = re.fullmatch(r"UPDATE step SET state = (\d+) FROM optional_step WHERE step\.node = optional_step\.i "
                     r"AND step\.state != (\d+)", t4)
    if not m or m.group(1) != m.group(2):
        raise TranslatorError(f"UPDATE_OPTIONAL_STEPS changed: {t4}")
    step_to = int(m.group(1))
    # the Python part: queue value None for the volatile state, hash otherwise; parents marked
    tree = parse_module(f"{CORE}/finalize.py")
    fn = find_function(tree, "revert_optional_steps")
    src = ast.unparse(fn)
    for frag in ("row[0]: None if row[1] == FileState.VOLATILE.value else FileHash.from_json(row[2])",
                 "workflow.to_be_deleted.update(to_be_deleted)",
                 "workflow.mark_dir_to_be_deleted(Path(path).parent)",
                 "db.execute(UPDATE_OPTIONAL_TO_BE_DELETED)"):
        if frag not in src:
            raise TranslatorError(f"revert_optional_steps: fragment missing: {frag}")
    return need, frm, to, exempt, step_to


def _ws(s):
    return re.sub(r"\s+", " ", s).strip()


def _has(src, frag):
    return _ws(frag) in _ws(src)


FKINDS = ["KRegular", "KSymlink", "KDirectory", "KMissing"]
# predicates on a path whose value is a function of the kind lstat reports (regular file, symbolic link,
# directory, nothing).  Predicates that follow links (isfile, isdir, exists, ...) are not such functions:
# a branch on one of them is not understood and fails closed.
LSTAT_PREDICATES = {"islink": {"KRegular": False, "KSymlink": True, "KDirectory": False, "KMissing": False}}


def _kind_conjuncts(test, var, required, where, state_var=None):
    """`test` must be a conjunction that contains each source text in `required` exactly once; every other conjunct
    must be `<var>.<lstat predicate>()` or its negation, or -- when `state_var` is given -- a test on the file state
    (evaluated for every FileState).  Returns kind -> bool: for which kinds of `<var>` the remaining (required)
    conjuncts are evaluated at all; with `state_var` also the list of state names for which they are."""
    conj = test.values if isinstance(test, ast.BoolOp) and isinstance(test.op, ast.And) else [test]
    seen = []
    table = {k: True for k in FKINDS}
    states = None
    for c in conj:
        txt = _ws(ast.unparse(c))
        if txt in required:
            seen.append(txt)
            continue
        if state_var is not None and state_var in {n.id for n in ast.walk(c) if isinstance(n, ast.Name)}:
            got = set(_state_predicate(c, state_var, where))
            states = got if states is None else states & got
            continue
        neg = False
        inner = c
        if isinstance(inner, ast.UnaryOp) and isinstance(inner.op, ast.Not):
            neg, inner = True, inner.operand
        ok = (isinstance(inner, ast.Call) and not inner.args and not inner.keywords and isinstance(inner.func, ast.Attribute)
              and ast.unparse(inner.func.value) == var and inner.func.attr in LSTAT_PREDICATES)
        if not ok:
            raise TranslatorError(f"{where}: condition not understood: {txt[:80]!r}")
        for k in FKINDS:
            table[k] = table[k] and (LSTAT_PREDICATES[inner.func.attr][k] != neg)
    if sorted(seen) != sorted(required):
        raise TranslatorError(f"{where}: expected the conjunct(s) {required}, found {seen}")
    if state_var is not None:
        en = importlib.import_module("stepup.core.enums")
        return table, [st.name for st in en.FileState if states is None or st.name in states]
    return table


def _is_linked_parent_guard(st, var):
    """`if has_linked_parent(<var>): ...report...; continue` -- nothing is removed in the branch."""
    return (isinstance(st, ast.If) and not st.orelse and _ws(ast.unparse(st.test)) == f"has_linked_parent({var})"
            and st.body and isinstance(st.body[-1], ast.Continue)
            and not (_names_in(ast.Module(body=st.body, type_ignores=[])) & (REMOVERS | {"to_be_deleted"})))


def _check_has_linked_parent():
    """The helper itself: walks the parents of the path (not the last component) and tests islink() on each."""
    tree = parse_module(f"{CORE}/path.py")
    src = _ws(ast.unparse(find_function(tree, "has_linked_parent")))
    want = _ws("parent = Path(path).parent\nwhile parent.name not in ('..', '.', ''):\n    if parent.islink():\n"
               "        return True\n    parent = parent.parent\nreturn False")
    if want not in src:
        raise TranslatorError("path.has_linked_parent: body not recognised")


class _Rename(ast.NodeTransformer):
    def __init__(self, var):
        self.var = var

    def visit_Name(self, node):
        return ast.copy_location(ast.Name(id="_v", ctx=node.ctx), node) if node.id == self.var else node


def _norm(expr, var):
    return _ws(ast.unparse(_Rename(var).visit(ast.parse(ast.unparse(expr), mode="eval").body)))


def _collection_builders(body, source):
    """Statements that build a list / set from one pass over `source` with one filter, in either spelling:
         X = [E for v in source if C]            X = {E for v in source if C}
         X = []                                  X = set()
         for v in source:                        for v in source:
             if C:                                   if C:
                 X.append(E)                             X.add(E)
    Returns ({X: (kind, E, C)} with the loop variable renamed to _v, indices of the consumed statements)."""
    out, used = {}, set()
    for i, st in enumerate(body):
        if not (isinstance(st, ast.Assign) and len(st.targets) == 1 and isinstance(st.targets[0], ast.Name)):
            continue
        name, val = st.targets[0].id, st.value
        if isinstance(val, (ast.ListComp, ast.SetComp)) and len(val.generators) == 1:
            g = val.generators[0]
            if _ws(ast.unparse(g.iter)) == source and isinstance(g.target, ast.Name) and len(g.ifs) == 1 and not g.is_async:
                out[name] = ("list" if isinstance(val, ast.ListComp) else "set",
                             _norm(val.elt, g.target.id), _norm(g.ifs[0], g.target.id))
                used.add(i)
            continue
        empty = ("list" if _ws(ast.unparse(val)) == "[]" else "set" if _ws(ast.unparse(val)) == "set()" else None)
        if empty is None or i + 1 >= len(body):
            continue
        loop = body[i + 1]
        if not (isinstance(loop, ast.For) and not loop.orelse and isinstance(loop.target, ast.Name)
                and _ws(ast.unparse(loop.iter)) == source and len(loop.body) == 1 and isinstance(loop.body[0], ast.If)
                and not loop.body[0].orelse and len(loop.body[0].body) == 1):
            continue
        call = loop.body[0].body[0]
        meth = "append" if empty == "list" else "add"
        if (isinstance(call, ast.Expr) and isinstance(call.value, ast.Call) and isinstance(call.value.func, ast.Attribute)
                and call.value.func.attr == meth and ast.unparse(call.value.func.value) == name
                and len(call.value.args) == 1 and not call.value.keywords):
            v = loop.target.id
            out[name] = (empty, _norm(call.value.args[0], v), _norm(loop.body[0].test, v))
            used.update({i, i + 1})
    return out, used


def translate_prune(tree):
    """_prune_empty_dirs, statement by statement: `todo = sorted(dirs)`; while the stack is not empty: pop; [skip what
    was seen before]; if it is an empty directory and rmdir succeeds: report, push the parent unless its name is
    '..', '.' or ''.  Returns whether a path is examined at most once (a `seen` set)."""
    where = "_prune_empty_dirs"
    fn = find_function(tree, "_prune_empty_dirs")
    body = [_ws(ast.unparse(st)) for st in body_without_docstring(fn)]
    stmts = body_without_docstring(fn)
    once = False
    if len(stmts) == 3 and body[1] == "seen = set()":
        once = True
        del stmts[1], body[1]
    if len(stmts) != 2 or body[0] != "todo = sorted(dirs)" or not isinstance(stmts[1], ast.While) or stmts[1].orelse \
            or _ws(ast.unparse(stmts[1].test)) not in ("len(todo) > 0", "todo", "len(todo) != 0"):
        raise TranslatorError(f"{where}: not `todo = sorted(dirs)` followed by a loop until the stack is empty")
    lb = list(stmts[1].body)
    texts = [_ws(ast.unparse(st)) for st in lb]
    if not texts or texts[0] != "path = todo.pop()":
        raise TranslatorError(f"{where}: the loop does not start by popping the stack")
    guard = [_ws("if path in seen:\n    continue"), "seen.add(path)"]
    if texts[1:3] == guard:
        if not once:
            raise TranslatorError(f"{where}: seen is used but not initialised")
        del lb[1:3], texts[1:3]
    elif once:
        raise TranslatorError(f"{where}: a seen set that is not used in the recognised way")
    want = _ws("if path.is_dir() and (not any(path.iterdir())) and _try_remove(path.rmdir):\n"
               "    await reporter('REMOVE', path)\n    parent = path.parent\n"
               "    if parent.name not in ('..', '.', ''):\n        todo.append(parent)")
    if texts[1:] != [want]:
        raise TranslatorError(f"{where}: the body of the loop changed: {texts[1:]}")
    if "seen" in _names_in(fn) and not once:
        raise TranslatorError(f"{where}: use of `seen` not understood")
    return once


def translate_remove(en):
    """remove_deletable_files / _prune_empty_dirs / _try_remove.  The loop over the queued files is read
    structurally: for which kinds of path (lstat) the recorded hash is compared before the removal, and whether all
    decisions are taken before the first removal.  Returns (hash_checked: kind -> bool, decide_first: bool)."""
    tree = parse_module(f"{CORE}/finalize.py")
    fn = find_function(tree, "remove_deletable_files")
    body = body_without_docstring(fn)
    src = ast.unparse(fn)
    where = "remove_deletable_files"
    for f in ["await _prune_empty_dirs(dirs, reporter)", "workflow.to_be_deleted.clear()"]:
        if not _has(src, f):
            raise TranslatorError(f"remove_deletable_files: fragment missing: {f[:70]!r}")
    # which queued keys are files and which are directories: statement-level, either spelling
    builders, used = _collection_builders(body, "workflow.to_be_deleted")
    if builders.get("file_paths") != ("list", "_v", "not _v.endswith(os.sep)"):
        raise TranslatorError(f"{where}: file_paths is not the list of the queued keys without a trailing separator: "
                              f"{builders.get('file_paths')}")
    if builders.get("dirs") != ("set", "Path(_v).normpath()", "_v.endswith(os.sep)"):
        raise TranslatorError(f"{where}: dirs is not the set of the normalised queued keys with a trailing separator: "
                              f"{builders.get('dirs')}")
    if set(builders) != {"file_paths", "dirs"}:
        raise TranslatorError(f"{where}: unexpected collections built from to_be_deleted: {sorted(builders)}")
    body = [st for i, st in enumerate(body) if i not in used]
    loops = [st for st in body if isinstance(st, ast.For)]
    if not loops or _ws(ast.unparse(loops[0].iter)) != "sorted(file_paths, reverse=True)" \
            or ast.unparse(loops[0].target) != "file_path" or loops[0].orelse:
        raise TranslatorError(f"{where}: the loop over sorted(file_paths, reverse=True) changed")
    lb = list(loops[0].body)
    # optional guard: a queued path below a directory that is a symbolic link is never touched
    skips_linked = False
    if len(lb) == 5 and _is_linked_parent_guard(lb[2], "path"):
        skips_linked = True
        del lb[2]
    if len(lb) != 4 or _ws(ast.unparse(lb[0])) != "old_hash = workflow.to_be_deleted[file_path]" \
            or _ws(ast.unparse(lb[1])) != "path = Path(file_path)" or not isinstance(lb[2], ast.If) or lb[2].orelse:
        raise TranslatorError(f"{where}: body of the file loop changed")
    checked = _kind_conjuncts(lb[2].test, "path", ["old_hash is not None"], where)
    chk = lb[2].body
    ok = (len(chk) == 1 and isinstance(chk[0], ast.Try) and not chk[0].orelse and not chk[0].finalbody
          and [_ws(ast.unparse(x)) for x in chk[0].body] == [_ws("if old_hash.refreshed(path) != old_hash:\n    continue")]
          and len(chk[0].handlers) == 1 and ast.unparse(chk[0].handlers[0].type) == "HashError"
          and isinstance(chk[0].handlers[0].body[-1], ast.Continue)
          and not (_names_in(ast.Module(body=chk[0].handlers[0].body, type_ignores=[])) & REMOVERS))
    if not ok:
        raise TranslatorError(f"{where}: the hash comparison before the removal changed")
    remove_now = _ws("if _try_remove(path.remove):\n    await reporter('REMOVE', path)")
    remove_or_keep = _ws("if _try_remove(path.remove):\n    await reporter('REMOVE', path)\n"
                         "elif path.exists():\n    leftovers[file_path] = old_hash")
    last = _ws(ast.unparse(lb[3]))
    requeues = False
    idx = body.index(loops[0])
    if last == remove_now and len(loops) == 1:
        decide_first = False
    elif last == "removable.append(path)" and len(loops) == 2:
        # two passes: every decision is taken on the tree as it was, then the removals
        second = loops[1]
        ok = (idx > 0 and _ws(ast.unparse(body[idx - 1])) == "removable = []" and body.index(second) == idx + 1
              and ast.unparse(second.target) == "path" and ast.unparse(second.iter) == "removable" and not second.orelse
              and [_ws(ast.unparse(x)) for x in second.body] == [remove_now])
        if not ok:
            raise TranslatorError(f"{where}: two-pass removal not in the recognised shape")
        decide_first = True
    elif last == "removable.append((file_path, path, old_hash))" and len(loops) == 3:
        # two passes, and a path whose removal failed but which still exists is remembered ...
        second, third = loops[1], loops[2]
        before = [_ws(ast.unparse(x)) for x in body[:idx]]
        ok = ("removable = []" in before and "leftovers = {}" in before and body.index(second) == idx + 1
              and _ws(ast.unparse(second.target)) == "(file_path, path, old_hash)" and ast.unparse(second.iter) == "removable"
              and not second.orelse and [_ws(ast.unparse(x)) for x in second.body] == [remove_or_keep])
        # ... and put back into the queue after it was cleared
        ok = ok and (_ws(ast.unparse(third.target)) == "(file_path, old_hash)" and ast.unparse(third.iter) == "leftovers.items()"
                     and not third.orelse and [_ws(ast.unparse(x)) for x in third.body] ==
                     ["workflow.to_be_deleted[file_path] = old_hash",
                      "workflow.mark_dir_to_be_deleted(Path(file_path).parent)"])
        if not ok:
            raise TranslatorError(f"{where}: requeueing variant not in the recognised shape")
        decide_first, requeues = True, True
    else:
        raise TranslatorError(f"{where}: the removal statement of the file loop changed: {last[:80]!r}")
    # Workflow.to_be_deleted outlives the function (it lives as long as the Workflow object, i.e. across the build
    # phases of one director): what the function leaves in it is what the next cleanup starts with.  The queue must
    # be cleared after the directories were pruned, and nothing may follow the clear() except the recognised
    # requeueing loop.
    texts = [_ws(ast.unparse(x)) for x in body]
    if texts.count("workflow.to_be_deleted.clear()") != 1:
        raise TranslatorError(f"{where}: expected exactly one workflow.to_be_deleted.clear()")
    ci = texts.index("workflow.to_be_deleted.clear()")
    if ci < 1 or texts[ci - 1] != "await _prune_empty_dirs(dirs, reporter)":
        raise TranslatorError(f"{where}: the queue is not cleared right after the directories were pruned")
    after = body[ci + 1:]
    if requeues:
        if after != [loops[2]]:
            raise TranslatorError(f"{where}: statements after to_be_deleted.clear() not understood")
    elif after:
        raise TranslatorError(f"{where}: statements after to_be_deleted.clear(): {texts[ci + 1][:80]!r}")
    writes = [n for n in ast.walk(fn) if isinstance(n, ast.Subscript) and isinstance(n.ctx, ast.Store)
              and ast.unparse(n.value) == "workflow.to_be_deleted"]
    if len(writes) != (1 if requeues else 0):
        raise TranslatorError(f"{where}: unexpected assignment into workflow.to_be_deleted")
    # nothing else in the function removes anything
    nrem = sum(1 for n in ast.walk(fn) if isinstance(n, ast.Attribute) and n.attr in REMOVERS)
    if nrem != 1:
        raise TranslatorError(f"{where}: {nrem} removal primitives, expected exactly path.remove")
    prune_once = translate_prune(tree)
    fn = find_function(tree, "_try_remove")
    src = ast.unparse(fn)
    if not _has(src, "try:\n        remove()\n    except OSError:\n        return False\n    return True"):
        raise TranslatorError("_try_remove changed")
    if skips_linked:
        _check_has_linked_parent()
    return checked, decide_first, requeues, skips_linked, prune_once


def translate_clean(en):
    cl = importlib.import_module("stepup.core.clean")
    ws = lambda s: re.sub(r"\s+", " ", s).strip()
    m = re.fullmatch(r"SELECT label, file\.state, detached, hash FROM all_sink JOIN node ON node\.i = all_sink\.current "
                     r"JOIN file ON file\.node = all_sink\.current WHERE file\.state in \(([0-9, ]+)\)", ws(cl.SELECT_OUTPUTS))
    if not m:
        raise TranslatorError(f"clean.SELECT_OUTPUTS changed: {ws(cl.SELECT_OUTPUTS)}")
    states = [int(x) for x in m.group(1).replace(" ", "").split(",")]
    tree = parse_module(f"{CORE}/clean.py")
    src = ast.unparse(find_function(tree, "search_consuming_paths"))
    if not _has(src, "if detached_only:\n        select_outputs += ' AND detached'"):
        raise TranslatorError("clean.search_consuming_paths: detached-only suffix changed")
    if "INSERT INTO temp.initial_sink SELECT node.i FROM node WHERE node.label = ?" not in src:
        raise TranslatorError("clean.search_consuming_paths: initial sink selection changed")
    src = ast.unparse(find_function(tree, "clean"))
    frags = [
        "tr_consuming_paths = search_consuming_paths(con, tr_matching_paths, not args.all)",
        "tr_consuming_paths.sort(reverse=True)",
        "if args.safe and changed:",
        "if args.commit:\n                lo_consuming_path.remove_p()\n                parents.add(lo_consuming_path.parent)",
        "for parent in sorted(parents):",
        "if parent.is_dir() and str(parent) not in ('.', os.sep) and (not any(parent.iterdir())):",
        "if args.commit:\n                    parent.rmdir()\n                    parent = parent.parent",
    ]
    for f in frags:
        if not _has(src, f):
            raise TranslatorError(f"clean.clean: fragment missing: {f[:70]!r}")
    # the per-path decision: which test says "missing", and for which kinds (lstat) the hash is compared
    cfn = find_function(tree, "clean")
    assigns = {}
    for node in ast.walk(cfn):
        if isinstance(node, ast.Assign) and len(node.targets) == 1 and isinstance(node.targets[0], ast.Name) \
                and node.targets[0].id in ("missing", "changed", "still_there"):
            assigns.setdefault(node.targets[0].id, []).append(node.value)
    if len(assigns.get("missing", [])) != 1 or len(assigns.get("changed", [])) != 2:
        raise TranslatorError("clean.clean: assignments to missing / changed changed")
    mtxt = _ws(ast.unparse(assigns["missing"][0]))
    if mtxt == "not lo_consuming_path.exists()":
        missing_follows = True
    elif mtxt == "not os.path.lexists(lo_consuming_path)":   # (path.Path has no lexists method)
        missing_follows = False
    else:
        raise TranslatorError(f"clean.clean: test for a missing path not understood: {mtxt!r}")
    ch = [v for v in assigns["changed"] if not (isinstance(v, ast.Constant) and v.value is False)]
    if len(ch) != 1:
        raise TranslatorError("clean.clean: `changed` is not False when missing and one expression otherwise")
    clean_checked, clean_compared = _kind_conjuncts(
        ch[0], "lo_consuming_path", ["old_file_hash.refreshed(lo_consuming_path) != old_file_hash"], "clean.clean",
        state_var="state")
    clean_skips_linked = any(_is_linked_parent_guard(n, "lo_consuming_path") for n in ast.walk(cfn) if isinstance(n, ast.If))
    if clean_skips_linked:
        _check_has_linked_parent()
    if "has_linked_parent" in _names_in(cfn) and not clean_skips_linked:
        raise TranslatorError("clean.clean: use of has_linked_parent not understood")
    ws2 = ws(cl.SQL_MATCH_PATH)
    if ws2 != "SELECT label FROM node JOIN file ON node.i = file.node WHERE label = ? OR {clause}":
        raise TranslatorError("clean.SQL_MATCH_PATH changed")
    src = ast.unparse(find_function(tree, "add_clean_subcommand"))
    if "'--unsafe', action='store_false', default=True, dest='safe'" not in src:
        raise TranslatorError("clean: --unsafe option changed")
    if "'--commit', action='store_true', default=False" not in src or "'--all', action='store_true', default=False" not in src:
        raise TranslatorError("clean: --commit/--all options changed")
    return states, missing_follows, clean_checked, clean_skips_linked, clean_compared


# ---------------------------------------------------------------------------------------------
# removal sites and callers of the cleanup entry points
# ---------------------------------------------------------------------------------------------

REMOVERS = {"remove", "rmdir", "remove_p", "rmdir_p", "unlink", "rmtree", "rmtree_p", "removedirs",
            "removedirs_p", "unlink_p"}
KNOWN_REMOVAL_SITES = {
    "clean.py:clean:remove_p": "clean tool, selected outputs",
    "clean.py:clean:rmdir": "clean tool, empty parents",
    "finalize.py:remove_deletable_files:remove": "queued files",
    "finalize.py:_prune_empty_dirs:rmdir": "empty directories",
    "director.py:_run_tasks:remove_p": "director socket under .stepup",
    "reporter.py:ReporterHandler.report:remove_p": "fixed log files under .stepup (FAIL_LOG, WARNING_LOG, SUCCESS_LOG)",
    "tui.py:_reset_stepup_dir:remove_p": "*.log directly under .stepup",
    "api.py:loadns:remove": "sys.path list entry, not a file",
}
KNOWN_CLEANUP_CALLERS = {
    "builder.py:Builder.finalize:revert_optional_steps",
    "builder.py:Builder.finalize:delete_detached",
    "builder.py:Builder.finalize:remove_deletable_files",
    "workflow.py:Workflow.delete_detached:delete_detached",   # super().delete_detached()
    "finalize.py:remove_deletable_files:_prune_empty_dirs",
}


def scan_removal_sites():
    sites, callers = [], []
    for path in sorted((REPO / CORE).glob("*.py")):
        if path.name in ("pytest.py",):
            continue
        rel = f"{CORE}/{path.name}"
        tree = parse_module(rel)
        fns = list(functions_with_parents(tree))
        for qual, fn in fns:
            inner = [f2 for q2, f2 in fns if q2.startswith(qual + ".")]
            skip = {id(n) for f2 in inner for n in ast.walk(f2)}
            for node in ast.walk(fn):
                if id(node) in skip:
                    continue
                if isinstance(node, ast.Attribute) and node.attr in REMOVERS:
                    recv = ast.unparse(node.value)
                    if recv in ("os", "shutil") or True:
                        sites.append(f"{path.name}:{qual}:{node.attr}")
                if isinstance(node, ast.Call):
                    name = node.func.attr if isinstance(node.func, ast.Attribute) else getattr(node.func, "id", None)
                    if name in ("revert_optional_steps", "delete_detached", "remove_deletable_files", "_prune_empty_dirs"):
                        callers.append(f"{path.name}:{qual}:{name}")
                if isinstance(node, ast.Attribute) and node.attr == "to_be_deleted":
                    callers.append(f"{path.name}:{qual}:to_be_deleted")
    return sorted(set(sites)), sorted(set(callers))


KNOWN_TBD_USERS = {
    "file.py:File.before_delete:to_be_deleted",
    "finalize.py:remove_deletable_files:to_be_deleted",
    "finalize.py:revert_optional_steps:to_be_deleted",
    "workflow.py:Workflow.mark_dir_to_be_deleted:to_be_deleted",
}


def translate_delete_detached():
    """Pin the shape of Trellis.delete_detached and of the Workflow override (fragments)."""
    tree = parse_module(f"{CORE}/trellis.py")
    src = ast.unparse(find_function(tree, "delete_detached", cls="Trellis"))
    frags = [
        "creator_is = set()",
        "cleaned_some = True\nwhile cleaned_some:\n    cleaned_some = False",
        "'SELECT i, kind, label, creator FROM node WHERE detached AND NOT EXISTS (SELECT 1 FROM node AS cnode "
        "WHERE node.i = cnode.creator) AND NOT EXISTS (SELECT 1 FROM dependency WHERE node.i = dependency.source)'",
        "cleaned_some = True\nnode.del_all_sources()\nnode.before_delete()\n"
        "self.db.execute('DELETE FROM node where i = ?', (i,))\ncreator_is.discard(i)\n"
        "if creator_i is not None:\n    creator_is.add(creator_i)",
        "for creator_i in creator_is:",
        "if row is not None:\n    kind, label = row\n    self.node_from_row(creator_i, kind, label).after_lost_product()",
    ]
    for f in frags:
        if not _has(src, f):
            raise TranslatorError(f"Trellis.delete_detached: fragment missing: {f[:70]!r}")
    src = ast.unparse(find_function(tree, "del_all_sources", cls="Node"))
    if not _has(src, "self.db.execute('DELETE FROM dependency WHERE sink = ?', (self.i,))"):
        raise TranslatorError("Node.del_all_sources changed")
    tree = parse_module(f"{CORE}/workflow.py")
    fn = find_function(tree, "delete_detached", cls="Workflow")
    got = [_ws(ast.unparse(st)) for st in body_without_docstring(fn)]
    want = [_ws("for st in self.nodes(StaticTree):\n    files = sorted(st.products(), reverse=True, key=lambda node: node.path)\n"
                "    for file in files:\n        if not any(file.sinks()):\n            file.detach()"),
            "super().delete_detached()"]
    if got != want:
        raise TranslatorError(f"Workflow.delete_detached changed: {got}")
    got = [_ws(ast.unparse(st)) for st in body_without_docstring(find_function(tree, "mark_dir_to_be_deleted", cls="Workflow"))]
    plain = ["path = Path(path).normpath()", _ws("if path != '.':\n    self.to_be_deleted[path + os.sep] = None")]
    skipping = ["path = Path(path).normpath()",
                _ws("if path != '.' and self._find_owning_static_tree(path) is None:\n"
                    "    self.to_be_deleted[path + os.sep] = None")]
    skipping2 = ["path = Path(path).normpath()",
                 _ws("if path != '.' and self._find_owning_static_tree(path + os.sep) is None:\n"
                     "    self.to_be_deleted[path + os.sep] = None")]
    # _find_owning_static_tree either appends the separator itself or expects it from the caller
    src = ast.unparse(find_function(tree, "_find_owning_static_tree", cls="Workflow"))
    appends = _has(src, "path = Path(path) / ''")
    consts = [n.value for n in ast.walk(find_function(tree, "_find_owning_static_tree", cls="Workflow"))
              if isinstance(n, ast.Constant) and isinstance(n.value, str)]
    if "SELECT i, label FROM node WHERE kind = 'st' AND NOT detached AND label = substr(?, 1, length(label))" not in consts:
        raise TranslatorError("Workflow._find_owning_static_tree: query changed")
    if got == plain:
        return False
    if got == skipping and appends:
        return True
    if got == skipping2 and not appends:
        return True
    raise TranslatorError(f"Workflow.mark_dir_to_be_deleted changed: {got}")


def generate():
    en = _enums()
    skips_trees = translate_delete_detached()
    fs = en["fs"]
    guards, calls = translate_finalize(en)
    bd_vol, bd_hashed = translate_before_delete()
    keep_req, keep_old, keep_vol = translate_keep_rule()
    clr_new, clr_pair_new, clr_pair_old = translate_clear_hash(en)
    set_sites, sql_sites, declare_sites, create_sites = scan_state_writers(en)
    sql_kinds = classify_sql_sites(sql_sites)
    table = translate_hash_transitions()
    r_need, r_from, r_to, r_exempt, r_step_to = translate_revert(en)
    rdf_checked, rdf_decide_first, rdf_requeues, rdf_skips_linked, prune_once = translate_remove(en)
    clean_states, clean_missing_follows, clean_checked, clean_skips_linked, clean_compared = translate_clean(en)
    sites, callers = scan_removal_sites()
    unknown = [s for s in sites if s not in KNOWN_REMOVAL_SITES]
    if unknown:
        raise TranslatorError(f"new file-removal call site(s) in stepup/core: {unknown}")
    tbd_users = {c for c in callers if c.endswith(":to_be_deleted")}
    if tbd_users != KNOWN_TBD_USERS:
        raise TranslatorError(f"users of Workflow.to_be_deleted changed: {sorted(tbd_users ^ KNOWN_TBD_USERS)}")
    cl = {c for c in callers if not c.endswith(":to_be_deleted")}
    if cl != KNOWN_CLEANUP_CALLERS:
        raise TranslatorError(f"callers of the cleanup entry points changed: {sorted(cl ^ KNOWN_CLEANUP_CALLERS)}")
    # declaration sites: output-role states only from define_step / amend_step with creator `step`
    out_role = {"PLANNED", "VOLATILE"}
    for site, creator, st in declare_sites:
        if st in out_role and not (creator == "step" and site in ("workflow.py:Workflow.define_step",
                                                                    "workflow.py:Workflow.amend_step")):
            raise TranslatorError(f"output-role declaration outside define_step/amend_step: {site} {creator} {st}")
        if st not in out_role and st != "UNCONFIRMED":
            raise TranslatorError(f"_declare_file with unexpected state {st} at {site}")
    for site, label, states in create_sites:
        if site.endswith("_declare_file"):
            if states != ["<param>"]:
                raise TranslatorError("_declare_file no longer forwards its file_state parameter")
        else:
            for st in states:
                if st not in ("UNCONFIRMED", "UNDECLARED"):
                    raise TranslatorError(f"create(File) with state {st} outside _declare_file at {site}")
    # _declare_file admits exactly UNCONFIRMED / PLANNED / VOLATILE (checked dynamically by the oracle too)

    N = lambda xs: "[" + "; ".join(str(x) for x in xs) + "]%N"
    S = lambda names: N([fs[n] for n in names])
    lines = [
        "(* GENERATED by translator/gen_clean.py from the repository -- do not edit *)",
        "From Coq Require Import List NArith Bool.",
        "From SV Require Import lib.Bytes.",
        "Import ListNotations.",
        "Open Scope N_scope.",
        "",
        "(* enums.py *)",
    ]
    for name, val in fs.items():
        lines.append(f"Definition FS_{name} : N := {val}.")
    lines += [
        f"Definition static_states : list N := {N(en['roles']['STATIC'])}.",
        f"Definition output_states : list N := {N(en['roles']['OUTPUT'])}.",
        f"Definition volatile_states : list N := {N(en['roles']['VOLATILE'])}.",
        f"Definition NEED_OPTIONAL : N := {en['need_optional']}.",
        f"Definition SS_PENDING : N := {en['ss_pending']}.",
        f"Definition RC_WARNING : N := {en['rc_warning']}.",
        "",
        "(* builder.py Builder.finalize: the if/elif chain in source order, then the else branch *)",
        "Inductive guard := GTargets | GRcMasked (mask : N) | GNoClean.",
        "Inductive cleanup_call := CRevert | CDeleteDetached | CRemoveFiles.",
        f"Definition finalize_guards : list guard := [{'; '.join(guards)}].",
        f"Definition finalize_cleanup_calls : list cleanup_call := [{'; '.join(calls)}].",
        "",
        "(* workflow.py Workflow.mark_dir_to_be_deleted: directories owned by an attached static tree are skipped? *)",
        f"Definition mark_dir_skips_static_trees : bool := {'true' if skips_trees else 'false'}.",
        "",
        "(* file.py File.before_delete *)",
        f"Definition bd_volatile_states : list N := {S(bd_vol)}.",
        f"Definition bd_hashed_states : list N := {S(bd_hashed)}.",
        "",
        "(* file.py trigger file_clear_hash: WHEN (NEW.state IN a OR (NEW.state IN b AND OLD.state IN c)) AND NEW.hash IS NOT NULL *)",
        f"Definition clear_new_states : list N := {N(clr_new)}.",
        f"Definition clear_pair_new : list N := {N(clr_pair_new)}.",
        f"Definition clear_pair_old : list N := {N(clr_pair_old)}.",
        "",
        "(* file.py File.initialize_row: requested in keep_requested over an old row in keep_old keeps the old state *)",
        f"Definition keep_requested : list N := {S(keep_req)}.",
        f"Definition keep_old : list N := {S(keep_old)}.",
        "(* second arm: UNDECLARED requested over a VOLATILE row keeps VOLATILE? *)",
        f"Definition keep_volatile_on_supply : bool := {'true' if keep_vol else 'false'}.",
        "",
        "(* workflow.py _HASH_TRANSITIONS: ((cause, old_state, hash_known), new_state) *)",
        "Definition hash_transitions : list ((N * N * bool) * N) := [",
        ";\n".join(f"  (({c}, {o}, {'true' if k else 'false'}), {n})" for c, o, k, n in table),
        "]%N.",
        "",
        "(* guarded File.set_state(FileState.X) sites: (state required by the enclosing if, state written) *)",
        "Definition set_state_sites : list (N * N) := [",
        ";\n".join(f"  ({fs[f]}, {fs[t]}) (* {site} *)" for site, f, t in set_sites),
        "]%N.",
        "",
        "(* states requested through _declare_file (creator expression, state) and create(File) *)",
        "Definition declare_states : list N := " + N(sorted({fs[st] for _, _, st in declare_sites})) + ".",
        "Definition supply_states : list N := " + N(sorted({fs[s] for site, _, sts in create_sites for s in sts if s != '<param>'})) + ".",
        "",
        "(* finalize.py revert_optional_steps *)",
        f"Definition revert_need : N := {r_need}.",
        f"Definition revert_from : list N := {N(r_from)}.",
        f"Definition revert_to : N := {r_to}.",
        f"Definition revert_exempt : N := {r_exempt}.",
        f"Definition revert_step_to : N := {r_step_to}.",
        "",
        "(* clean.py SELECT_OUTPUTS; `not args.all` appends AND detached *)",
        f"Definition clean_select_states : list N := {N(clean_states)}.",
        "",
        "(* what lstat reports for a path *)",
        "Inductive fkind := KRegular | KSymlink | KDirectory | KMissing.",
        "(* finalize.py remove_deletable_files: for which kinds of a queued path the recorded hash is compared before",
        "   the removal (the `if` in front of `old_hash.refreshed(path) != old_hash`, read from the AST) *)",
        "Definition rdf_hash_checked (k : fkind) : bool :=",
        "  match k with " + " | ".join(f"{k} => {'true' if rdf_checked[k] else 'false'}" for k in FKINDS) + " end.",
        "(* are all decisions taken before the first removal (two loops) or one path at a time (one loop)? *)",
        f"Definition rdf_decide_first : bool := {'true' if rdf_decide_first else 'false'}.",
        "(* does anything survive in Workflow.to_be_deleted when the function returns?  false: the queue is cleared last;",
        "   true: paths whose removal failed but which still exist are put back after the clear(), with their directories *)",
        f"Definition rdf_requeues_failed : bool := {'true' if rdf_requeues else 'false'}.",
        "(* finalize.py _prune_empty_dirs: is a path on the stack examined at most once (a `seen` set)?  false: the parent",
        "   pushed after a removed child is examined again, however often it was seen before *)",
        f"Definition prune_visits_once : bool := {'true' if prune_once else 'false'}.",
        "(* is a queued / selected path below a directory that is a symbolic link left alone (has_linked_parent guard)? *)",
        f"Definition rdf_skips_linked_parents : bool := {'true' if rdf_skips_linked else 'false'}.",
        f"Definition clean_skips_linked_parents : bool := {'true' if clean_skips_linked else 'false'}.",
        "(* clean.py clean: `missing` follows symbolic links (exists) or not (lexists); kinds for which the hash is compared *)",
        f"Definition clean_missing_follows_links : bool := {'true' if clean_missing_follows else 'false'}.",
        "(* file states for which `changed` compares the hash at all (the state conjuncts of `changed`, evaluated) *)",
        f"Definition clean_compared_states : list N := {S(clean_compared)}.",
        "Definition clean_hash_checked (k : fkind) : bool :=",
        "  match k with " + " | ".join(f"{k} => {'true' if clean_checked[k] else 'false'}" for k in FKINDS) + " end.",
        "",
        "(* file-removal call sites found in stepup/core (all recognised): *)",
    ]
    for s in sites:
        lines.append(f"(*   {s}: {KNOWN_REMOVAL_SITES[s]} *)")
    lines.append(f"Definition removal_site_count : N := {len(sites)}.")
    lines.append("")
    facts = {"guards": guards, "calls": calls, "set_sites": set_sites, "sql_writers": sql_kinds,
             "declare_sites": declare_sites, "create_sites": create_sites, "removal_sites": sites,
             "callers": sorted(cl), "fs": fs,
             "mark_dir_skips_static_trees": skips_trees, "keep_volatile_on_supply": keep_vol,
             "rdf_hash_checked": rdf_checked, "rdf_decide_first": rdf_decide_first, "rdf_requeues_failed": rdf_requeues, "prune_visits_once": prune_once, "rdf_skips_linked_parents": rdf_skips_linked,
             "clean_skips_linked_parents": clean_skips_linked,
             "clean_missing_follows_links": clean_missing_follows, "clean_hash_checked": clean_checked}
    return "\n".join(lines), facts
