"""Translator for C14: regenerates coq/gen/GenWatch.v from the working tree of the repo.

Generated (definitions only):
* `fstate`, `cause`, `action` inductives with the enum members of FileState / HashUpdateCause and the
  action tags of `_HASH_TRANSITIONS`; `hash_transitions` as an association list (every key of the
  dict, nothing else); `relevant_states`, `relevant_states_during_build`;
* `rescan_excluded_states` and the cause rule of `startup.rescan_files`, the apply rule of
  `Executor._run_hash_job`;
* the inotify mask bits used by `change_loop` (values read from asyncinotify.Mask) and the set of
  bits classified as DELETED;
* the shape flag `isdir_emits_self` read from the AST (does the ISDIR branch of `change_loop` also queue
  the directory itself, with a trailing separator);
* `Watcher.run_once` translated statement by statement (`_run_once_program`): `drain_during_build`,
  `loop_during_build`, `commit_program` (and `commit_attached_only`, the filter of its CReadOld).
Fail closed: every function whose behaviour is hand-modelled in coq/model/Watch.v is fingerprinted
(normalised AST without docstrings); an unknown fingerprint raises TranslatorError naming the function.
"""
from __future__ import annotations

import ast
import hashlib
import importlib
import re
import sys

from .astutil import REPO, TranslatorError, body_without_docstring, find_function, parse_module


def _fp(fn) -> str:
    clone = ast.Module(body=body_without_docstring(fn), type_ignores=[])
    return hashlib.sha256(ast.dump(clone, annotate_fields=True, include_attributes=False).encode()).hexdigest()[:16]


# function -> {fingerprint: tag}.  Tags select the model variant; "base" is the only variant for most.
KNOWN_SHAPES = {
    ("stepup/core/watcher.py", "AsyncInotifyWrapper", "change_loop"): {},
    ("stepup/core/workflow.py", "Workflow", "change_is_relevant"): {},
    ("stepup/core/workflow.py", "Workflow", "relevant_paths_under"): {},
    ("stepup/core/workflow.py", "Workflow", "get_file_hashes"): {},
    ("stepup/core/workflow.py", "Workflow", "persist_nglob_matches"): {},
    ("stepup/core/workflow.py", None, "_relevant_states"): {},
    ("stepup/core/startup.py", None, "resume_from_db"): {},
    ("stepup/core/startup.py", None, "reset_interrupted_steps"): {},
    ("stepup/core/startup.py", None, "rescan_files"): {},
    ("stepup/core/startup.py", None, "rescan_nglobs"): {},
    ("stepup/core/director.py", "DirectorHandler", "start_build_phase"): {},
    ("stepup/core/executor.py", "Executor", "_run_hash_job"): {},
}

# filled from FINGERPRINTS below (kept separate so that `python -m translator.gen_watch --print`
# can regenerate the table after a reviewed change of the repo)
FINGERPRINTS = {
    # Watcher.run_once is not fingerprinted: its body is translated statement by statement
    # (_run_once_program below).  Watcher.record_change, Workflow.process_nglob_changes, NamedGlob.will_change /
    # extend / reduce are not fingerprinted either: harness/p_c14.generate regenerates the statement-level
    # translations C17 maintains (gen_nglob_batch.py, gen_nglob_code.py) and proofs/WatchTie.v proves C14's
    # model equal to them through C17's tie files.
    # first shape: rm_watch wrapped in contextlib.suppress(OSError) (fix of D54: the kernel may already have dropped
    # the watch; the model treats the call as a no-op on the kernel side either way); second: the shape before it
    # (with log-only statements dropped); later entries: older reviewed shapes
    "stepup/core/watcher.py:AsyncInotifyWrapper.change_loop": ("bb21e8bfe43b5ff1", "1db8fefdf05cafae", "e1d6cde9fd574e23", "db0649bb364119ee"),  # first: with log-only statements dropped (astutil._DropLogging)
    # AsyncInotifyWrapper.dir_loop is not fingerprinted: translated statement by statement (_dir_loop_program)
    "stepup/core/workflow.py:Workflow.change_is_relevant": ("7296039b3c9fd378",),
    "stepup/core/workflow.py:Workflow.relevant_paths_under": ("5b3d4e5ed6bc08c7",),
    "stepup/core/workflow.py:Workflow.get_file_hashes": ("52974d48de67df62",),
    "stepup/core/workflow.py:Workflow.persist_nglob_matches": ("9194b56c3f705a07",),
    "stepup/core/workflow.py:_relevant_states": ("9facbae08f0b1697",),
    "stepup/core/startup.py:resume_from_db": ("6ad066191b0d5512", "f73937e0ee9e422b",),  # first: with log-only statements dropped (astutil._DropLogging)
    "stepup/core/startup.py:reset_interrupted_steps": ("ed62a94f9b3c60bd",),
    "stepup/core/startup.py:rescan_files": ("a64cd5905d5443f5",),
    "stepup/core/startup.py:rescan_nglobs": ("447d45a8dbb23181",),
    "stepup/core/director.py:DirectorHandler.start_build_phase": ("818b7ed37736663a",),
    # second shape: the result is applied only `if not self._is_stale_confirmation(hash_job)` (fix D17)
    "stepup/core/executor.py:Executor._run_hash_job": ("d18aa73b3fe5cff5", "1c00d122f33c1535"),
}


def _import_repo(name):
    if str(REPO) not in sys.path:
        sys.path.insert(0, str(REPO))
    try:
        return importlib.import_module(name)
    except Exception as e:  # noqa: BLE001
        raise TranslatorError(f"cannot import {name}: {type(e).__name__}: {e}") from e


def fingerprints():
    out = {}
    trees = {}
    for (rel, cls, fn) in KNOWN_SHAPES:
        if rel not in trees:
            trees[rel] = parse_module(rel)
        node = find_function(trees[rel], fn, cls)
        out[f"{rel}:{cls + '.' if cls else ''}{fn}"] = _fp(node)
    return out


def _mask_names(expr) -> list[str]:
    """Names in an expression of the form Mask.A | Mask.B | ..."""
    if isinstance(expr, ast.BinOp) and isinstance(expr.op, ast.BitOr):
        return _mask_names(expr.left) + _mask_names(expr.right)
    if isinstance(expr, ast.Attribute) and isinstance(expr.value, ast.Name) and expr.value.id == "Mask":
        return [expr.attr]
    raise TranslatorError(f"unrecognised mask expression: {ast.dump(expr)}")


def _change_loop_facts(tree):
    fn = find_function(tree, "change_loop", "AsyncInotifyWrapper")
    loop = [n for n in body_without_docstring(fn) if isinstance(n, ast.AsyncFor)]
    if len(loop) != 1:
        raise TranslatorError("change_loop: expected exactly one async for loop")
    facts = {}
    # (1) `if event.mask & Mask.IGNORED:` ... continue
    # (2) change = (Change.DELETED if event.mask & (<masks>) else Change.UPDATED)
    # (3) `if event.mask & Mask.ISDIR:` with `if change == Change.DELETED:` inside
    for node in ast.walk(loop[0]):
        if isinstance(node, ast.Assign) and isinstance(node.value, ast.IfExp):
            t = node.value
            if (isinstance(t.body, ast.Attribute) and t.body.attr == "DELETED"
                    and isinstance(t.orelse, ast.Attribute) and t.orelse.attr == "UPDATED"
                    and isinstance(t.test, ast.BinOp) and isinstance(t.test.op, ast.BitAnd)):
                facts["deleted_masks"] = _mask_names(t.test.right)
    if "deleted_masks" not in facts:
        raise TranslatorError("change_loop: classification expression not recognised")
    isdir_if = None
    for node in ast.walk(loop[0]):
        if isinstance(node, ast.If) and isinstance(node.test, ast.BinOp) and isinstance(node.test.op, ast.BitAnd) \
                and isinstance(node.test.right, ast.Attribute) and node.test.right.attr == "ISDIR":
            isdir_if = node
    if isdir_if is None:
        raise TranslatorError("change_loop: ISDIR branch not found")
    # non-directory events: exactly one put_nowait((change, path))
    if not (len(isdir_if.orelse) == 1 and "put_nowait" in ast.dump(isdir_if.orelse[0])):
        raise TranslatorError("change_loop: non-directory branch not recognised")
    inner = [n for n in isdir_if.body if isinstance(n, ast.If)]
    if len(inner) != 1:
        raise TranslatorError("change_loop: ISDIR branch shape not recognised")
    del_branch, cre_branch = inner[0].body, inner[0].orelse

    def puts(stmts):
        """(change name, path expression dump, inside an iterdir loop?) for every put_nowait."""
        found = []

        def rec(node, in_iterdir):
            for child in ast.iter_child_nodes(node):
                here = in_iterdir
                if isinstance(child, ast.For) and "iterdir" in ast.dump(child.iter):
                    here = True
                if isinstance(child, ast.Call) and isinstance(child.func, ast.Attribute) and child.func.attr == "put_nowait":
                    arg = child.args[0]
                    if not (isinstance(arg, ast.Tuple) and len(arg.elts) == 2 and isinstance(arg.elts[0], ast.Attribute)):
                        raise TranslatorError("change_loop: put_nowait argument not recognised")
                    found.append((arg.elts[0].attr, ast.unparse(arg.elts[1]), here))
                rec(child, here)
        for s in stmts:
            rec(ast.Module(body=[s], type_ignores=[]), False)
        return found

    pd, pc = puts(del_branch), puts(cre_branch)
    base_d = [("DELETED_PARENT", "path", False)]
    base_c = [("UPDATED", "sub_path", True)]
    self_d = ("DELETED", "path / ''", False)
    self_c = ("UPDATED", "path / ''", False)
    if pd == base_d and pc == base_c:
        facts["isdir_emits_self"] = False
    elif sorted(pd) == sorted(base_d + [self_d]) and sorted(pc) == sorted(base_c + [self_c]):
        facts["isdir_emits_self"] = True
    else:
        raise TranslatorError(f"change_loop: ISDIR branch queues {pd} / {pc}, not a recognised shape")
    return facts


_READ_OLD = {
    "old_hashes = self.workflow.get_file_hashes(self.updated | self.deleted)": False,
    "old_hashes = self.workflow.get_file_hashes((path for path in self.updated | self.deleted "
    "if self.workflow.find_attached(File, path) is not None))": True,
}
_REHASH = ("new_hashes = await gather_hashes(self.hash_queue, self.executor, self.reporter, "
           "[(path, old_hash, HashUpdateCause.EXTERNAL) for path, old_hash in old_hashes.items()], self.njob)")
_SETS = {"self.updated": "SetU", "self.deleted": "SetD"}


def _during_build(call_src: str, what: str) -> bool:
    """`await self.record_change(change, path[, during_build=<bool>])` -> the flag."""
    m = re.fullmatch(r"await self\.record_change\(change, path(?:, during_build=(True|False))?\)", call_src)
    if m is None:
        raise TranslatorError(f"run_once: {what}: record_change call not recognised: {call_src}")
    return m.group(1) == "True"


def _translate_commit_stmt(st) -> tuple:
    """One statement inside a transaction of the commit part of run_once -> a token of the model."""
    src = ast.unparse(st)
    if src in _READ_OLD:
        return ("read_old", _READ_OLD[src])
    if isinstance(st, ast.For):
        # for path, new_file_hash in new_hashes.items():
        #     if new_file_hash == old_hashes[path]:
        #         await self.reporter('UNCHANGED', path)
        #         self.<set>.discard(path) ...
        if not (ast.unparse(st.target) == "(path, new_file_hash)" and ast.unparse(st.iter) == "new_hashes.items()"
                and not st.orelse and len(st.body) == 1 and isinstance(st.body[0], ast.If)):
            raise TranslatorError(f"run_once: loop over the new hashes not recognised: {src}")
        cond = st.body[0]
        if ast.unparse(cond.test) != "new_file_hash == old_hashes[path]" or cond.orelse:
            raise TranslatorError(f"run_once: pruning condition not recognised: {ast.unparse(cond.test)}")
        sets = []
        for k, inner in enumerate(cond.body):
            isrc = ast.unparse(inner)
            if k == 0 and isrc == "await self.reporter('UNCHANGED', path)":
                continue
            m = re.fullmatch(r"(self\.updated|self\.deleted)\.discard\(path\)", isrc)
            if m is None:
                raise TranslatorError(f"run_once: statement in the pruning branch not recognised: {isrc}")
            sets.append(_SETS[m.group(1)])
        return ("prune", "SetU" in sets, "SetD" in sets)
    m = re.fullmatch(r"self\.workflow\.process_nglob_changes\((self\.updated|self\.deleted), (self\.updated|self\.deleted)\)", src)
    if m is not None:
        return ("nglob", _SETS[m.group(1)], _SETS[m.group(2)])
    raise TranslatorError(f"run_once: statement of the commit not recognised: {src}")


def _run_once_program(tree):
    """Statement-level translation of Watcher.run_once into the vocabulary of model/Watch.v.

    Every statement of the body must be recognised (fail closed).  The bookkeeping of the four phase
    events and the reporter call must be exactly the known protocol; the recording loops give the two
    during_build flags; the statements between `busy_watching.clear()` and the clearing of the two sets
    become `commit_program` (which sets are read, re-hashed with which cause, pruned under which
    condition, handed to process_nglob_changes in which order, and in which order all of that happens)."""
    fn = find_function(tree, "run_once", "Watcher")
    if not isinstance(fn, ast.AsyncFunctionDef) or ast.unparse(fn.args) != "self, change_queue: asyncio.Queue[tuple[Change, Path]]":
        raise TranslatorError("run_once: signature not recognised")
    body = body_without_docstring(fn)
    srcs = [ast.unparse(st) for st in body]

    def expect(i, text):
        if i >= len(srcs) or srcs[i] != text:
            raise TranslatorError(f"run_once: statement {i}: expected `{text}`, found `{srcs[i] if i < len(srcs) else '<end>'}`")
    expect(0, "self.done_watching.clear()")
    expect(1, "await self.reporter('PHASE', 'watch')")
    # drain of the items queued while the build phase ran
    st = body[2] if len(body) > 2 else None
    if not (isinstance(st, ast.AsyncWith) and ast.unparse(st.items[0]) == "self.db" and len(st.items) == 1
            and len(st.body) == 1 and isinstance(st.body[0], ast.While)
            and ast.unparse(st.body[0].test) == "not change_queue.empty()" and not st.body[0].orelse
            and len(st.body[0].body) == 2
            and ast.unparse(st.body[0].body[0]) == "change, path = change_queue.get_nowait()"):
        raise TranslatorError("run_once: drain of the change queue not recognised")
    drain_flag = _during_build(ast.unparse(st.body[0].body[1]), "drain loop")
    expect(3, "self.busy_watching.set()")
    st = body[4] if len(body) > 4 else None
    if not (isinstance(st, ast.AsyncFor) and ast.unparse(st.target) == "(change, path)"
            and ast.unparse(st.iter) == "iter_until_stopped(change_queue.get, self.end_watching)"
            and not st.orelse and len(st.body) == 1 and isinstance(st.body[0], ast.AsyncWith)
            and len(st.body[0].items) == 1 and ast.unparse(st.body[0].items[0]) == "self.db"
            and len(st.body[0].body) == 1):
        raise TranslatorError("run_once: watch loop not recognised")
    loop_flag = _during_build(ast.unparse(st.body[0].body[0]), "watch loop")
    expect(5, "self.busy_watching.clear()")
    # the commit: up to the statements that clear the sets
    tail = ["for event in self.files_changed_events:\n    event.clear()", "self.end_watching.clear()",
            "self.done_watching.set()"]
    if srcs[-3:] != tail:
        raise TranslatorError(f"run_once: end of the phase not recognised: {srcs[-3:]!r}")
    if sorted(srcs[-5:-3]) != ["self.deleted.clear()", "self.updated.clear()"]:
        raise TranslatorError(f"run_once: clearing of the two sets not recognised: {srcs[-5:-3]!r}")
    prog = []
    for st in body[6:-5]:
        if isinstance(st, ast.AsyncWith):
            if not (len(st.items) == 1 and ast.unparse(st.items[0]) == "self.db"):
                raise TranslatorError(f"run_once: context manager not recognised: {ast.unparse(st.items[0])}")
            for inner in st.body:
                prog.append(_translate_commit_stmt(inner))
        elif ast.unparse(st) == _REHASH:
            prog.append(("rehash",))
        else:
            raise TranslatorError(f"run_once: statement of the commit not recognised: {ast.unparse(st)}")
    kinds = [t[0] for t in prog]
    # the data flow the model's interpreter assumes: one read of the old hashes, one re-hash after it,
    # pruning only after the re-hash (otherwise the coroutine would raise NameError: not a shape to model)
    if kinds.count("read_old") != 1 or kinds.count("rehash") != 1 or kinds.index("read_old") > kinds.index("rehash") \
            or any(k == "prune" and i < kinds.index("rehash") for i, k in enumerate(kinds)):
        raise TranslatorError(f"run_once: order of the commit statements not recognised: {kinds}")
    coq = []
    for t in prog:
        if t[0] == "read_old":
            coq.append(f"CReadOld {'true' if t[1] else 'false'}")
        elif t[0] == "rehash":
            coq.append("CRehash")
        elif t[0] == "prune":
            coq.append(f"CPrune {'true' if t[1] else 'false'} {'true' if t[2] else 'false'}")
        else:
            coq.append(f"CNglob {t[1]} {t[2]}")
    coq.append("CClear")
    ao = [t[1] for t in prog if t[0] == "read_old"][0]
    return {"commit_attached_only": ao, "commit_program": coq, "commit_tokens": [list(t) for t in prog],
            "drain_during_build": drain_flag, "loop_during_build": loop_flag}


_INSTALL_UP = ("while path.name != '..':\n    if path == '':\n        path = Path('.')\n    if self.watches.get(path) is not None:\n"
               "        break\n    self._install_watch(path)\n    if path == '.':\n        break\n    path = path.parent")
_CLIMB_TEST = "not (path.is_dir() or path.name == '..' or path in ('', '.'))"


def _dir_loop_program(tree):
    """Statement-level translation of AsyncInotifyWrapper.dir_loop (the body of its `async for`) into the
    vocabulary of model/WatchSet.v exec_dstmt: which directories are recorded as pending watches while climbing
    from a requested, missing directory to its nearest existing ancestor (DClimb record), whether the requested
    directory itself is recorded afterwards (DPendRequested), and the upward installation of watches
    (DInstallUp).  Fail closed on anything else."""
    fn = find_function(tree, "dir_loop", "AsyncInotifyWrapper")
    body = body_without_docstring(fn)
    if not (len(body) == 1 and isinstance(body[0], ast.AsyncFor) and ast.unparse(body[0].target) == "path"
            and ast.unparse(body[0].iter) == "iter_until_stopped(self.dir_queue.get, self.stop_event)" and not body[0].orelse):
        raise TranslatorError("dir_loop: outer loop not recognised")
    stmts = body[0].body
    if not stmts or ast.unparse(stmts[0]) != "path = Path(path).normpath()":
        raise TranslatorError("dir_loop: normalisation of the requested path not recognised")
    prog, saved = [], None
    for st in stmts[1:]:
        src = ast.unparse(st)
        m = re.fullmatch(r"([a-z_]+) = path", src)
        if m and saved is None and not prog:
            saved = m.group(1)          # the requested directory is remembered under this name
            continue
        if isinstance(st, ast.While) and ast.unparse(st.test) == _CLIMB_TEST and not st.orelse:
            inner = [ast.unparse(x) for x in st.body]
            if inner == ["self.watches.setdefault(path, None)", "path = path.parent"]:
                prog.append("DClimb true")
            elif inner == ["path = path.parent"]:
                prog.append("DClimb false")
            else:
                raise TranslatorError(f"dir_loop: body of the climbing loop not recognised: {inner!r}")
            continue
        if saved is not None and src == f"if path != {saved}:\n    self.watches.setdefault({saved}, None)":
            prog.append("DPendRequested")
            continue
        if src == _INSTALL_UP:
            prog.append("DInstallUp")
            continue
        raise TranslatorError(f"dir_loop: statement not recognised: {src}")
    if [x.split()[0] for x in prog].count("DClimb") != 1 or prog[-1] != "DInstallUp" or prog.count("DInstallUp") != 1 \
            or prog[0].split()[0] != "DClimb":
        raise TranslatorError(f"dir_loop: order of the statements not recognised: {prog}")
    return {"dir_loop_program": prog}


def _rescan_files_facts(tree):
    fn = find_function(tree, "rescan_files")
    src = ast.unparse(fn)
    if "state NOT IN (?, ?) AND NOT detached" not in src:
        raise TranslatorError("rescan_files: selection SQL not recognised")
    data = None
    for node in ast.walk(fn):
        if isinstance(node, ast.Assign) and len(node.targets) == 1 and isinstance(node.targets[0], ast.Name) \
                and node.targets[0].id == "data" and isinstance(node.value, ast.Tuple):
            data = []
            for e in node.value.elts:
                u = ast.unparse(e)
                if not (u.startswith("FileState.") and u.endswith(".value")):
                    raise TranslatorError(f"rescan_files: excluded state not recognised: {u}")
                data.append(u.split(".")[1])
    if data is None:
        raise TranslatorError("rescan_files: excluded states not found")
    want = "HashUpdateCause.CONFIRMED if FileState(state) == FileState.UNCONFIRMED else HashUpdateCause.EXTERNAL"
    if want not in src:
        raise TranslatorError("rescan_files: cause rule not recognised")
    return {"rescan_excluded": data}


def _hash_job_facts(tree):
    fn = find_function(tree, "_run_hash_job", "Executor")
    src = ast.unparse(fn)
    want = "if new_hash != hash_job.old_hash or hash_job.cause == HashUpdateCause.CONFIRMED:"
    if want not in src:
        raise TranslatorError("_run_hash_job: apply rule not recognised")
    updates = [n for n in ast.walk(fn) if isinstance(n, ast.Call) and isinstance(n.func, ast.Attribute)
               and n.func.attr == "update_file_hashes"]
    if len(updates) != 1:
        raise TranslatorError("_run_hash_job: expected exactly one update_file_hashes call")
    guarded = "if not self._is_stale_confirmation(hash_job):" in src
    if not guarded:
        if "_is_stale_confirmation" in src:
            raise TranslatorError("_run_hash_job: use of _is_stale_confirmation not recognised")
        return {"stale_guard": False, "confirmation_states": []}
    # the guard must be the statement that directly contains the update
    ok = False
    for node in ast.walk(fn):
        if isinstance(node, ast.If) and ast.unparse(node.test) == "not self._is_stale_confirmation(hash_job)":
            ok = (len(node.body) == 1 and not node.orelse and "update_file_hashes" in ast.unparse(node.body[0]))
    if not ok:
        raise TranslatorError("_run_hash_job: guard around update_file_hashes not recognised")
    helper = find_function(tree, "_is_stale_confirmation", "Executor")
    body = body_without_docstring(helper)
    # if cause != CONFIRMED: return False ; file = find(File, path) ; if file is None: return True ;
    # return file.get_state() not in (<states>)
    shape = [ast.unparse(b) for b in body]
    if len(shape) != 4 or shape[0] != "if hash_job.cause != HashUpdateCause.CONFIRMED:\n    return False" \
            or shape[1] != "file = self.workflow.find(File, hash_job.path)" \
            or shape[2] != "if file is None:\n    return True":
        raise TranslatorError(f"_is_stale_confirmation: body not recognised: {shape!r}")
    ret = body[3]
    if not (isinstance(ret, ast.Return) and isinstance(ret.value, ast.Compare) and len(ret.value.ops) == 1
            and isinstance(ret.value.ops[0], ast.NotIn) and ast.unparse(ret.value.left) == "file.get_state()"
            and isinstance(ret.value.comparators[0], ast.Tuple)):
        raise TranslatorError("_is_stale_confirmation: return expression not recognised")
    states = []
    for e in ret.value.comparators[0].elts:
        u = ast.unparse(e)
        if not u.startswith("FileState."):
            raise TranslatorError(f"_is_stale_confirmation: state not recognised: {u}")
        states.append(u.split(".")[1])
    return {"stale_guard": True, "confirmation_states": states}


def generate(check_fingerprints=True):
    facts = {}
    fps = fingerprints()
    facts["fingerprints"] = fps
    w_tree = parse_module("stepup/core/watcher.py")
    facts.update(_change_loop_facts(w_tree))
    facts.update(_run_once_program(w_tree))
    facts.update(_dir_loop_program(w_tree))
    facts.update(_rescan_files_facts(parse_module("stepup/core/startup.py")))
    facts.update(_hash_job_facts(parse_module("stepup/core/executor.py")))
    if check_fingerprints:
        for key, fp in fps.items():
            ok = FINGERPRINTS.get(key, ())
            if fp not in ok:
                raise TranslatorError(f"{key}: source shape {fp} is not one the C14 model was written against")

    enums = _import_repo("stepup.core.enums")
    wfmod = _import_repo("stepup.core.workflow")
    try:
        from asyncinotify import Mask
    except Exception as e:  # noqa: BLE001
        raise TranslatorError(f"cannot import asyncinotify: {e}") from e

    fstates = list(enums.FileState)
    causes = list(enums.HashUpdateCause)
    table = wfmod._HASH_TRANSITIONS
    actions = {"updated": "AUpdated", "deleted": "ADeleted", "completed": "ACompleted"}
    rows = []
    for (cause, st, known), (new, act) in table.items():
        if not isinstance(cause, enums.HashUpdateCause) or not isinstance(st, enums.FileState) \
                or not isinstance(known, bool) or not isinstance(new, enums.FileState):
            raise TranslatorError(f"_HASH_TRANSITIONS: unrecognised entry {(cause, st, known)!r}")
        if act is not None and act not in actions:
            raise TranslatorError(f"_HASH_TRANSITIONS: unknown action {act!r}")
        a = "None" if act is None else f"(Some {actions[act]})"
        rows.append(f"  ((HC_{cause.name}, FS_{st.name}, {'true' if known else 'false'}), (FS_{new.name}, {a}))")
    rel = sorted(wfmod._RELEVANT_STATES, key=lambda s: s.value)
    rel_b = sorted(wfmod._RELEVANT_STATES_DURING_BUILD, key=lambda s: s.value)
    for s in list(rel) + list(rel_b):
        if not isinstance(s, enums.FileState):
            raise TranslatorError("_RELEVANT_STATES*: not a set of FileState")
    if wfmod._relevant_states(True) != wfmod._RELEVANT_STATES_DURING_BUILD \
            or wfmod._relevant_states(False) != wfmod._RELEVANT_STATES:
        raise TranslatorError("_relevant_states does not select the two sets as modelled")
    facts["relevant"] = [s.name for s in rel]
    facts["relevant_during_build"] = [s.name for s in rel_b]
    facts["transitions"] = len(rows)
    change = enums.Change

    def ctor_list(prefix, members):
        return " | ".join(f"{prefix}{m.name}" for m in members)

    def eqb(name, prefix, members):
        lines = [f"Definition {name}_eqb (a b : {name}) : bool :=", "  match a, b with"]
        for m in members:
            lines.append(f"  | {prefix}{m.name}, {prefix}{m.name} => true")
        lines.append("  | _, _ => false")
        lines.append("  end.")
        return "\n".join(lines)

    mask_defs = []
    used = ["IGNORED", "ISDIR", "CREATE", "MODIFY", "CLOSE_WRITE", "ATTRIB", "DELETE", "DELETE_SELF",
            "MOVED_FROM", "MOVED_TO", "MOVE_SELF"]
    for n in sorted(set(used) | set(facts["deleted_masks"])):
        try:
            mask_defs.append(f"Definition M_{n} : N := {int(getattr(Mask, n))}.")
        except AttributeError as e:
            raise TranslatorError(f"asyncinotify.Mask has no member {n}") from e
    out = [
        "(* GENERATED by translator/gen_watch.py from stepup/core/{enums,workflow,watcher,startup,executor}.py. Do not edit. *)",
        "From Coq Require Import List NArith Bool.",
        "Import ListNotations.",
        "Open Scope N_scope.",
        "",
        f"Inductive fstate : Set := {ctor_list('FS_', fstates)}.",
        f"Definition all_fstates : list fstate := [{'; '.join('FS_' + m.name for m in fstates)}].",
        eqb("fstate", "FS_", fstates),
        "Definition fstate_value (s : fstate) : N :=",
        "  match s with " + " ".join(f"| FS_{m.name} => {m.value}" for m in fstates) + " end.",
        f"Inductive cause : Set := {ctor_list('HC_', causes)}.",
        eqb("cause", "HC_", causes),
        "Inductive action : Set := AUpdated | ADeleted | ACompleted.",
        "",
        "(* workflow._HASH_TRANSITIONS: (cause, old state, hash known) -> (new state, action) *)",
        "Definition hash_transitions : list ((cause * fstate * bool) * (fstate * option action)) := [",
        ";\n".join(rows),
        "].",
        "",
        f"Definition relevant_states : list fstate := [{'; '.join('FS_' + n for n in facts['relevant'])}].",
        f"Definition relevant_states_during_build : list fstate := [{'; '.join('FS_' + n for n in facts['relevant_during_build'])}].",
        "(* startup.rescan_files: attached files in these states are not re-hashed; UNCONFIRMED uses cause",
        "   CONFIRMED, every other state EXTERNAL; Executor._run_hash_job applies a result iff it differs",
        "   from the old hash or the cause is CONFIRMED. *)",
        f"Definition rescan_excluded_states : list fstate := [{'; '.join('FS_' + n for n in facts['rescan_excluded'])}].",
        "",
        f"Definition CH_UPDATED : N := {change.UPDATED.value}.",
        f"Definition CH_DELETED : N := {change.DELETED.value}.",
        f"Definition CH_DELETED_PARENT : N := {change.DELETED_PARENT.value}.",
        "",
        "(* inotify mask bits (asyncinotify.Mask) and the bits change_loop classifies as DELETED *)",
        *mask_defs,
        f"Definition deleted_mask_bits : list N := [{'; '.join('M_' + n for n in facts['deleted_masks'])}].",
        "",
        "(* shape flags read from the AST *)",
        f"Definition isdir_emits_self : bool := {'true' if facts['isdir_emits_self'] else 'false'}.",
        f"Definition commit_attached_only : bool := {'true' if facts['commit_attached_only'] else 'false'}.",
        "(* Executor._run_hash_job: a CONFIRMED result is dropped when the node is gone or its state is not one of",
        "   confirmation_states (Executor._is_stale_confirmation); false = no such guard in the code *)",
        f"Definition stale_confirmation_guard : bool := {'true' if facts['stale_guard'] else 'false'}.",
        f"Definition confirmation_states : list fstate := [{'; '.join('FS_' + n for n in facts['confirmation_states'])}].",
        "",
        "(* Watcher.run_once translated statement by statement (_run_once_program): the recording loops'",
        "   during_build flags and the commit after end_watching in the vocabulary of model/Watch.v exec_stmt:",
        "   CReadOld ao = old_hashes of the nodes at updated|deleted (ao: attached nodes only); CRehash = gather_hashes",
        "   with cause EXTERNAL; CPrune u d = for every unchanged re-hash discard the path from updated (u) / deleted (d);",
        "   CNglob x y = process_nglob_changes(deleted := x, updated := y); CClear = both sets cleared *)",
        "Inductive wset : Set := SetU | SetD.",
        "Inductive cstmt : Set :=",
        "  | CReadOld (attached_only : bool)",
        "  | CRehash",
        "  | CPrune (from_updated from_deleted : bool)",
        "  | CNglob (deleted_arg updated_arg : wset)",
        "  | CClear.",
        f"Definition drain_during_build : bool := {'true' if facts['drain_during_build'] else 'false'}.",
        f"Definition loop_during_build : bool := {'true' if facts['loop_during_build'] else 'false'}.",
        f"Definition commit_program : list cstmt := [{'; '.join(facts['commit_program'])}].",
        "",
        "(* AsyncInotifyWrapper.dir_loop translated statement by statement (_dir_loop_program; model/WatchSet.v exec_dstmt) *)",
        "Inductive dstmt : Set := DClimb (record : bool) | DPendRequested | DInstallUp.",
        f"Definition dir_loop_program : list dstmt := [{'; '.join(facts['dir_loop_program'])}].",
        "",
    ]
    return "\n".join(out), facts


if __name__ == "__main__":
    if "--print" in sys.argv:
        for k, v in fingerprints().items():
            print(f'    "{k}": ("{v}",),')
    else:
        text, facts = generate(check_fingerprints="--nocheck" not in sys.argv)
        print(text)
