"""Translator for C17 (batch construction): the code path that builds the (deleted, updated) batch
and hands it to NamedGlob.will_change -> coq/gen/GenNglobBatch.v (definitions only, fail closed).

Translated from the Python AST, statement by statement, into Gallina definitions over the types of
coq/model/NglobBatch.v:

* Watcher.record_change          -> gen_record_change rel under during_build st ev
    the if/elif chain on `change`, the guards (`path not in self.deleted`, ...), the relevance
    test, which set gets add / discard in which branch, the DELETED_PARENT loop with its guard.
* NamedGlob.will_change          -> gen_will_change keqb mv self <params in signature order>
    deepcopy, the ORDER of extend / reduce and their arguments, the comparison with self._results.
* Workflow.process_nglob_changes -> gen_process_nglob_changes keqb regs <params>
    the overlap test + raise, the loop over nglob_registrations(), the positional argument ORDER of
    the will_change call, persist_nglob_matches only when the answer is not None.
* startup.rescan_nglobs          -> gen_rescan1 keqb mv old cands
    per registration a FRESH NamedGlob(old.pattern, old.subs) + glob(), persisted (the fresh object)
    when the file sets differ; no call of will_change / extend / reduce / process_nglob_changes.
    Meaning for the property: after a restart the persisted result IS a fresh scan by construction;
    only the watch path relies on the update law.

Every statement is mapped to a term or skipped through an explicit whitelist (reporter calls and the
asyncio notifications, which the model does not have); any other statement or expression shape
raises TranslatorError.  Statements become `let st := <effect> st in ...` in source order, so a
harmless reordering of independent statements or a renamed local still translates (and the tie
proofs in proofs/NglobBatchTie.v still close by computation), while swapping add / discard, dropping
a guard, changing the extend / reduce order or the argument order changes the generated definition
and breaks `gen_... = model` there.
"""

from __future__ import annotations

import ast

from .astutil import TranslatorError, body_without_docstring, find_function, parse_module

WATCHER = "stepup/core/watcher.py"
WORKFLOW = "stepup/core/workflow.py"
NGLOB = "stepup/core/nglob.py"
STARTUP = "stepup/core/startup.py"

KINDS = {"DELETED": "KDeleted", "UPDATED": "KUpdated", "DELETED_PARENT": "KDeletedParent"}
SETS = {"deleted", "updated"}
SET_OPS = {"add", "discard"}


def _src(node) -> str:
    return ast.unparse(node)


def _is_self_attr(node, attr=None):
    return (isinstance(node, ast.Attribute) and isinstance(node.value, ast.Name) and node.value.id == "self"
            and (attr is None or node.attr == attr))


def _params(fn, what):
    a = fn.args
    if a.vararg or a.kwarg or a.posonlyargs:
        raise TranslatorError(f"{what}: unexpected parameter kinds")
    return [x.arg for x in a.args], [x.arg for x in a.kwonlyargs], a.kw_defaults


# ---------------------------------------------------------------------------------------------
# Watcher.record_change
# ---------------------------------------------------------------------------------------------


class _RecordChange:
    def __init__(self):
        self.facts = {"skipped": [], "branches": []}
        fn = find_function(parse_module(WATCHER), "record_change", "Watcher")
        if not isinstance(fn, ast.AsyncFunctionDef):
            raise TranslatorError("record_change is not an async method")
        pos, kwonly, kwdef = _params(fn, "record_change")
        if len(pos) != 3 or pos[0] != "self" or len(kwonly) != 1:
            raise TranslatorError(f"record_change signature changed: {pos} * {kwonly}")
        d = kwdef[0]
        if not (isinstance(d, ast.Constant) and d.value is False):
            raise TranslatorError("record_change: default of the keyword-only flag is not False")
        self.change, self.path, self.flag = pos[1], pos[2], kwonly[0]
        # the defaults of the two Workflow methods (used when a call omits the keyword)
        self.wf_default = {}
        wf = parse_module(WORKFLOW)
        for name in ("change_is_relevant", "relevant_paths_under"):
            wfn = find_function(wf, name, "Workflow")
            wpos, wkw, wdef = _params(wfn, name)
            if len(wpos) != 2 or wkw != ["during_build"] or not isinstance(wdef[0], ast.Constant) \
                    or not isinstance(wdef[0].value, bool):
                raise TranslatorError(f"Workflow.{name} signature changed: {wpos} * {wkw}")
            self.wf_default[name] = wdef[0].value
        self.body = body_without_docstring(fn)

    # --- expressions ---
    def var(self, node, env, what):
        if isinstance(node, ast.Name) and node.id in env:
            return env[node.id]
        raise TranslatorError(f"record_change: {what}: not a known path variable: {_src(node)}")

    def flag_arg(self, call, name):
        if len(call.keywords) == 0:
            return "true" if self.wf_default[name] else "false"
        if len(call.keywords) != 1 or call.keywords[0].arg != "during_build":
            raise TranslatorError(f"record_change: unexpected keywords in {_src(call)}")
        v = call.keywords[0].value
        if isinstance(v, ast.Name) and v.id == self.flag:
            return "during_build"
        if isinstance(v, ast.Constant) and isinstance(v.value, bool):
            return "true" if v.value else "false"
        raise TranslatorError(f"record_change: unrecognised during_build argument in {_src(call)}")

    def wf_call(self, node, name):
        """self.workflow.<name>(<one positional>, during_build=..) -> (call, positional) or None"""
        if (isinstance(node, ast.Call) and isinstance(node.func, ast.Attribute) and node.func.attr == name
                and _is_self_attr(node.func.value, "workflow") and len(node.args) == 1):
            return node
        return None

    def test(self, node, env):
        if isinstance(node, ast.BoolOp) and isinstance(node.op, ast.And):
            return "(" + " && ".join(self.test(v, env) for v in node.values) + ")"
        if isinstance(node, ast.Compare) and len(node.ops) == 1 and len(node.comparators) == 1:
            op, left, right = node.ops[0], node.left, node.comparators[0]
            if isinstance(op, (ast.Eq, ast.Is)) and isinstance(left, ast.Name) and left.id == self.change:
                if (isinstance(right, ast.Attribute) and isinstance(right.value, ast.Name)
                        and right.value.id == "Change" and right.attr in KINDS):
                    return f"kind_eqb change {KINDS[right.attr]}"
                raise TranslatorError(f"record_change: unknown change kind {_src(right)}")
            if isinstance(op, (ast.NotIn, ast.In)) and _is_self_attr(right) and right.attr in SETS:
                v = self.var(left, env, "membership test")
                t = f"mem_str {v} (ws_{right.attr} st)"
                return f"negb ({t})" if isinstance(op, ast.NotIn) else f"({t})"
        call = self.wf_call(node, "change_is_relevant")
        if call is not None:
            return f"rel {self.flag_arg(call, 'change_is_relevant')} {self.var(call.args[0], env, 'change_is_relevant')}"
        raise TranslatorError(f"record_change: unrecognised condition: {_src(node)}")

    # --- statements ---
    def skipped(self, stmt):
        # await self.reporter(...)
        if (isinstance(stmt, ast.Expr) and isinstance(stmt.value, ast.Await) and isinstance(stmt.value.value, ast.Call)
                and _is_self_attr(stmt.value.value.func, "reporter")):
            return "reporter"
        # for event in self.files_changed_events: event.set()
        if (isinstance(stmt, ast.For) and not stmt.orelse and _is_self_attr(stmt.iter, "files_changed_events")
                and isinstance(stmt.target, ast.Name) and len(stmt.body) == 1
                and _src(stmt.body[0]) == f"{stmt.target.id}.set()"):
            return "notify"
        return None

    def block(self, stmts, env, indent):
        pad = " " * indent
        lines = []
        for stmt in stmts:
            why = self.skipped(stmt)
            if why is not None:
                self.facts["skipped"].append(why)
                continue
            lines.append(f"{pad}let st := {self.stmt(stmt, env, indent + 2)} in")
        lines.append(f"{pad}st")
        return "\n".join(lines)

    def stmt(self, stmt, env, indent):
        pad = " " * indent
        if isinstance(stmt, ast.Expr) and isinstance(stmt.value, ast.Call):
            c = stmt.value
            f = c.func
            if (isinstance(f, ast.Attribute) and f.attr in SET_OPS and _is_self_attr(f.value) and f.value.attr in SETS
                    and len(c.args) == 1 and not c.keywords):
                v = self.var(c.args[0], env, f"{f.value.attr}.{f.attr}")
                self.facts["branches"].append(f"{f.value.attr}.{f.attr}({v})")
                return f"{f.value.attr}_{f.attr} {v} st"
        if isinstance(stmt, ast.If):
            t = self.test(stmt.test, env)
            a = self.block(stmt.body, env, indent + 2)
            b = self.block(stmt.orelse, env, indent + 2)
            return f"(if {t} then\n{a}\n{pad}else\n{b})"
        if isinstance(stmt, ast.For) and not stmt.orelse and isinstance(stmt.target, ast.Name):
            call = self.wf_call(stmt.iter, "relevant_paths_under")
            if call is not None:
                x = stmt.target.id
                if x in env or x in ("st", "rel", "under", "during_build", "change"):
                    raise TranslatorError(f"record_change: loop variable {x} shadows another name")
                d = self.var(call.args[0], env, "relevant_paths_under")
                inner = dict(env)
                inner[x] = x
                body = self.block(stmt.body, inner, indent + 4)
                return (f"(fold_left (fun st {x} =>\n{body})\n{pad}  "
                        f"(under {self.flag_arg(call, 'relevant_paths_under')} {d}) st)")
        raise TranslatorError(f"record_change: unrecognised statement: {_src(stmt)[:120]}")

    def translate(self):
        env = {self.path: "path"}
        body = self.block(self.body, env, 2)
        return ("Definition gen_record_change (rel : bool -> str -> bool) (under : bool -> str -> list str)\n"
                "    (during_build : bool) (st : wstate) (ev : event) : wstate :=\n"
                "  let change := ev_kind ev in\n  let path := ev_path ev in\n" + body + ".")


# ---------------------------------------------------------------------------------------------
# NamedGlob.will_change
# ---------------------------------------------------------------------------------------------


def translate_will_change(facts):
    fn = find_function(parse_module(NGLOB), "will_change", "NamedGlob")
    pos, kwonly, _ = _params(fn, "will_change")
    if len(pos) != 3 or pos[0] != "self" or kwonly or fn.args.defaults:
        raise TranslatorError(f"will_change signature changed: {pos}")
    p1, p2 = pos[1], pos[2]
    body = body_without_docstring(fn)
    if not body or not isinstance(body[-1], ast.Return):
        raise TranslatorError("will_change: the last statement is not a return")
    lines = []
    ev = None
    order = []
    for stmt in body[:-1]:
        # evolved = copy.deepcopy(self)
        if (isinstance(stmt, ast.Assign) and len(stmt.targets) == 1 and isinstance(stmt.targets[0], ast.Name)
                and _src(stmt.value) == "copy.deepcopy(self)" and ev is None):
            ev = stmt.targets[0].id
            lines.append("  let evolved := self in")
            continue
        # evolved.extend(x) / evolved.reduce(x)
        if (isinstance(stmt, ast.Expr) and isinstance(stmt.value, ast.Call) and isinstance(stmt.value.func, ast.Attribute)
                and isinstance(stmt.value.func.value, ast.Name) and stmt.value.func.value.id == ev
                and stmt.value.func.attr in ("extend", "reduce") and len(stmt.value.args) == 1
                and not stmt.value.keywords and isinstance(stmt.value.args[0], ast.Name)
                and stmt.value.args[0].id in (p1, p2)):
            op, arg = stmt.value.func.attr, stmt.value.args[0].id
            order.append(f"{op}({arg})")
            lines.append(f"  let evolved := {op} keqb mv evolved {arg} in")
            continue
        raise TranslatorError(f"will_change: unrecognised statement: {_src(stmt)[:120]}")
    if ev is None:
        raise TranslatorError("will_change: no `evolved = copy.deepcopy(self)`")
    r = body[-1].value
    ok = (isinstance(r, ast.IfExp) and isinstance(r.body, ast.Constant) and r.body.value is None
          and isinstance(r.orelse, ast.Name) and r.orelse.id == ev
          and isinstance(r.test, ast.Compare) and len(r.test.ops) == 1 and isinstance(r.test.ops[0], ast.Eq))
    if not ok:
        raise TranslatorError(f"will_change: unrecognised return: {_src(body[-1])}")
    sides = []
    for side in (r.test.left, r.test.comparators[0]):
        s = _src(side)
        if s == f"{ev}._results":
            sides.append("evolved")
        elif s == "self._results":
            sides.append("self")
        else:
            raise TranslatorError(f"will_change: unrecognised comparison operand {s}")
    if sorted(sides) != ["evolved", "self"]:
        raise TranslatorError("will_change: the comparison is not between evolved._results and self._results")
    lines.append(f"  if results_eqb keqb {sides[0]} {sides[1]} then None else Some evolved.")
    facts["will_change_order"] = order
    facts["will_change_params"] = [p1, p2]
    head = (f"Definition gen_will_change {{K : Type}} (keqb : K -> K -> bool) (mv : str -> option K)\n"
            f"    (self : results K) ({p1} {p2} : list str) : option (results K) :=\n")
    return head + "\n".join(lines)


# ---------------------------------------------------------------------------------------------
# Workflow.process_nglob_changes
# ---------------------------------------------------------------------------------------------


def translate_process(facts):
    fn = find_function(parse_module(WORKFLOW), "process_nglob_changes", "Workflow")
    pos, kwonly, _ = _params(fn, "process_nglob_changes")
    if len(pos) != 3 or pos[0] != "self" or kwonly or fn.args.defaults:
        raise TranslatorError(f"process_nglob_changes signature changed: {pos}")
    p1, p2 = pos[1], pos[2]
    body = body_without_docstring(fn)
    if len(body) == 3 and isinstance(body[1], (ast.Assign, ast.AnnAssign)) and isinstance(body[2], ast.For):
        # a per-batch cache of will_change: model/NglobRegs.v process_memo.  It equals the model only when
        # the key determines the registration (C17_memo_sound); say which key the code uses.
        keys = sorted({_src(n.slice) for n in ast.walk(body[2]) if isinstance(n, ast.Subscript)})
        raise TranslatorError(
            "process_nglob_changes memoises NamedGlob.will_change per batch under the key "
            f"{' / '.join(keys) or '?'}: not the per-registration loop of model/NglobBatch.v. A key that does not "
            "determine (step, pattern, subs, recorded results) gives one registration another one's answer "
            "(C17_memo_by_pattern_refuted; the oracle O6 registers the same pattern with different subs)")
    if len(body) != 2:
        raise TranslatorError(f"process_nglob_changes: expected an overlap test and one loop, got {len(body)} statements")
    chk, loop = body
    # if deleted & updated: raise ConsistencyError(...)
    ok = (isinstance(chk, ast.If) and not chk.orelse and len(chk.body) == 1 and isinstance(chk.body[0], ast.Raise)
          and isinstance(chk.test, ast.BinOp) and isinstance(chk.test.op, ast.BitAnd)
          and isinstance(chk.test.left, ast.Name) and isinstance(chk.test.right, ast.Name)
          and {chk.test.left.id, chk.test.right.id} == {p1, p2})
    if not ok:
        raise TranslatorError(f"process_nglob_changes: unrecognised overlap test: {_src(chk)[:120]}")
    exc = chk.body[0].exc
    if not (isinstance(exc, ast.Call) and isinstance(exc.func, ast.Name) and exc.func.id == "ConsistencyError"):
        raise TranslatorError("process_nglob_changes: the overlap branch does not raise ConsistencyError")
    # for i, ng, step in self.nglob_registrations():
    ok = (isinstance(loop, ast.For) and not loop.orelse and _src(loop.iter) == "self.nglob_registrations()"
          and isinstance(loop.target, ast.Tuple) and len(loop.target.elts) == 3
          and all(isinstance(e, ast.Name) for e in loop.target.elts))
    if not ok:
        raise TranslatorError("process_nglob_changes: the loop does not run over self.nglob_registrations()")
    vi, vng, vstep = (e.id for e in loop.target.elts)
    if len(loop.body) != 2:
        raise TranslatorError("process_nglob_changes: loop body is not `evolved = ...; if evolved is not None: ...`")
    asg, cond = loop.body
    ok = (isinstance(asg, ast.Assign) and len(asg.targets) == 1 and isinstance(asg.targets[0], ast.Name)
          and isinstance(asg.value, ast.Call) and isinstance(asg.value.func, ast.Attribute)
          and asg.value.func.attr == "will_change" and isinstance(asg.value.func.value, ast.Name)
          and asg.value.func.value.id == vng and len(asg.value.args) == 2 and not asg.value.keywords
          and all(isinstance(a, ast.Name) and a.id in (p1, p2) for a in asg.value.args))
    if not ok:
        raise TranslatorError(f"process_nglob_changes: unrecognised will_change call: {_src(asg)[:120]}")
    vev = asg.targets[0].id
    a1, a2 = (a.id for a in asg.value.args)
    ok = (isinstance(cond, ast.If) and not cond.orelse and len(cond.body) == 1
          and _src(cond.test) == f"{vev} is not None"
          and _src(cond.body[0]) == f"self.persist_nglob_matches({vi}, {vstep}, {vev})")
    if not ok:
        raise TranslatorError(f"process_nglob_changes: unrecognised persist statement: {_src(cond)[:120]}")
    facts["process_call_order"] = [a1, a2]
    facts["process_params"] = [p1, p2]
    return (
        f"Definition gen_process_nglob_changes {{K : Type}} (keqb : K -> K -> bool) (regs : list (reg K))\n"
        f"    ({p1} {p2} : list str) : option (list (reg K * bool)) :=\n"
        f"  if overlap {p1} {p2} then None (* raise ConsistencyError *)\n"
        f"  else Some (map (fun r : reg K =>\n"
        f"         match gen_will_change keqb (fst r) (snd r) {a1} {a2} with\n"
        f"         | Some evolved => ((fst r, evolved), true)   (* persist_nglob_matches *)\n"
        f"         | None => (r, false)\n"
        f"         end) regs).")


# ---------------------------------------------------------------------------------------------
# startup.rescan_nglobs
# ---------------------------------------------------------------------------------------------

RESCAN_ADMIN = {
    # statements around the main loop that only load the rows, report, or apply the result
    "async with workflow.db:\n    registrations = list(workflow.nglob_registrations())",
    "if len(registrations) == 0:\n    return",
    "changed_nglobs = []",
    "all_deleted = set()",
    "all_added = set()",
    "for path in sorted(all_deleted):\n    await reporter('DELETED', path)",
    "for path in sorted(all_added):\n    await reporter('UPDATED', path)",
}
RESCAN_FORBIDDEN = {"will_change", "process_nglob_changes", "extend", "reduce", "deepcopy"}


def translate_rescan(facts):
    fn = find_function(parse_module(STARTUP), "rescan_nglobs")
    for n in ast.walk(fn):
        if isinstance(n, ast.Attribute) and n.attr in RESCAN_FORBIDDEN:
            raise TranslatorError(f"rescan_nglobs uses .{n.attr}: it is no longer a fresh scan")
    body = body_without_docstring(fn)
    loops = [s for s in body if isinstance(s, ast.For) and _src(s.iter) == "registrations"]
    if len(loops) != 1:
        raise TranslatorError("rescan_nglobs: expected exactly one loop over `registrations`")
    loop = loops[0]
    applied = None
    for s in body:
        if s is loop:
            continue
        src = _src(s)
        if src in RESCAN_ADMIN:
            continue
        if isinstance(s, ast.Expr) and isinstance(s.value, ast.Await) and isinstance(s.value.value, ast.Call) \
                and _src(s.value.value.func) == "reporter":
            continue
        if src == ("if len(changed_nglobs) > 0:\n    async with workflow.db:\n        for nglob_i, step, new_ng in changed_nglobs:\n"
                   "            workflow.persist_nglob_matches(nglob_i, step, new_ng)"):
            applied = True
            continue
        raise TranslatorError(f"rescan_nglobs: unrecognised statement: {src[:120]}")
    if not applied:
        raise TranslatorError("rescan_nglobs: the changed rows are not persisted")
    if not (isinstance(loop.target, ast.Tuple) and len(loop.target.elts) == 3
            and all(isinstance(e, ast.Name) for e in loop.target.elts)):
        raise TranslatorError("rescan_nglobs: loop target changed")
    vi, vold, vstep = (e.id for e in loop.target.elts)
    env = {vold: ("ng", "old")}
    cond = None
    for s in loop.body:
        src = _src(s)
        if src in ("all_deleted.update(deleted)", "all_added.update(added)"):
            continue
        if isinstance(s, ast.Assign) and len(s.targets) == 1 and isinstance(s.targets[0], ast.Name):
            tgt, v = s.targets[0].id, s.value
            # x = set(<ng>.files())
            if (isinstance(v, ast.Call) and _src(v.func) == "set" and len(v.args) == 1 and isinstance(v.args[0], ast.Call)
                    and isinstance(v.args[0].func, ast.Attribute) and v.args[0].func.attr == "files"
                    and not v.args[0].args and isinstance(v.args[0].func.value, ast.Name)):
                ng = env.get(v.args[0].func.value.id)
                if ng == ("ng", "old"):
                    env[tgt] = ("files", "old")
                    continue
                if ng == ("ng", "scanned"):
                    env[tgt] = ("files", "new_ng")
                    continue
                raise TranslatorError(f"rescan_nglobs: files() of an unknown or unscanned object: {src}")
            # x = NamedGlob(old.pattern, old.subs)
            if src == f"{tgt} = NamedGlob({vold}.pattern, {vold}.subs)":
                env[tgt] = ("ng", "empty")
                continue
            # x = a - b
            if isinstance(v, ast.BinOp) and isinstance(v.op, ast.Sub) and isinstance(v.left, ast.Name) \
                    and isinstance(v.right, ast.Name):
                a, b = env.get(v.left.id), env.get(v.right.id)
                if a and b and a[0] == "files" and b[0] == "files":
                    env[tgt] = ("diff", a[1], b[1])
                    continue
        # x.glob()
        if isinstance(s, ast.Expr) and isinstance(s.value, ast.Call) and isinstance(s.value.func, ast.Attribute) \
                and s.value.func.attr == "glob" and isinstance(s.value.func.value, ast.Name) \
                and env.get(s.value.func.value.id) == ("ng", "empty") and not s.value.args:
            env[s.value.func.value.id] = ("ng", "scanned")
            continue
        # if deleted or added: changed_nglobs.append((i, step, new_ng))
        if isinstance(s, ast.If) and not s.orelse and len(s.body) == 1 and cond is None:
            t = s.test
            if isinstance(t, ast.BoolOp) and isinstance(t.op, ast.Or) and all(isinstance(x, ast.Name) for x in t.values):
                parts = [env.get(x.id) for x in t.values]
                if all(p and p[0] == "diff" for p in parts):
                    app = s.body[0]
                    if (isinstance(app, ast.Expr) and isinstance(app.value, ast.Call)
                            and _src(app.value.func) == "changed_nglobs.append" and len(app.value.args) == 1
                            and isinstance(app.value.args[0], ast.Tuple) and len(app.value.args[0].elts) == 3):
                        e1, e2, e3 = app.value.args[0].elts
                        if (_src(e1) == vi and _src(e2) == vstep and isinstance(e3, ast.Name)
                                and env.get(e3.id) == ("ng", "scanned")):
                            cond = " || ".join(f"negb (set_subb (files {p[1]}) (files {p[2]}))" for p in parts)
                            continue
        raise TranslatorError(f"rescan_nglobs: unrecognised statement in the loop: {src[:120]}")
    if cond is None:
        raise TranslatorError("rescan_nglobs: no `if deleted or added: changed_nglobs.append(...)`")
    facts["rescan_condition"] = cond
    return (
        "Definition gen_rescan1 {K : Type} (keqb : K -> K -> bool) (mv : str -> option K)\n"
        "    (old : results K) (cands : list str) : option (results K) :=\n"
        "  let new_ng := extend keqb mv [] cands in   (* NamedGlob(old.pattern, old.subs); glob() *)\n"
        f"  if {cond} then Some new_ng else None.")


def generate():
    rc = _RecordChange()
    facts = rc.facts
    parts = [
        "(* GENERATED by translator/gen_nglob_batch.py from /repo -- do not edit *)",
        "From Coq Require Import List NArith Bool.",
        "From SV Require Import lib.Bytes.",
        "From SV Require Import lib.Regex.",
        "From SV Require Import model.Nglob.",
        "From SV Require Import model.NglobBatch.",
        "Import ListNotations.",
        "Open Scope N_scope.",
        "(* Watcher.record_change *)",
        rc.translate(),
        "(* NamedGlob.will_change *)",
        translate_will_change(facts),
        "(* Workflow.process_nglob_changes *)",
        translate_process(facts),
        "(* startup.rescan_nglobs, one registration *)",
        translate_rescan(facts),
        "",
    ]
    return "\n".join(parts), facts


if __name__ == "__main__":
    print(generate()[0])
