"""Translator for C16: the facts of stepup/core/rpc.py (and director.py) that model/Rpc.v uses.

Everything is read from the AST of the working tree under REPO on every run.  A statement is
matched by the normalised text `ast.unparse` gives for it; the parts that may legitimately vary
(byte order, widths, comparison operator, the set and order of guards, exception classes) are
captured and emitted, every other difference raises TranslatorError (fail closed).
"""
from __future__ import annotations

import ast
import re

from .astutil import (REPO, TranslatorError, body_without_docstring, coq_str, find_function,
                      parse_module)

RPC = "stepup/core/rpc.py"
DIRECTOR = "stepup/core/director.py"


def _u(node) -> str:
    return ast.unparse(node)


def _eval_int(node, env):
    """Evaluate a constant integer expression over already known module constants."""
    if isinstance(node, ast.Constant) and isinstance(node.value, int) and not isinstance(node.value, bool):
        return node.value
    if isinstance(node, ast.Name) and node.id in env:
        return env[node.id]
    if isinstance(node, ast.BinOp) and isinstance(node.op, (ast.Mult, ast.Add, ast.Pow, ast.Sub)):
        a, b = _eval_int(node.left, env), _eval_int(node.right, env)
        if isinstance(node.op, ast.Mult):
            return a * b
        if isinstance(node.op, ast.Add):
            return a + b
        if isinstance(node.op, ast.Sub):
            return a - b
        if b < 0 or b > 4096:
            raise TranslatorError("exponent out of range")
        return a ** b
    raise TranslatorError(f"not a constant integer expression: {_u(node)}")


def module_constants(tree):
    env = {}
    for st in tree.body:
        if isinstance(st, ast.Assign) and len(st.targets) == 1 and isinstance(st.targets[0], ast.Name):
            name = st.targets[0].id
            if name in ("FIELD_SIZE", "HEADER_SIZE", "MAX_BODY_SIZE"):
                if name in env:
                    raise TranslatorError(f"{name} assigned twice")
                env[name] = _eval_int(st.value, env)
    for name in ("FIELD_SIZE", "HEADER_SIZE", "MAX_BODY_SIZE"):
        if name not in env:
            raise TranslatorError(f"constant {name} not found in rpc.py")
        if env[name] <= 0:
            raise TranslatorError(f"{name} is not positive")
    # nobody may rebind them elsewhere in the module
    for node in ast.walk(tree):
        if isinstance(node, (ast.AugAssign, ast.AnnAssign)) and isinstance(node.target, ast.Name) \
                and node.target.id in env:
            raise TranslatorError(f"{node.target.id} is modified")
        if isinstance(node, ast.Global):
            if set(node.names) & set(env):
                raise TranslatorError("global rebinding of a framing constant")
    return env


ORDER = {"big": "Big", "little": "Little"}


def _header_layout(value, env):
    parts = []

    def flat(e):
        if isinstance(e, ast.BinOp) and isinstance(e.op, ast.Add):
            flat(e.left)
            flat(e.right)
        else:
            parts.append(e)
    flat(value)
    layout = []
    for p in parts:
        m = re.fullmatch(r"(call_id|size)\.to_bytes\((.+), '(\w+)'\)", _u(p))
        if not m:
            raise TranslatorError(f"_encode_message: header part not recognised: {_u(p)}")
        if m.group(3) not in ORDER:
            raise TranslatorError(f"unknown byte order {m.group(3)}")
        width = _eval_int(p.args[0], env)
        layout.append(("FId" if m.group(1) == "call_id" else "FSize", width, ORDER[m.group(3)]))
    return layout


def _encode_path(stmts, body_is_none, env):
    """Run the statements of _encode_message symbolically for one of the two cases `body is None` /
    `body is not None`. Statement-level: assignments to the locals `size` and `header`, `if` statements and
    conditional expressions whose test is `body is None` / `body is not None` (both are decided by the case),
    `return`. Returns (size expression, header layout, returned expression) as the path computes them."""
    def decide(test):
        t = _u(test)
        if t == "body is None":
            return body_is_none
        if t == "body is not None":
            return not body_is_none
        raise TranslatorError(f"_encode_message: test not recognised: {t}")

    def pick(e):
        while isinstance(e, ast.IfExp):
            e = e.body if decide(e.test) else e.orelse
        return e

    state = {"size": None, "header": None}

    def run(block):
        for st in block:
            if isinstance(st, ast.Assign) and len(st.targets) == 1 and isinstance(st.targets[0], ast.Name) \
                    and st.targets[0].id in state:
                name, val = st.targets[0].id, pick(st.value)
                if name == "size":
                    if state["header"] is not None:
                        raise TranslatorError("_encode_message: size is assigned after the header was built")
                    state["size"] = _u(val)
                else:
                    if state["size"] is None:
                        raise TranslatorError("_encode_message: header built before size is known")
                    state["header"] = _header_layout(val, env)
            elif isinstance(st, ast.If):
                r = run(st.body if decide(st.test) else st.orelse)
                if r is not None:
                    return r
            elif isinstance(st, ast.Return) and st.value is not None:
                return _u(pick(st.value))
            else:
                raise TranslatorError(f"_encode_message: statement not recognised: {_u(st)[:80]}")
        return None

    ret = run(stmts)
    if ret is None or state["header"] is None:
        raise TranslatorError("_encode_message: a path does not return the message")
    return state["size"], state["header"], ret


def translate_encode(tree, env):
    """size = 0 if body is None else len(body); header = <fields>; return header [+ body], in whatever mixture of
    conditional expressions and if-statements on `body is None` the source uses (both cases are executed)."""
    fn = find_function(tree, "_encode_message")
    if [a.arg for a in fn.args.args] != ["call_id", "body"]:
        raise TranslatorError("_encode_message signature changed")
    body = body_without_docstring(fn)
    size0, layout0, ret0 = _encode_path(body, True, env)
    size1, layout1, ret1 = _encode_path(body, False, env)
    if size0 != "0" or size1 != "len(body)":
        raise TranslatorError(f"_encode_message: size rule not recognised: {size0} / {size1}")
    if layout0 != layout1:
        raise TranslatorError("_encode_message: the header layout depends on the body")
    if ret0 != "header" or ret1 != "header + body":
        raise TranslatorError(f"_encode_message: return not recognised: {ret0} / {ret1}")
    return layout0


def translate_decode(tree, env):
    fn = find_function(tree, "_decode_header")
    if [a.arg for a in fn.args.args] != ["header"]:
        raise TranslatorError("_decode_header signature changed")
    body = body_without_docstring(fn)
    if len(body) != 4:
        raise TranslatorError("_decode_header: expected four statements")
    layout = []
    for st in body[:2]:
        m = re.fullmatch(r"(call_id|size) = int\.from_bytes\(header\[(.*):(.*)\](?:, '(\w+)')?\)", _u(st))
        if not m:
            raise TranslatorError(f"_decode_header: field not recognised: {_u(st)}")
        sl = st.value.args[0].slice
        lo = 0 if sl.lower is None else _eval_int(sl.lower, env)
        hi = None if sl.upper is None else _eval_int(sl.upper, env)
        if sl.step is not None:
            raise TranslatorError("_decode_header: slice with a step")
        order = m.group(4) or "big"  # int.from_bytes defaults to 'big' since Python 3.11
        if order not in ORDER:
            raise TranslatorError(f"unknown byte order {order}")
        layout.append(("FId" if m.group(1) == "call_id" else "FSize", lo, hi, ORDER[order]))
    if sorted(f for f, *_ in layout) != ["FId", "FSize"]:
        raise TranslatorError("_decode_header: does not decode call_id and size once each")
    st = body[2]
    m = re.fullmatch(r"if size (>|>=) MAX_BODY_SIZE:\n    raise RPCError\(.*\)", _u(st), re.S)
    if not m or st.orelse:
        raise TranslatorError(f"_decode_header: size check not recognised: {_u(st)[:80]}")
    cmp_ = "CGt" if m.group(1) == ">" else "CGe"
    if _u(body[3]) != "return (call_id, size)":
        raise TranslatorError(f"_decode_header: return not recognised: {_u(body[3])}")
    return layout, cmp_


def _except_names(handler):
    t = handler.type
    if t is None:
        return ["<bare>"]
    if isinstance(t, ast.Tuple):
        return [_u(e) for e in t.elts]
    return [_u(t)]


def translate_recv_functions(tree):
    """_recv_stream_message / _recv_socket_message: header size, sentinel rule, what means 'gone'."""
    fn = find_function(tree, "_recv_stream_message")
    body = body_without_docstring(fn)
    if len(body) != 2 or not isinstance(body[0], ast.Try) or _u(body[1]) != "return (call_id, body)":
        raise TranslatorError("_recv_stream_message: shape changed")
    tr = body[0]
    want = ["call_id, size = _decode_header(await reader.readexactly(HEADER_SIZE))",
            "body = None if size == 0 else await reader.readexactly(size)"]
    if [_u(s) for s in tr.body] != want:
        raise TranslatorError("_recv_stream_message: read sequence changed: " + " ; ".join(_u(s) for s in tr.body))
    if len(tr.handlers) != 1 or tr.orelse or tr.finalbody:
        raise TranslatorError("_recv_stream_message: handlers changed")
    gone = _except_names(tr.handlers[0])
    if [_u(s) for s in tr.handlers[0].body] != ["return None"]:
        raise TranslatorError("_recv_stream_message: the except branch does not return None")
    allowed = {"asyncio.IncompleteReadError", "ConnectionError", "ConnectionResetError", "BrokenPipeError",
               "ConnectionAbortedError"}
    if not set(gone) <= allowed:
        raise TranslatorError(f"_recv_stream_message: exceptions treated as 'peer gone' not recognised: {gone}")
    fn = find_function(tree, "_recv_socket_message")
    body = body_without_docstring(fn)
    want = ["call_id, size = _decode_header(reader.readexactly(HEADER_SIZE))",
            "return (call_id, None if size == 0 else reader.readexactly(size))"]
    if [_u(s) for s in body] != want:
        raise TranslatorError("_recv_socket_message: shape changed")
    # _SocketReader.readexactly: accumulate until `size` bytes, empty recv means gone
    fn = find_function(tree, "readexactly", cls="_SocketReader")
    text = _u(ast.Module(body=body_without_docstring(fn), type_ignores=[]))
    want = ("while len(self._buffer) < size:\n"
            "    fragment = self.sock.recv(4096)\n"
            "    if len(fragment) == 0:\n"
            "        raise ConnectionResetError(")
    tail = ("    self._buffer += fragment\nresult = self._buffer[:size]\n"
            "self._buffer = self._buffer[size:]\nreturn result")
    if not text.startswith(want) or not text.endswith(tail):
        raise TranslatorError("_SocketReader.readexactly: shape changed")
    return gone


def translate_call_procedure(tree):
    fn = find_function(tree, "_call_procedure")
    if [a.arg for a in fn.args.args] != ["handler", "call"]:
        raise TranslatorError("_call_procedure signature changed")
    steps = []
    for st in body_without_docstring(fn):
        text = _u(st)
        m = re.fullmatch(r"try:\n    procedure = getattr\(handler, call\.name\)\n"
                         r"except AttributeError as exc:\n    raise (\w+)\(.*\) from exc", text, re.S)
        if m:
            steps.append(("CPLookup", m.group(1)))
            continue
        m = re.fullmatch(r"if not is_rpc_allowed\(procedure\):\n    raise (\w+)\(.*\)", text, re.S)
        if m and not st.orelse:
            steps.append(("CPAllowed", m.group(1)))
            continue
        m = re.fullmatch(r"try:\n    inspect\.signature\(procedure\)\.bind\(\*call\.args, \*\*call\.kwargs\)\n"
                         r"except TypeError as exc:\n    raise (\w+)\(.*\) from exc", text, re.S)
        if m:
            steps.append(("CPBind", m.group(1)))
            continue
        if text == "result = procedure(*call.args, **call.kwargs)":
            steps.append(("CPInvoke", None))
            continue
        if text == "return await result if inspect.isawaitable(result) else result":
            steps.append(("CPReturn", None))
            continue
        raise TranslatorError(f"_call_procedure: statement not recognised: {text[:100]}")
    # the marker protocol
    fa = find_function(tree, "allow_rpc")
    if [_u(s) for s in body_without_docstring(fa)] != ["func._allow_rpc = True", "return func"]:
        raise TranslatorError("allow_rpc: shape changed")
    fi = find_function(tree, "is_rpc_allowed")
    if [_u(s) for s in body_without_docstring(fi)] != ["return getattr(func, '_allow_rpc', False)"]:
        raise TranslatorError("is_rpc_allowed: shape changed")
    return steps


def translate_capture(tree):
    fn = find_function(tree, "_call_and_capture_failure")
    body = body_without_docstring(fn)
    if len(body) != 1 or not isinstance(body[0], ast.Try):
        raise TranslatorError("_call_and_capture_failure: shape changed")
    tr = body[0]
    if [_u(s) for s in tr.body] != ["return await _call_procedure(handler, call)"]:
        raise TranslatorError("_call_and_capture_failure: try body changed")
    if len(tr.handlers) != 1 or tr.orelse or tr.finalbody:
        raise TranslatorError("_call_and_capture_failure: handlers changed")
    h = tr.handlers[0]
    names = _except_names(h)
    if names == ["BaseException"]:
        cap = "CapBaseException"
    elif names == ["Exception"]:
        cap = "CapException"
    else:
        raise TranslatorError(f"_call_and_capture_failure: except clause not recognised: {names}")
    stmts = [_u(s) for s in h.body]
    if stmts[0] != "failure = RemoteFailure.from_exception(exc)" or stmts[-1] != "return failure":
        raise TranslatorError("_call_and_capture_failure: the failure is not turned into the reply")
    for s in h.body[1:-1]:
        if not (isinstance(s, ast.Expr) and _u(s).startswith("logger.")):
            raise TranslatorError(f"_call_and_capture_failure: unexpected statement {_u(s)[:60]}")
    return cap


def translate_remote_failure(tree):
    cls = None
    for node in tree.body:
        if isinstance(node, ast.ClassDef) and node.name == "RemoteFailure":
            cls = node
    if cls is None:
        raise TranslatorError("class RemoteFailure not found")
    fields = [s.target.id for s in cls.body if isinstance(s, ast.AnnAssign) and isinstance(s.target, ast.Name)]
    if fields != ["module", "qualname", "message", "traceback_text", "usage"]:
        raise TranslatorError(f"RemoteFailure fields changed: {fields}")
    fe = find_function(cls, "from_exception")
    body = body_without_docstring(fe)
    if len(body) != 1 or not isinstance(body[0], ast.Return) or not isinstance(body[0].value, ast.Call):
        raise TranslatorError("RemoteFailure.from_exception: shape changed")
    call = body[0].value
    if _u(call.func) != "cls" or len(call.args) != 5 or call.keywords:
        raise TranslatorError("RemoteFailure.from_exception: constructor call changed")
    if [_u(a) for a in call.args[:3]] != ["type(exc).__module__", "type(exc).__qualname__", "str(exc)"]:
        raise TranslatorError("RemoteFailure.from_exception: class identification changed")
    utext = _u(call.args[4])
    usage = {"isinstance(exc, UsageError)": "UIsInstanceUsageError", "True": "UConstTrue",
             "False": "UConstFalse"}.get(utext)
    if usage is None:
        raise TranslatorError(f"RemoteFailure.from_exception: usage rule not recognised: {utext}")
    te = find_function(cls, "to_exception")
    steps = []
    fallback = set()
    for st in body_without_docstring(te):
        text = _u(st)
        m = re.fullmatch(r"try:\n    cls = getattr\(importlib\.import_module\(self\.module\), self\.qualname\)\n"
                         r"except \(ImportError, AttributeError\):\n    return (\w+)\(self\.message\)", text)
        if m:
            steps.append("TEImport")
            fallback.add(m.group(1))
            continue
        m = re.fullmatch(r"if not \(isinstance\(cls, type\) and issubclass\(cls, UsageError\)\):\n"
                         r"    return (\w+)\(self\.message\)", text)
        if m and not st.orelse:
            steps.append("TESubclass")
            fallback.add(m.group(1))
            continue
        m = re.fullmatch(r"try:\n    return cls\(self\.message\)\nexcept TypeError:\n    return (\w+)\(self\.message\)", text)
        if m:
            steps.append("TECtor")
            fallback.add(m.group(1))
            continue
        raise TranslatorError(f"RemoteFailure.to_exception: statement not recognised: {text[:100]}")
    if steps[-1:] != ["TECtor"]:
        raise TranslatorError("RemoteFailure.to_exception: does not end by constructing the class")
    if fallback != {"RPCError"}:
        raise TranslatorError(f"RemoteFailure.to_exception: fallback classes {sorted(fallback)}")
    return usage, steps


def translate_raise_remote(tree):
    fn = find_function(tree, "_raise_remote_error")
    body = body_without_docstring(fn)
    if len(body) != 2 or not isinstance(body[0], ast.If) or body[0].orelse:
        raise TranslatorError("_raise_remote_error: shape changed")
    test = body[0].test
    conj = test.values if isinstance(test, ast.BoolOp) and isinstance(test.op, ast.And) else [test]
    conds = []
    for c in conj:
        t = _u(c)
        if t == "failure.usage":
            conds.append("RRUsageFlag")
        elif t == "not is_debug()":
            conds.append("RRNotDebug")
        else:
            raise TranslatorError(f"_raise_remote_error: condition not recognised: {t}")
    if [_u(s) for s in body[0].body] != ["raise failure.to_exception() from None"]:
        raise TranslatorError("_raise_remote_error: the usage branch does not raise to_exception()")
    if not _u(body[1]).startswith("raise RPCError("):
        raise TranslatorError("_raise_remote_error: the fallback is not an RPCError")
    # _decode_response: empty body -> RPCError; RemoteFailure -> _raise_remote_error
    fn = find_function(tree, "_decode_response")
    b = body_without_docstring(fn)
    texts = [_u(s) for s in b]
    ok = (len(b) == 4 and texts[0].startswith("if body is None:\n") and "raise RPCError(" in texts[0]
          and isinstance(b[0], ast.If) and not b[0].orelse
          and isinstance(b[0].body[-1], ast.Raise)
          and texts[1].startswith("try:\n    result = pickle.loads(body)\nexcept Exception as exc:\n    raise RPCError(")
          and texts[2] == "if isinstance(result, RemoteFailure):\n    _raise_remote_error(result, call)"
          and texts[3] == "return result")
    if not ok:
        raise TranslatorError("_decode_response: shape changed")
    return conds


def translate_server_loops(tree):
    """The flow of the call id from the request to the reply, and the close request."""
    cls = None
    for node in tree.body:
        if isinstance(node, ast.ClassDef) and node.name == "RPCServerConnection":
            cls = node
    if cls is None:
        raise TranslatorError("class RPCServerConnection not found")
    recv = find_function(cls, "_recv_loop")
    fors = [n for n in ast.walk(recv) if isinstance(n, ast.AsyncFor)]
    if len(fors) != 1 or _u(fors[0].target) != "(call_id, request)":
        raise TranslatorError("_recv_loop: request loop not recognised")
    if _u(fors[0].iter) != "requests":
        raise TranslatorError("_recv_loop: iterates something else than the request stream")
    fb = fors[0].body
    texts = [_u(s) for s in fb]
    if len(fb) != 5:
        raise TranslatorError("_recv_loop: loop body changed")
    if texts[0] == "if request is None:\n    self._stop_event.set()\n    break":
        none_rule = "NoneStopsAndBreaks"
    else:
        raise TranslatorError(f"_recv_loop: handling of an empty body not recognised: {texts[0][:80]}")
    want = ["call = _decode_request(request)",
            "task = asyncio.create_task(_call_and_capture_failure(self.handler, call), name=f'RPC:{call.name}-{call_id}')",
            "self._tasks.add(task)",
            "task.add_done_callback(partial(self._queue_reply, call_id))"]
    if texts[1:] != want:
        raise TranslatorError("_recv_loop: task creation changed: " + " ; ".join(texts[1:])[:200])
    # nothing between the request stream and this loop may catch the RPCError of a bad frame
    trys = [n for n in ast.walk(recv) if isinstance(n, ast.Try)]
    if len(trys) != 1:
        raise TranslatorError("_recv_loop: try structure changed")
    tr = trys[0]
    if len(tr.handlers) != 1 or _except_names(tr.handlers[0]) != ["BaseException"]:
        raise TranslatorError("_recv_loop: except clause changed")
    hb = [_u(s) for s in tr.handlers[0].body]
    if hb != ["for task in list(self._tasks):\n    task.cancel()", "raise"]:
        raise TranslatorError("_recv_loop: teardown branch changed")
    if [_u(s) for s in tr.finalbody] != ["await asyncio.gather(*self._tasks, return_exceptions=True)"]:
        raise TranslatorError("_recv_loop: finally branch changed")
    if _u(tr.body[0]) != "requests = _iter_stream_messages(self.reader, self._stop_event)":
        raise TranslatorError("_recv_loop: request stream changed")
    q = find_function(cls, "_queue_reply")
    if [a.arg for a in q.args.args] != ["self", "call_id", "task"] or \
            [_u(s) for s in body_without_docstring(q)] != ["self._tasks.discard(task)",
                                                            "self._completed.put_nowait((call_id, task))"]:
        raise TranslatorError("_queue_reply: shape changed")
    send = find_function(cls, "_send_loop")
    fors = [n for n in ast.walk(send) if isinstance(n, ast.AsyncFor)]
    if len(fors) != 1 or _u(fors[0].target) != "(call_id, task)" or _u(fors[0].iter) != "completed_tasks":
        raise TranslatorError("_send_loop: loop not recognised")
    sb = body_without_docstring(send)
    if _u(sb[0]) != "completed_tasks = iter_until_stopped(self._completed.get, self._stop_event)":
        raise TranslatorError("_send_loop: source of completed tasks changed")
    fb = fors[0].body
    if len(fb) != 2 or _u(fb[0]) != "if task.cancelled():\n    continue" or not isinstance(fb[1], ast.Try):
        raise TranslatorError("_send_loop: loop body changed")
    tr = fb[1]
    if [_u(s) for s in tr.body] != ["response = _encode_body(await task)",
                                     "await _send_stream_message(self.writer, call_id, response)"]:
        raise TranslatorError("_send_loop: the reply is not sent with the call id of the completed task")
    hs = [(_except_names(h), [_u(s) for s in h.body]) for h in tr.handlers]
    want_h = [(["ConnectionError"], ["self._stop_event.set()", "return"]),
              (["Exception"], ["with contextlib.suppress(ConnectionError):\n"
                               "    await _send_stream_message(self.writer, call_id, None)", "raise"])]
    if hs != want_h or tr.orelse or tr.finalbody:
        raise TranslatorError("_send_loop: error branches changed")
    # _send_stream_message / _iter_stream_messages
    ssm = find_function(tree, "_send_stream_message")
    if [_u(s) for s in body_without_docstring(ssm)] != ["writer.write(_encode_message(call_id, body))",
                                                         "await writer.drain()"]:
        raise TranslatorError("_send_stream_message: shape changed")
    ism = find_function(tree, "_iter_stream_messages")
    text = _u(ast.Module(body=body_without_docstring(ism), type_ignores=[]))
    want = ("messages = iter_until_stopped(partial(_recv_stream_message, reader), stop_event)\n"
            "async with contextlib.aclosing(messages):\n"
            "    async for message in messages:\n"
            "        if message is None:\n"
            "            stop_event.set()\n"
            "            return\n"
            "        yield message")
    if text != want:
        raise TranslatorError("_iter_stream_messages: shape changed")
    srv = find_function(cls, "serve")
    text = _u(ast.Module(body=body_without_docstring(srv), type_ignores=[]))
    if "task_group.create_task(self._recv_loop(), name='server-rpc-recv-loop')" not in text or \
            "task_group.create_task(self._send_loop(), name='server-rpc-send-loop')" not in text or \
            "async with asyncio.TaskGroup() as task_group" not in text:
        raise TranslatorError("RPCServerConnection.serve: the two loops are not run in one TaskGroup")
    return none_rule, "RIFromRequest", translate_completed_queue(tree, cls), translate_connection_state(tree, cls)


PER_CONNECTION_FIELDS = ("_stop_event", "_completed", "_tasks")


def translate_connection_state(tree, cls):
    """Is the mutable state of a connection created per instance?

    True iff (a) each of _stop_event / _completed / _tasks of RPCServerConnection is an `attrs.field(init=False,
    factory=...)` (no constructor argument can supply it), every other field of the class is one of handler / reader /
    writer, and (b) the only place that builds a connection, SocketRPCServer._serve_connection, calls
    `RPCServerConnection(self.handler, reader, writer)` with nothing else. False (generated, so that the
    non-interference theorem is refuted rather than the translator failing) when a state field is an init argument or
    the server passes more than handler, reader, writer. Unknown shapes fail closed."""
    per_instance = True
    seen = set()
    for st in cls.body:
        if not (isinstance(st, ast.AnnAssign) and isinstance(st.target, ast.Name)):
            continue
        name = st.target.id
        seen.add(name)
        if name in ("handler", "reader", "writer"):
            continue
        if name not in PER_CONNECTION_FIELDS:
            raise TranslatorError(f"RPCServerConnection: unknown field {name}")
        if not isinstance(st.value, ast.Call) or _u(st.value.func) != "attrs.field" or st.value.args:
            raise TranslatorError(f"RPCServerConnection.{name}: field definition not recognised")
        kw = {k.arg: k.value for k in st.value.keywords}
        if "factory" not in kw or set(kw) - {"init", "factory"}:
            raise TranslatorError(f"RPCServerConnection.{name}: attrs.field arguments not recognised")
        if "init" not in kw or _u(kw["init"]) != "False":
            per_instance = False          # the creator of the connection may hand in a shared object
    if not set(PER_CONNECTION_FIELDS) <= seen:
        raise TranslatorError("RPCServerConnection: a per-connection state field is missing")
    srv = None
    for node in tree.body:
        if isinstance(node, ast.ClassDef) and node.name == "SocketRPCServer":
            srv = node
    if srv is None:
        raise TranslatorError("class SocketRPCServer not found")
    builds = [n for n in ast.walk(tree) if isinstance(n, ast.Call) and _u(n.func) == "RPCServerConnection"]
    sc = find_function(srv, "_serve_connection")
    inside = [n for n in ast.walk(sc) if isinstance(n, ast.Call) and _u(n.func) == "RPCServerConnection"]
    if len(builds) != 1 or len(inside) != 1:
        raise TranslatorError("RPCServerConnection is not built exactly once, in SocketRPCServer._serve_connection")
    call = inside[0]
    if [_u(a) for a in call.args[:3]] != ["self.handler", "reader", "writer"]:
        raise TranslatorError("_serve_connection: connection arguments not recognised: " + _u(call)[:120])
    if len(call.args) > 3 or call.keywords:
        per_instance = False
    return per_instance


def translate_completed_queue(tree, cls):
    """The capacity of RPCServerConnection._completed (the replies waiting for the send loop).

    `_queue_reply` runs in a done callback and uses `put_nowait`: on a bounded queue that raises QueueFull where nobody
    sees it and the reply is lost. Returns None for an unbounded queue (`factory=asyncio.Queue`, or maxsize <= 0), the
    bound for `factory=partial(asyncio.Queue, K)` / `partial(asyncio.Queue, maxsize=K)` / `lambda: asyncio.Queue(K)`
    with K a constant integer expression over module-level integer constants; any other shape fails closed."""
    fields = [st for st in cls.body if isinstance(st, ast.AnnAssign) and isinstance(st.target, ast.Name)
              and st.target.id == "_completed"]
    if len(fields) != 1 or not isinstance(fields[0].value, ast.Call) or _u(fields[0].value.func) != "attrs.field":
        raise TranslatorError("RPCServerConnection._completed: field definition not recognised")
    kw = {k.arg: k.value for k in fields[0].value.keywords}
    if fields[0].value.args or set(kw) != {"init", "factory"} or _u(kw["init"]) != "False":
        raise TranslatorError("RPCServerConnection._completed: attrs.field arguments changed: " + _u(fields[0].value)[:120])
    for node in ast.walk(tree):   # nobody may replace the queue afterwards
        if isinstance(node, (ast.Assign, ast.AugAssign, ast.AnnAssign)) and node is not fields[0]:
            targets = node.targets if isinstance(node, ast.Assign) else [node.target]
            if any(_u(t).endswith("._completed") for t in targets):
                raise TranslatorError("RPCServerConnection._completed is assigned outside its field definition")
    ints = {}
    for st in tree.body:
        if isinstance(st, ast.Assign) and len(st.targets) == 1 and isinstance(st.targets[0], ast.Name):
            try:
                ints[st.targets[0].id] = _eval_int(st.value, ints)
            except TranslatorError:
                pass
    fac = kw["factory"]
    if _u(fac) == "asyncio.Queue":
        return None
    call = None
    if isinstance(fac, ast.Call) and _u(fac.func) in ("partial", "functools.partial") and fac.args \
            and _u(fac.args[0]) == "asyncio.Queue":
        call = (fac.args[1:], fac.keywords)
    elif isinstance(fac, ast.Lambda) and not fac.args.args and isinstance(fac.body, ast.Call) \
            and _u(fac.body.func) == "asyncio.Queue":
        call = (fac.body.args, fac.body.keywords)
    if call is None:
        raise TranslatorError("RPCServerConnection._completed: factory is not asyncio.Queue: " + _u(fac)[:120])
    args, kws = call
    if len(args) + len(kws) != 1 or (kws and kws[0].arg != "maxsize"):
        raise TranslatorError("RPCServerConnection._completed: queue arguments not recognised: " + _u(fac)[:120])
    bound = _eval_int(args[0] if args else kws[0].value, ints)
    return None if bound <= 0 else bound


def translate_clients(tree):
    """Async client: pop by id, unknown id raises, finally fails all pending. Sync: id compared."""
    cls = None
    for node in tree.body:
        if isinstance(node, ast.ClassDef) and node.name == "SocketAsyncRPCClient":
            cls = node
    if cls is None:
        raise TranslatorError("class SocketAsyncRPCClient not found")
    rl = find_function(cls, "_recv_loop")
    text = _u(ast.Module(body=body_without_docstring(rl), type_ignores=[]))
    want = ("responses = _iter_stream_messages(self._reader, self._stop_event)\n"
            "try:\n"
            "    async with contextlib.aclosing(responses):\n"
            "        async for call_id, response in responses:\n"
            "            pending = self._pending.pop(call_id, None)\n"
            "            if pending is None:\n"
            "                raise RPCError(f'Received a response for unknown call id {call_id}.')\n"
            "            if not pending.future.cancelled():\n"
            "                pending.future.set_result(response)\n"
            "finally:\n"
            "    while self._pending:\n"
            "        _, pending = self._pending.popitem()\n"
            "        if not pending.future.cancelled():\n"
            "            pending.future.set_exception(ConnectionResetError(f'RPC connection lost while calling {pending.call}'))")
    if text != want:
        raise TranslatorError("SocketAsyncRPCClient._recv_loop: shape changed")
    call = find_function(cls, "__call__")
    ctext = _u(call)
    for needle in ("call_id = self._next_call_id()", "self._pending[call_id] = _PendingCall(call, future)",
                   "await _send_stream_message(self._writer, call_id, request)",
                   "return _decode_response(await future, call, server_log_description=self.server_log_description)"):
        if needle not in ctext:
            raise TranslatorError(f"SocketAsyncRPCClient.__call__: missing `{needle}`")
    st = None
    for node in tree.body:
        if isinstance(node, ast.ClassDef) and node.name == "_SocketClientState":
            st = node
    nid = find_function(st, "_next_call_id")
    if [_u(s) for s in body_without_docstring(nid)] != ["self._counter += 1", "return self._counter"]:
        raise TranslatorError("_next_call_id: shape changed")
    sync = None
    for node in tree.body:
        if isinstance(node, ast.ClassDef) and node.name == "SocketSyncRPCClient":
            sync = node
    rr = find_function(sync, "_recv_response")
    b = body_without_docstring(rr)
    if len(b) != 3 or _u(b[0]) != "call_id, body = _recv_socket_message(self._reader)" \
            or not _u(b[1]).startswith("if call_id != expected_call_id:\n    raise RPCError(") \
            or _u(b[2]) != "return body":
        raise TranslatorError("SocketSyncRPCClient._recv_response: shape changed")
    sc = _u(find_function(sync, "__call__"))
    for needle in ("call_id = self._next_call_id()", "_send_socket_message(sock, call_id, request)",
                   "response = self._recv_response(call_id)"):
        if needle not in sc:
            raise TranslatorError(f"SocketSyncRPCClient.__call__: missing `{needle}`")


def director_allow_list():
    tree = parse_module(DIRECTOR)
    cls = None
    for node in tree.body:
        if isinstance(node, ast.ClassDef) and node.name == "DirectorHandler":
            cls = node
    if cls is None:
        raise TranslatorError("class DirectorHandler not found")
    allowed, other = [], []
    for st in cls.body:
        if isinstance(st, (ast.FunctionDef, ast.AsyncFunctionDef)):
            decos = [_u(d) for d in st.decorator_list]
            if "allow_rpc" in decos:
                if decos != ["allow_rpc"]:
                    raise TranslatorError(f"DirectorHandler.{st.name}: decorators {decos}")
                allowed.append(st.name)
            else:
                if any("rpc" in d.lower() for d in decos):
                    raise TranslatorError(f"DirectorHandler.{st.name}: unrecognised decorator {decos}")
                other.append(st.name)
        elif isinstance(st, (ast.Assign, ast.AnnAssign)):
            if "allow_rpc" in _u(st):
                raise TranslatorError("DirectorHandler: allow_rpc used outside a decorator")
    if cls.bases:
        raise TranslatorError("DirectorHandler has base classes (inherited procedures are not scanned)")
    # the marker attribute must not be touched anywhere else in the package
    for path in sorted((REPO / "stepup").rglob("*.py")):
        text = path.read_text()
        n = text.count("_allow_rpc")
        if path.name == "rpc.py" and path.parent.name == "core":
            if n != 2:
                raise TranslatorError(f"rpc.py mentions _allow_rpc {n} times (expected 2)")
        elif n:
            raise TranslatorError(f"{path.relative_to(REPO)} touches the _allow_rpc marker")
    if len(set(allowed)) != len(allowed):
        raise TranslatorError("DirectorHandler: duplicate method names")
    return allowed, other


def _exc(name):
    return "ERPCError" if name == "RPCError" else "EOtherError"


def generate():
    tree = parse_module(RPC)
    env = module_constants(tree)
    enc = translate_encode(tree, env)
    dec, cmp_ = translate_decode(tree, env)
    gone = translate_recv_functions(tree)
    steps = translate_call_procedure(tree)
    cap = translate_capture(tree)
    usage, te_steps = translate_remote_failure(tree)
    rr = translate_raise_remote(tree)
    none_rule, rid, qbound, per_instance = translate_server_loops(tree)
    translate_clients(tree)
    allowed, other = director_allow_list()

    def cp(s):
        k, e = s
        return k if e is None else f"{k} {_exc(e)}"

    def opt(x):
        return "None" if x is None else f"(Some {x}%nat)"
    lines = [
        "(* GENERATED by translator/gen_rpc.py from /repo -- do not edit *)",
        "From Coq Require Import List NArith.",
        "From SV Require Import lib.Bytes.",
        "From SV Require Import lib.RpcTypes.",
        "Import ListNotations.",
        "Open Scope N_scope.",
        f"Definition FIELD_SIZE : nat := {env['FIELD_SIZE']}%nat.",
        f"Definition HEADER_SIZE : nat := {env['HEADER_SIZE']}%nat.",
        f"Definition MAX_BODY_SIZE : N := {env['MAX_BODY_SIZE']}.",
        "(* _encode_message: header = concatenation of (field, width, byte order) *)",
        "Definition enc_layout : list (hfield * nat * byteorder) := ["
        + "; ".join(f"({f}, {w}%nat, {o})" for f, w, o in enc) + "].",
        "(* _decode_header: field = int.from_bytes(header[lo:hi], order) *)",
        "Definition dec_layout : list (hfield * nat * option nat * byteorder) := ["
        + "; ".join(f"({f}, {lo}%nat, {opt(hi)}, {o})" for f, lo, hi, o in dec) + "].",
        f"(* _decode_header rejects when size <cmp> MAX_BODY_SIZE *)",
        f"Definition oversize_cmp : cmpop := {cmp_}.",
        f"(* _recv_stream_message returns None (peer gone) on: {', '.join(gone)} *)",
        "(* empty body: encoded with size 0 and no body bytes; size 0 is read back as None (both transports) *)",
        "Definition call_procedure_steps : list cp_step := [" + "; ".join(cp(s) for s in steps) + "].",
        f"Definition capture_clause : capture := {cap}.",
        f"Definition usage_flag_rule : usage_rule := {usage}.",
        "Definition to_exception_steps : list te_step := [" + "; ".join(te_steps) + "].",
        "Definition raise_remote_conds : list rr_cond := [" + "; ".join(rr) + "].",
        f"Definition server_none_rule : none_rule := {none_rule}.",
        "Definition client_none_rule : none_rule := NoneIsError.",
        f"Definition reply_id_source : reply_id_rule := {rid}.",
        "(* capacity of RPCServerConnection._completed; None = unbounded. _queue_reply uses put_nowait in a done",
        "   callback: on a full queue the reply is lost *)",
        f"Definition completed_maxsize : option nat := {opt(qbound)}.",
        "(* _stop_event/_completed/_tasks of a connection are created per instance (init=False factories) and",
        "   SocketRPCServer._serve_connection passes handler, reader, writer only *)",
        f"Definition connection_state_per_instance : bool := {'true' if per_instance else 'false'}.",
        "(* @allow_rpc methods of DirectorHandler *)",
        "Definition director_allowed : list str := [",
        ";\n".join(f"  {coq_str(n)} (* {n} *)" for n in allowed),
        "].",
        "(* the other methods of DirectorHandler *)",
        "Definition director_not_allowed : list str := [",
        ";\n".join(f"  {coq_str(n)} (* {n} *)" for n in other),
        "].",
        "",
    ]
    facts = {"env": env, "enc": enc, "dec": dec, "cmp": cmp_, "gone": gone, "steps": steps, "capture": cap,
             "usage": usage, "te_steps": te_steps, "rr": rr, "allowed": allowed, "other": other}
    return "\n".join(lines), facts


if __name__ == "__main__":
    print(generate()[0])
