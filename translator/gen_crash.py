"""Translator for C05: the structural facts of the source that the crash model relies on.

Fail closed: every function is matched against the exact statement shape the model was written
for; anything else raises TranslatorError.  Output: coq/gen/GenCrash.v (definitions only).

Facts extracted
  trellis.py   Trellis.initialize: apply_schema is awaited BEFORE the first transaction; inside the
               transaction either (shape A) `if is_fresh: create root else: find root; rebuild;
               check`, or (shape B) the not-fresh branch first looks the root up and falls back to
               the fresh branch when it is missing  ->  open_creates_missing_root
  builder.py   Builder.finalize, cleanup branch: the ordered list of
               1 = `await revert_optional_steps(...)` (opens its own transaction: checked in
               finalize.py), 2 = `async with self.db: self.workflow.delete_detached()`,
               3 = `await remove_deletable_files(...)` outside any transaction
  workflow.py  Workflow.to_be_deleted is an attrs field with a dict factory (memory only) and no
               persistent table of the schemas mentions it
  finalize.py  remove_deletable_files opens no transaction and ends with to_be_deleted.clear()
  executor.py  Executor.execute_job: 1 = transaction {reset_for_rerun}, 2 = _run_command,
               3 = _compute_full_step_hash, 4 = transaction {update_file_hashes, mark_completed}
  startup.py   reset_interrupted_steps: the two UPDATEs (new state, old state) and the FAILED loop;
               rescan_files: the cause chosen for an UNCONFIRMED row
  director.py  serve(): _wire_director (initialize) -> initialize_boot -> resume_from_db
  startup.py   the TRANSACTION STRUCTURE of the rescans: for rescan_env_vars and rescan_nglobs the list
               of `async with workflow.db` blocks, each a list of statement codes (every statement
               inside a block must be recognised; no database call or mark_step_pending may stand
               outside a block); workflow.py persist_nglob_matches (statement order, no transaction
               of its own); executor.py _run_hash_job (one transaction that applies the result with
               update_file_hashes, guarded by "changed or CONFIRMED"); rescan_files (one reading
               block, hashes gathered outside any transaction)
"""
from __future__ import annotations

import ast

import re

from .astutil import REPO, TranslatorError, body_without_docstring, find_function, parse_module

CORE = "stepup/core"


def _name(node) -> str:
    try:
        return ast.unparse(node)
    except Exception as exc:  # noqa: BLE001
        raise TranslatorError(f"cannot unparse {node!r}: {exc}") from exc


def _is_db_with(stmt) -> bool:
    return (isinstance(stmt, ast.AsyncWith) and len(stmt.items) == 1
            and _name(stmt.items[0].context_expr) in ("self.db", "db", "workflow.db"))


def _await_call(stmt) -> str | None:
    """`await f(...)` or `x = await f(...)` -> dotted name of f."""
    value = None
    if isinstance(stmt, ast.Expr):
        value = stmt.value
    elif isinstance(stmt, ast.Assign) and len(stmt.targets) == 1:
        value = stmt.value
    if isinstance(value, ast.Await) and isinstance(value.value, ast.Call):
        return _name(value.value.func)
    return None


def _calls_in(node) -> list:
    return [_name(n.func) for n in ast.walk(node) if isinstance(n, ast.Call)]


# -- Trellis.initialize -----------------------------------------------------------------------


def trellis_initialize() -> tuple[bool, bool]:
    tree = parse_module(f"{CORE}/trellis.py")
    fn = find_function(tree, "initialize", "Trellis")
    body = body_without_docstring(fn)
    idx_schema = [i for i, s in enumerate(body) if "self.db.apply_schema" in _calls_in(s)
                  and not _is_db_with(s)]
    idx_txn = [i for i, s in enumerate(body) if _is_db_with(s)]
    if len(idx_schema) != 1 or len(idx_txn) != 1:
        raise TranslatorError("Trellis.initialize: expected one apply_schema call and one transaction")
    schema_first = idx_schema[0] < idx_txn[0]
    if any("apply_schema" in c for c in _calls_in(body[idx_txn[0]])):
        raise TranslatorError("Trellis.initialize: apply_schema inside the transaction")
    inner = body[idx_txn[0]].body
    src = [_name(s) for s in inner]
    shape_a = (len(inner) == 1 and isinstance(inner[0], ast.If) and _name(inner[0].test) == "is_fresh"
               and [_name(s) for s in inner[0].body] == ["self._root = self.create(Root, None)"]
               and [_name(s) for s in inner[0].orelse] == [
                   "self._root = self.find(Root, '')", "self._rebuild_temp_tables()",
                   "self._check_consistency()"])
    if shape_a:
        return schema_first, False
    # shape B: `if not is_fresh: root = find; if root is None: (raise if nodes exist); is_fresh = True`
    #          `if is_fresh: create root  else: rebuild; check`
    if (len(inner) == 2 and isinstance(inner[0], ast.If) and _name(inner[0].test) == "not is_fresh"
            and isinstance(inner[1], ast.If) and _name(inner[1].test) == "is_fresh"
            and [_name(s) for s in inner[1].body] == ["self._root = self.create(Root, None)"]
            and [_name(s) for s in inner[1].orelse] == ["self._rebuild_temp_tables()",
                                                        "self._check_consistency()"]):
        first = inner[0].body
        if (len(first) == 2 and _name(first[0]) == "self._root = self.find(Root, '')"
                and isinstance(first[1], ast.If) and _name(first[1].test) == "self._root is None"
                and _name(first[1].body[-1]) == "is_fresh = True" and not inner[0].orelse):
            return schema_first, True
    raise TranslatorError("Trellis.initialize: unrecognised transaction body: " + " | ".join(src)[:300])


# -- Builder.finalize -------------------------------------------------------------------------


def builder_finalize() -> list:
    tree = parse_module(f"{CORE}/builder.py")
    fn = find_function(tree, "finalize", "Builder")
    body = body_without_docstring(fn)
    chain = [s for s in body if isinstance(s, ast.If)]
    if len(chain) != 1:
        raise TranslatorError("Builder.finalize: expected one guard chain")
    node = chain[0]
    while node.orelse and len(node.orelse) == 1 and isinstance(node.orelse[0], ast.If):
        node = node.orelse[0]
    cleanup = node.orelse
    if not cleanup:
        raise TranslatorError("Builder.finalize: no cleanup branch")
    seq = []
    for stmt in cleanup:
        if _is_db_with(stmt):
            inner = [_name(s) for s in stmt.body]
            if inner != ["self.workflow.delete_detached()"]:
                raise TranslatorError(f"Builder.finalize: unexpected transaction body {inner}")
            seq.append(2)
        else:
            callee = _await_call(stmt)
            if callee == "revert_optional_steps":
                seq.append(1)
            elif callee == "remove_deletable_files":
                seq.append(3)
            else:
                raise TranslatorError(f"Builder.finalize: unexpected cleanup statement {_name(stmt)[:80]}")
    # nothing of the cleanup may run before the guard chain
    for stmt in body[: body.index(chain[0])]:
        for c in _calls_in(stmt):
            if c in ("revert_optional_steps", "remove_deletable_files", "self.workflow.delete_detached"):
                raise TranslatorError("Builder.finalize: cleanup call outside the guarded branch")
    return seq


def finalize_module() -> tuple[int, bool, bool]:
    """(#transactions opened by revert_optional_steps, remove_deletable_files opens none,
    remove_deletable_files ends by clearing the queue)."""
    tree = parse_module(f"{CORE}/finalize.py")
    rev = find_function(tree, "revert_optional_steps")
    ntxn = sum(1 for n in ast.walk(rev) if _is_db_with(n))
    queued_inside = any(_is_db_with(n) and "workflow.to_be_deleted.update" in _calls_in(n)
                        for n in ast.walk(rev))
    if not queued_inside:
        raise TranslatorError("revert_optional_steps: the queue is not filled inside its transaction")
    rem = find_function(tree, "remove_deletable_files")
    rem_txn = sum(1 for n in ast.walk(rem) if isinstance(n, ast.AsyncWith))
    last = body_without_docstring(rem)[-1]
    clears = _name(last) == "workflow.to_be_deleted.clear()"
    for helper in ("_prune_empty_dirs", "_try_remove"):
        h = find_function(tree, helper)
        if any(isinstance(n, ast.AsyncWith) for n in ast.walk(h)):
            raise TranslatorError(f"{helper} opens a context")
    return ntxn, rem_txn == 0, clears


def queue_in_memory() -> bool:
    tree = parse_module(f"{CORE}/workflow.py")
    found = False
    for node in ast.walk(tree):
        if isinstance(node, ast.ClassDef) and node.name == "Workflow":
            for stmt in node.body:
                if (isinstance(stmt, ast.AnnAssign) and isinstance(stmt.target, ast.Name)
                        and stmt.target.id == "to_be_deleted"):
                    val = _name(stmt.value) if stmt.value is not None else ""
                    if "attrs.field" in val and "factory=dict" in val:
                        found = True
                    else:
                        raise TranslatorError(f"Workflow.to_be_deleted: unexpected definition {val}")
    if not found:
        raise TranslatorError("Workflow.to_be_deleted not found")
    # no persistent table carries the queue: the only SQL identifier containing the name is the
    # TEMP table optional_to_be_deleted of finalize.py
    for rel in ("trellis.py", "workflow.py", "file.py", "step.py", "static_tree.py", "scheduler.py",
                "finalize.py"):
        path = REPO / CORE / rel
        if not path.exists():
            raise TranslatorError(f"{rel} not found")
        text = path.read_text()
        for m in re.finditer(r"CREATE\s+(TEMP\s+)?TABLE\s+(IF NOT EXISTS\s+)?(\w+)", text):
            if "to_be_deleted" in m.group(3) and not m.group(1):
                return False
    return True


# -- Executor.execute_job ---------------------------------------------------------------------


def execute_job() -> list:
    tree = parse_module(f"{CORE}/executor.py")
    fn = find_function(tree, "execute_job", "Executor")
    seq = []
    for stmt in body_without_docstring(fn):
        if _is_db_with(stmt):
            calls = _calls_in(stmt)
            if "step.reset_for_rerun" in calls and "step.mark_completed" not in calls:
                seq.append(1)
            elif "step.mark_completed" in calls and "self.workflow.update_file_hashes" in calls \
                    and "step.reset_for_rerun" not in calls:
                seq.append(4)
            else:
                raise TranslatorError(f"execute_job: unexpected transaction {calls}")
        else:
            callee = _await_call(stmt)
            if callee == "self._run_command":
                seq.append(2)
            elif callee == "self._compute_full_step_hash":
                seq.append(3)
            else:
                for c in _calls_in(stmt):
                    if c in ("step.reset_for_rerun", "step.mark_completed", "self._run_command",
                             "self.workflow.update_file_hashes", "step.store_hash"):
                        raise TranslatorError(f"execute_job: {c} outside the recognised positions")
    return seq


# -- startup ----------------------------------------------------------------------------------


def startup_facts() -> tuple[list, bool, str]:
    tree = parse_module(f"{CORE}/startup.py")
    fn = find_function(tree, "reset_interrupted_steps")
    updates = []
    for node in ast.walk(fn):
        if isinstance(node, ast.Call) and _name(node.func) == "db.execute" and node.args:
            sql = node.args[0]
            if isinstance(sql, ast.Constant) and sql.value == "UPDATE step SET state = ? WHERE state = ?":
                pair = node.args[1]
                if not (isinstance(pair, ast.Tuple) and len(pair.elts) == 2):
                    raise TranslatorError("reset_interrupted_steps: unexpected UPDATE arguments")
                names = [_name(e) for e in pair.elts]
                for n in names:
                    if not (n.startswith("StepState.") and n.endswith(".value")):
                        raise TranslatorError(f"reset_interrupted_steps: unexpected state {n}")
                updates.append((names[0].split(".")[1], names[1].split(".")[1]))
            else:
                raise TranslatorError("reset_interrupted_steps: unexpected SQL")
    src = _name(fn)
    failed_loop = ("failed_steps = workflow.steps(StepState.FAILED)" in src
                   and "for step in failed_steps:\n                workflow.mark_step_pending(step)" in src)
    rs = find_function(tree, "rescan_files")
    cause = None
    for node in ast.walk(rs):
        if isinstance(node, ast.IfExp) and "FileState.UNCONFIRMED" in _name(node.test):
            if _name(node.test) != "FileState(state) == FileState.UNCONFIRMED":
                raise TranslatorError("rescan_files: unexpected cause test")
            cause = (_name(node.body), _name(node.orelse))
    if cause is None:
        raise TranslatorError("rescan_files: cause selection not found")
    order = [c for c in _calls_in(find_function(tree, "resume_from_db"))]
    want = ["reset_interrupted_steps", "watch_known_dirs", "rescan_env_vars", "rescan_files", "rescan_nglobs"]
    if [c for c in order if c in want] != want:
        raise TranslatorError(f"resume_from_db: unexpected order {order}")
    return updates, failed_loop, cause[0] + "/" + cause[1]


# -- transaction structure of the rescans -----------------------------------------------------


def _db_calls(node) -> list:
    """Dotted names of the calls under ``node`` that touch the database or mark steps."""
    out = []
    for c in _calls_in(node):
        if (".db.execute" in c or c.startswith("db.execute") or "mark_step_pending" in c
                or "persist_nglob_matches" in c or "update_file_hashes" in c or "delete_hash" in c
                or "nglob_registrations" in c):
            out.append(c)
    return out


def _blocks_of(fn, classify, what: str) -> list:
    """The `async with <db>` blocks of ``fn`` in source order (a block may sit under one `if` guard
    or more), each as the list of codes ``classify`` gives to its statements.  Anything touching
    the database outside a block is an error."""
    blocks = []

    def walk(stmts, depth):
        for stmt in stmts:
            if _is_db_with(stmt):
                codes = []
                for inner in stmt.body:
                    code = classify(inner)
                    if code is None:
                        raise TranslatorError(f"{what}: unrecognised statement inside a transaction: "
                                              f"{_name(inner)[:120]}")
                    codes.append(code)
                blocks.append(codes)
            elif isinstance(stmt, ast.If) and any(isinstance(n, ast.AsyncWith) for n in ast.walk(stmt)):
                if stmt.orelse:
                    raise TranslatorError(f"{what}: transaction under an if/else")
                walk(stmt.body, depth + 1)
            else:
                if any(isinstance(n, ast.AsyncWith) for n in ast.walk(stmt)):
                    raise TranslatorError(f"{what}: transaction nested in {type(stmt).__name__}")
                bad = _db_calls(stmt)
                if bad:
                    raise TranslatorError(f"{what}: {bad} outside any transaction")
    walk(body_without_docstring(fn), 0)
    return blocks


def rescan_env_vars_blocks() -> list:
    """1 = SELECT the env_var rows of attached steps; 2 = mark_step_pending for the steps to rerun;
    3 = UPDATE env_var SET value = ? WHERE node = ? AND name = ?."""
    tree = parse_module(f"{CORE}/startup.py")
    fn = find_function(tree, "rescan_env_vars")
    sqls = [n.value for n in ast.walk(fn) if isinstance(n, ast.Assign) and len(n.targets) == 1
            and _name(n.targets[0]) == "sql"]
    if len(sqls) != 1:
        raise TranslatorError("rescan_env_vars: expected one sql text")
    text = " ".join("".join(_strs(sqls[0])).split())
    if text != ("SELECT node, label, name, value FROM env_var JOIN node ON env_var.node = node.i "
                "WHERE NOT node.detached"):
        raise TranslatorError(f"rescan_env_vars: unexpected SELECT: {text}")

    def classify(stmt):
        t = _name(stmt)
        if t == "env_var_uses = workflow.db.execute(sql).fetchall()":
            return 1
        if t == "for step in steps_to_rerun.values():\n    workflow.mark_step_pending(step)":
            return 2
        if (isinstance(stmt, ast.Expr) and isinstance(stmt.value, ast.Call)
                and _name(stmt.value.func) == "workflow.db.executemany" and len(stmt.value.args) == 2
                and isinstance(stmt.value.args[0], ast.Constant)
                and stmt.value.args[0].value == "UPDATE env_var SET value = ? WHERE node = ? AND name = ?"):
            return 3
        return None
    return _blocks_of(fn, classify, "rescan_env_vars")


def rescan_env_vars_guards() -> list:
    """The in-memory comparison of rescan_env_vars, translated statement by statement: under which
    condition on a row (node, label, name, stored value) of the SELECT the loop (a) collects the step
    for mark_step_pending and (b) collects the row for the UPDATE.  The loop body is walked with its
    path condition: `if C: continue` adds `not C` to what follows, `if C: ...` adds `C` inside (and
    `not C` in the else branch); `a == b`, `a != b`, `not (...)` over the value now
    (`x = os.getenv(<name column>)`) and the stored value are normalised.  Codes: 1 = exactly "the
    value now differs from the stored value", 0 = unconditionally, 2 = "the values are equal",
    9 = anything else."""
    fn = find_function(parse_module(f"{CORE}/startup.py"), "rescan_env_vars")
    loops = [n for n in ast.walk(fn) if isinstance(n, ast.For) and _name(n.iter) == "env_var_uses"]
    if len(loops) != 1 or not isinstance(loops[0].target, ast.Tuple) or len(loops[0].target.elts) != 4:
        raise TranslatorError("rescan_env_vars: expected one loop `for node, label, name, value in env_var_uses`")
    node_v, label_v, name_v, old_v = (_name(e) for e in loops[0].target.elts)
    state = {"new": None}
    found = {}

    def norm(cond, positive=True):
        """('differs' | 'equal' | text)"""
        if isinstance(cond, ast.UnaryOp) and isinstance(cond.op, ast.Not):
            return norm(cond.operand, not positive)
        if isinstance(cond, ast.Compare) and len(cond.ops) == 1 and isinstance(cond.ops[0], (ast.Eq, ast.NotEq)):
            pair = {_name(cond.left), _name(cond.comparators[0])}
            if state["new"] is not None and pair == {state["new"], old_v}:
                eq = isinstance(cond.ops[0], ast.Eq)
                return "equal" if eq == positive else "differs"
        return ("" if positive else "not ") + _name(cond)

    def ends_in_continue(body):
        return len(body) > 0 and isinstance(body[-1], ast.Continue)

    def walk(stmts, conds):
        conds = list(conds)
        for stmt in stmts:
            t = _name(stmt)
            if isinstance(stmt, ast.Assign) and len(stmt.targets) == 1 and isinstance(stmt.targets[0], ast.Name) \
                    and _name(stmt.value) == f"os.getenv({name_v})":
                if state["new"] is not None or conds:
                    raise TranslatorError("rescan_env_vars: the value now is read twice or under a condition")
                state["new"] = stmt.targets[0].id
            elif isinstance(stmt, ast.If):
                if ends_in_continue(stmt.body):
                    walk(stmt.body[:-1], conds + [norm(stmt.test)])
                    if stmt.orelse:
                        walk(stmt.orelse, conds + [norm(stmt.test, False)])
                    conds.append(norm(stmt.test, False))
                else:
                    walk(stmt.body, conds + [norm(stmt.test)])
                    if ends_in_continue(stmt.orelse):
                        walk(stmt.orelse[:-1], conds + [norm(stmt.test, False)])
                        conds.append(norm(stmt.test))
                    elif stmt.orelse:
                        walk(stmt.orelse, conds + [norm(stmt.test, False)])
            elif isinstance(stmt, (ast.For, ast.While, ast.Try, ast.With, ast.AsyncWith, ast.Break, ast.Continue,
                                   ast.Return)):
                raise TranslatorError(f"rescan_env_vars: unexpected control flow in the comparison loop: {t[:60]}")
            elif t == f"steps_to_rerun[{node_v}] = Step(workflow, {node_v}, {label_v})":
                found.setdefault("mark", []).append(tuple(conds))
            elif state["new"] is not None and t == f"changed.append(({state['new']}, {node_v}, {name_v}))":
                found.setdefault("store", []).append(tuple(conds))
            elif "steps_to_rerun" in t or "changed" in t.replace("changed_", ""):
                raise TranslatorError(f"rescan_env_vars: unrecognised use of the collections: {t[:80]}")

    walk(loops[0].body, [])
    out = []
    for key in ("mark", "store"):
        gs = found.get(key, [])
        if len(gs) != 1:
            raise TranslatorError(f"rescan_env_vars: expected exactly one statement collecting for {key}, found {len(gs)}")
        g = gs[0]
        out.append(1 if g == ("differs",) else 0 if g == () else 2 if g == ("equal",) else 9)
    # what is marked and what is stored must be these two collections
    src = _name(fn)
    if "for step in steps_to_rerun.values():" not in src or "WHERE node = ? AND name = ?', changed)" not in src:
        raise TranslatorError("rescan_env_vars: the collections are not what is marked / stored")
    return out


def _strs(node):
    for n in ast.walk(node):
        if isinstance(n, ast.Constant) and isinstance(n.value, str):
            yield n.value


def rescan_nglobs_blocks() -> tuple[list, list]:
    """blocks: 1 = read the registrations, 2 = persist_nglob_matches for every changed registration;
    statements of Workflow.persist_nglob_matches: 1 = step.delete_hash, 2 = UPDATE nglob SET data,
    3 = mark_step_pending."""
    tree = parse_module(f"{CORE}/startup.py")
    fn = find_function(tree, "rescan_nglobs")

    def classify(stmt):
        t = _name(stmt)
        if t == "registrations = list(workflow.nglob_registrations())":
            return 1
        if t == ("for nglob_i, step, new_ng in changed_nglobs:\n"
                 "    workflow.persist_nglob_matches(nglob_i, step, new_ng)"):
            return 2
        return None
    blocks = _blocks_of(fn, classify, "rescan_nglobs")
    wtree = parse_module(f"{CORE}/workflow.py")
    pn = find_function(wtree, "persist_nglob_matches", "Workflow")
    if any(isinstance(n, (ast.AsyncWith, ast.With)) for n in ast.walk(pn)):
        raise TranslatorError("persist_nglob_matches opens a context")
    stmts = []
    for stmt in body_without_docstring(pn):
        t = _name(stmt)
        if t == "step.delete_hash()":
            stmts.append(1)
        elif t == "self.db.execute('UPDATE nglob SET data = ? WHERE i = ?', data)":
            stmts.append(2)
        elif t == "self.mark_step_pending(step)":
            stmts.append(3)
        elif t == "data = (json.dumps(json_converter.unstructure(ng)), nglob_i)":
            continue
        else:
            raise TranslatorError(f"persist_nglob_matches: unrecognised statement {t[:100]}")
    return blocks, stmts


def hash_job_structure() -> tuple[list, list]:
    """Executor._run_hash_job: its transactions (1 = update_file_hashes of the one path, guarded by
    the stale-confirmation test) and whether the transaction is guarded by `changed or CONFIRMED`;
    startup.rescan_files: its blocks (1 = SELECT of the rows to check)."""
    tree = parse_module(f"{CORE}/executor.py")
    fn = find_function(tree, "_run_hash_job", "Executor")
    txns = [n for n in ast.walk(fn) if _is_db_with(n)]
    out = []
    for t in txns:
        body = [_name(x) for x in t.body]
        if body != ["if not self._is_stale_confirmation(hash_job):\n"
                    "    self.workflow.update_file_hashes({hash_job.path: new_hash}, cause=hash_job.cause)"]:
            raise TranslatorError(f"_run_hash_job: unexpected transaction body {body}")
        out.append(1)
    guard_ok = False
    for node in ast.walk(fn):
        if isinstance(node, ast.If) and any(_is_db_with(x) for x in node.body):
            guard_ok = _name(node.test) == ("new_hash != hash_job.old_hash or "
                                            "hash_job.cause == HashUpdateCause.CONFIRMED")
    if not guard_ok:
        raise TranslatorError("_run_hash_job: the transaction is not guarded by `changed or CONFIRMED`")
    for c in _calls_in(fn):
        if "update_file_hashes" in c and len(txns) != 1:
            raise TranslatorError("_run_hash_job: expected exactly one transaction")
    # every update_file_hashes call is inside the transaction
    inside = sum(1 for t in txns for c in _calls_in(t) if "update_file_hashes" in c)
    total = sum(1 for c in _calls_in(fn) if "update_file_hashes" in c)
    if inside != total:
        raise TranslatorError("_run_hash_job: update_file_hashes outside its transaction")
    stree = parse_module(f"{CORE}/startup.py")
    rf = find_function(stree, "rescan_files")

    def classify(stmt):
        if _name(stmt) == "rows = workflow.db.execute(sql, data).fetchall()":
            return 1
        return None
    rblocks = _blocks_of(rf, classify, "rescan_files")
    src = _name(rf)
    if "new_hashes = await gather_hashes(builder.hash_queue, builder.executor, reporter, path_hash_causes, builder.njob)" not in src:
        raise TranslatorError("rescan_files: gather_hashes call not found")
    if "state NOT IN (?, ?) AND NOT detached" not in " ".join(_strs(rf)) or \
            "data = (FileState.PLANNED.value, FileState.VOLATILE.value)" not in src:
        raise TranslatorError("rescan_files: unexpected selection of rows")
    return out, rblocks


def serve_order() -> list:
    tree = parse_module(f"{CORE}/director.py")
    fn = find_function(tree, "serve")
    want = {"_wire_director": 1, "handler.workflow.initialize_boot": 2, "resume_from_db": 3,
            "handler.workflow.reconcile_targets": 4, "_run_tasks": 5}
    seq = []
    for stmt in body_without_docstring(fn):
        for node in ast.walk(stmt):
            if isinstance(node, ast.Call) and _name(node.func) in want:
                seq.append((node.lineno, node.col_offset, want[_name(node.func)]))
    return [c for _, _, c in sorted(seq)]


STATE = {"PENDING": 21, "RUNNING": 22, "SUCCEEDED": 23, "FAILED": 24, "CHECKING": 25}


def generate() -> str:
    schema_first, repair = trellis_initialize()
    seq = builder_finalize()
    ntxn, rem_no_txn, clears = finalize_module()
    mem = queue_in_memory()
    ej = execute_job()
    updates, failed_loop, cause = startup_facts()
    so = serve_order()
    env_blocks = rescan_env_vars_blocks()
    env_guards = rescan_env_vars_guards()
    ng_blocks, ng_stmts = rescan_nglobs_blocks()
    hj_txns, rf_blocks = hash_job_structure()

    def b(x):
        return "true" if x else "false"

    def nl(xs):
        return "[" + "; ".join(str(x) for x in xs) + "]"

    def nll(xss):
        return "[" + "; ".join(nl(xs) for xs in xss) + "]"

    upd = "[" + "; ".join(f"({STATE[a]}, {STATE[o]})" for a, o in updates) + "]"
    cause_code = {"HashUpdateCause.CONFIRMED/HashUpdateCause.EXTERNAL": 54}.get(cause)
    if cause_code is None:
        raise TranslatorError(f"rescan_files: unexpected causes {cause}")
    return f"""(* GENERATED by translator/gen_crash.py from {CORE}/trellis.py, builder.py, finalize.py,
   workflow.py, executor.py, startup.py, director.py.  Do not edit. *)
From Coq Require Import List NArith Bool.
Import ListNotations.
Open Scope N_scope.

(* Trellis.initialize: the schema is applied (autocommit) before the first transaction *)
Definition schema_before_first_transaction : bool := {b(schema_first)}.
(* ... and the not-fresh branch creates the root node when it is missing *)
Definition open_creates_missing_root : bool := {b(repair)}.

(* Builder.finalize, cleanup branch, in source order:
   1 = await revert_optional_steps (own transaction), 2 = async with db: delete_detached,
   3 = await remove_deletable_files (no transaction) *)
Definition cleanup_sequence : list N := {nl(seq)}.
Definition revert_optional_transactions : N := {ntxn}.
Definition removal_outside_transaction : bool := {b(rem_no_txn)}.
Definition removal_clears_queue : bool := {b(clears)}.
(* Workflow.to_be_deleted is a dict attribute; no persistent table stores it *)
Definition queue_in_memory_only : bool := {b(mem)}.

(* Executor.execute_job: 1 = txn(reset_for_rerun), 2 = _run_command,
   3 = _compute_full_step_hash, 4 = txn(update_file_hashes + mark_completed) *)
Definition execute_job_sequence : list N := {nl(ej)}.

(* startup.reset_interrupted_steps: UPDATE step SET state = fst WHERE state = snd, in order,
   then mark_step_pending for workflow.steps(FAILED) *)
Definition reset_interrupted_updates : list (N * N) := {upd}.
Definition reset_interrupted_failed_loop : bool := {b(failed_loop)}.
(* startup.rescan_files: cause used for a row found UNCONFIRMED *)
Definition rescan_unconfirmed_cause : N := {cause_code}.
(* director.serve: 1 = _wire_director (initialize), 2 = initialize_boot, 3 = resume_from_db,
   4 = reconcile_targets, 5 = _run_tasks *)
Definition serve_sequence : list N := {nl(so)}.

(* Transaction structure of the rescans of startup.resume_from_db: the `async with workflow.db`
   blocks in source order, each the list of its statements.
   rescan_env_vars: 1 = SELECT the env_var rows of attached steps, 2 = mark_step_pending for the
   steps with a changed variable, 3 = UPDATE env_var SET value = <seen now> for the changed rows *)
Definition rescan_env_vars_blocks : list (list N) := {nll(env_blocks)}.
(* the in-memory comparison, translated: under which condition a row's step is collected for
   mark_step_pending and the row for the UPDATE (1 = the value now differs from the stored value,
   0 = always, 2 = the values are equal, 9 = another condition) *)
Definition rescan_env_vars_guards : list N := {nl(env_guards)}.
(* rescan_nglobs: 1 = read the registrations, 2 = persist_nglob_matches for the changed ones;
   Workflow.persist_nglob_matches (no transaction of its own): 1 = Step.delete_hash,
   2 = UPDATE nglob SET data, 3 = mark_step_pending *)
Definition rescan_nglobs_blocks : list (list N) := {nll(ng_blocks)}.
Definition persist_nglob_statements : list N := {nl(ng_stmts)}.
(* rescan_files: 1 = SELECT the rows to check (hashes are gathered outside any transaction);
   Executor._run_hash_job: its transactions, 1 = update_file_hashes of the one path (stores the
   hash and marks the affected steps), guarded by `changed or CONFIRMED` *)
Definition rescan_files_blocks : list (list N) := {nll(rf_blocks)}.
Definition run_hash_job_transactions : list N := {nl(hj_txns)}.
"""


if __name__ == "__main__":
    print(generate())
