"""Translator for C13: stepup/core/hash.py -> coq/gen/GenHash.v (fail closed).

Read from the AST on every run:
  * HashWords.update          the marker bytes per word type, the payload (raw / UTF-8 / none)
  * HashWords._hash / digest  the hash function (must be hashlib.sha256) and its digest size
  * FileHash                  field order, unknown() constants, is_unknown, the skip test and the
                              three return paths of refreshed()
  * _update_file_hashes       the word sequence per file, in the restricted shape
                              "for k in sorted(m): v = m[k]; hw.update(e) ..."
  * StepHash.from_inp         sequence of hw.update(e), _update_file_hashes(hw, m) and
                              "for k, v in sorted(m.items()): hw.update(e) ..." loops
  * StepHash.with_out_hashes  the same restricted shape
Anything else raises TranslatorError.
"""

from __future__ import annotations

import ast

from .astutil import TranslatorError, body_without_docstring, find_function, parse_module

SRC = "stepup/core/hash.py"

# cfg field and Gallina "type" for every parameter of from_inp, keyed by (name, annotation text)
FROM_INP_PARAMS = {
    ("step_label", "str"): ("cfg_label c", "str"),
    ("inp_hashes", "Mapping[str, FileHash]"): ("cfg_inps c", "filemap"),
    ("env_values", "Mapping[str, str | None]"): ("cfg_envs c", "map:optstr"),
    ("shell", "bool"): ("cfg_shell c", "bool"),
    ("env_overrides", "Mapping[str, str] | None"): ("cfg_ovrs c", "map:str?"),
    ("explained", "bool"): (None, "ignored"),
}
FSIG_FIELDS = {"digest": ("fs_digest", "bytes"), "mode": ("fs_mode", "int"), "size": ("fs_size", "int")}
FILEHASH_FIELDS = ["digest", "mode", "mtime", "size", "inode"]
STAT_FIELDS = {"st_mode": "st_mode", "st_mtime": "st_mtime", "st_size": "st_size", "st_ino": "st_ino"}


def coq_bytes(b: bytes) -> str:
    return "[" + ";".join(str(x) for x in b) + "]%N"


def _is_name(node, name=None):
    return isinstance(node, ast.Name) and (name is None or node.id == name)


def _is_attr(node, attr, base=None):
    return (isinstance(node, ast.Attribute) and node.attr == attr
            and (base is None or _is_name(node.value, base)))


def _is_hw_update(stmt, hw="hw"):
    """`hw.update(e)` -> e, else None."""
    if (isinstance(stmt, ast.Expr) and isinstance(stmt.value, ast.Call)
            and _is_attr(stmt.value.func, "update", hw)
            and len(stmt.value.args) == 1 and not stmt.value.keywords):
        return stmt.value.args[0]
    return None


# ---------------------------------------------------------------------------------------------
# HashWords
# ---------------------------------------------------------------------------------------------


def translate_hashwords(tree):
    cls = next((n for n in ast.walk(tree) if isinstance(n, ast.ClassDef) and n.name == "HashWords"), None)
    if cls is None:
        raise TranslatorError("class HashWords not found")
    # the hash function
    hash_field = [s for s in cls.body if isinstance(s, (ast.Assign, ast.AnnAssign))]
    ok = False
    for s in hash_field:
        tgt = s.targets[0] if isinstance(s, ast.Assign) else s.target
        if _is_name(tgt, "_hash"):
            v = s.value
            fac = [k.value for k in getattr(v, "keywords", []) if k.arg == "factory"]
            if len(fac) == 1 and ast.unparse(fac[0]) == "hashlib.sha256":
                ok = True
    if not ok:
        raise TranslatorError("HashWords._hash is not attrs.field(factory=hashlib.sha256)")
    dig = find_function(cls, "digest")
    body = body_without_docstring(dig)
    if not (len(body) == 1 and isinstance(body[0], ast.Return)
            and ast.unparse(body[0].value) == "self._hash.digest()"):
        raise TranslatorError("HashWords.digest is not `return self._hash.digest()`")
    upd = find_function(cls, "update")
    if [a.arg for a in upd.args.args] != ["self", "word"]:
        raise TranslatorError("HashWords.update signature changed")
    body = body_without_docstring(upd)
    if len(body) != 1 or not isinstance(body[0], ast.If):
        raise TranslatorError("HashWords.update is not a single if/elif chain")
    markers = {}
    node = body[0]
    while True:
        test = ast.unparse(node.test)
        kind = {"isinstance(word, bytes)": "bytes", "isinstance(word, str)": "str", "word is None": "none"}.get(test)
        if kind is None or kind in markers:
            raise TranslatorError(f"HashWords.update: unrecognised test {test!r}")
        calls = []
        for s in node.body:
            if not (isinstance(s, ast.Expr) and isinstance(s.value, ast.Call)
                    and ast.unparse(s.value.func) == "self._hash.update" and len(s.value.args) == 1
                    and not s.value.keywords):
                raise TranslatorError(f"HashWords.update[{kind}]: statement is not self._hash.update(x)")
            calls.append(s.value.args[0])
        if not calls or not (isinstance(calls[0], ast.Constant) and isinstance(calls[0].value, bytes)):
            raise TranslatorError(f"HashWords.update[{kind}]: first update is not a bytes marker")
        payload = [ast.unparse(c) for c in calls[1:]]
        want = {"bytes": ["word"], "str": ["word.encode()"], "none": []}[kind]
        if payload != want:
            raise TranslatorError(f"HashWords.update[{kind}]: payload {payload} (expected {want})")
        markers[kind] = calls[0].value
        if len(node.orelse) == 1 and isinstance(node.orelse[0], ast.If):
            node = node.orelse[0]
            continue
        if not (len(node.orelse) == 1 and isinstance(node.orelse[0], ast.Raise)):
            raise TranslatorError("HashWords.update: final else is not a raise")
        break
    if set(markers) != {"bytes", "str", "none"}:
        raise TranslatorError(f"HashWords.update: word types handled: {sorted(markers)}")
    return markers


# ---------------------------------------------------------------------------------------------
# FileHash
# ---------------------------------------------------------------------------------------------


def translate_filehash(tree):
    cls = next((n for n in ast.walk(tree) if isinstance(n, ast.ClassDef) and n.name == "FileHash"), None)
    if cls is None:
        raise TranslatorError("class FileHash not found")
    fields, eq_false = [], []
    for s in cls.body:
        if isinstance(s, ast.AnnAssign) and isinstance(s.target, ast.Name):
            fields.append(s.target.id)
            kws = {k.arg: k.value for k in getattr(s.value, "keywords", [])}
            if "eq" in kws:
                if not (isinstance(kws["eq"], ast.Constant) and kws["eq"].value is False):
                    raise TranslatorError(f"FileHash.{s.target.id}: unrecognised eq= argument")
                eq_false.append(s.target.id)
    if fields != FILEHASH_FIELDS:
        raise TranslatorError(f"FileHash fields are {fields}, expected {FILEHASH_FIELDS}")
    if eq_false != ["mtime", "inode"]:
        raise TranslatorError(f"FileHash fields excluded from equality: {eq_false} (model: mtime, inode)")
    # unknown()
    unk = find_function(cls, "unknown")
    body = body_without_docstring(unk)
    if not (len(body) == 1 and isinstance(body[0], ast.Return) and isinstance(body[0].value, ast.Call)
            and _is_name(body[0].value.func, "cls") and len(body[0].value.args) == 5
            and all(isinstance(a, ast.Constant) for a in body[0].value.args)):
        raise TranslatorError("FileHash.unknown is not `return cls(<5 constants>)`")
    uvals = [a.value for a in body[0].value.args]
    if not isinstance(uvals[0], bytes) or any(v != 0 for v in uvals[1:]):
        raise TranslatorError(f"FileHash.unknown constants not recognised: {uvals}")
    # is_unknown
    isu = find_function(cls, "is_unknown")
    body = body_without_docstring(isu)
    if not (len(body) == 1 and isinstance(body[0], ast.Return) and isinstance(body[0].value, ast.Compare)
            and _is_attr(body[0].value.left, "digest", "self") and len(body[0].value.ops) == 1
            and isinstance(body[0].value.ops[0], ast.Eq)
            and isinstance(body[0].value.comparators[0], ast.Constant)
            and body[0].value.comparators[0].value == uvals[0]):
        raise TranslatorError("FileHash.is_unknown is not `return self.digest == <the unknown() digest>`")
    # refreshed
    ref = find_function(cls, "refreshed")
    body = body_without_docstring(ref)
    # [cancel check] path = Path(path); try: st = os.stat(path) except OSError: return ...; if (...): return self;
    # digest = compute_file_digest(path, ...); return self.__class__(digest, st.st_mode, ...)
    stmts = list(body)
    if stmts and isinstance(stmts[0], ast.If) and "cancel_event" in ast.unparse(stmts[0].test) \
            and len(stmts[0].body) == 1 and isinstance(stmts[0].body[0], ast.Raise) and not stmts[0].orelse:
        stmts = stmts[1:]
    if not (stmts and isinstance(stmts[0], ast.Assign) and ast.unparse(stmts[0]) == "path = Path(path)"):
        raise TranslatorError("FileHash.refreshed: expected `path = Path(path)`")
    stmts = stmts[1:]
    if not (len(stmts) == 4 and isinstance(stmts[0], ast.Try) and isinstance(stmts[1], ast.If)
            and isinstance(stmts[2], ast.Assign) and isinstance(stmts[3], ast.Return)):
        raise TranslatorError("FileHash.refreshed: body is not try/if/assign/return")
    tr = stmts[0]
    if not (len(tr.body) == 1 and ast.unparse(tr.body[0]) == "st = os.stat(path)" and len(tr.handlers) == 1
            and ast.unparse(tr.handlers[0].type) == "OSError" and not tr.orelse and not tr.finalbody
            and len(tr.handlers[0].body) == 1 and isinstance(tr.handlers[0].body[0], ast.Return)
            and ast.unparse(tr.handlers[0].body[0].value) == "self if self.is_unknown else self.unknown()"):
        raise TranslatorError("FileHash.refreshed: stat failure branch is not "
                              "`return self if self.is_unknown else self.unknown()`")
    skip = stmts[1]
    if not (len(skip.body) == 1 and isinstance(skip.body[0], ast.Return) and _is_name(skip.body[0].value, "self")
            and not skip.orelse):
        raise TranslatorError("FileHash.refreshed: skip branch is not `return self`")
    test = skip.test
    if not (isinstance(test, ast.BoolOp) and isinstance(test.op, ast.And)):
        raise TranslatorError("FileHash.refreshed: skip test is not a conjunction")
    pairs = []
    for cmp_ in test.values:
        if not (isinstance(cmp_, ast.Compare) and len(cmp_.ops) == 1 and isinstance(cmp_.ops[0], ast.Eq)
                and isinstance(cmp_.left, ast.Attribute) and _is_name(cmp_.left.value, "self")
                and isinstance(cmp_.comparators[0], ast.Attribute) and _is_name(cmp_.comparators[0].value, "st")):
            raise TranslatorError(f"FileHash.refreshed: skip test conjunct not `self.f == st.g`: {ast.unparse(cmp_)}")
        f, g = cmp_.left.attr, cmp_.comparators[0].attr
        if f not in FILEHASH_FIELDS or g not in STAT_FIELDS:
            raise TranslatorError(f"FileHash.refreshed: unknown fields in skip test: {f}, {g}")
        pairs.append((f, g))
    if not (ast.unparse(stmts[2].targets[0]) == "digest"
            and isinstance(stmts[2].value, ast.Call) and _is_name(stmts[2].value.func, "compute_file_digest")
            and stmts[2].value.args and _is_name(stmts[2].value.args[0], "path")):
        raise TranslatorError("FileHash.refreshed: digest is not compute_file_digest(path, ...)")
    ret = stmts[3].value
    if not (isinstance(ret, ast.Call) and ast.unparse(ret.func) == "self.__class__" and len(ret.args) == 5
            and not ret.keywords and _is_name(ret.args[0], "digest")
            and all(isinstance(a, ast.Attribute) and _is_name(a.value, "st") and a.attr in STAT_FIELDS
                    for a in ret.args[1:])):
        raise TranslatorError("FileHash.refreshed: result is not self.__class__(digest, st.a, st.b, st.c, st.d)")
    build = [a.attr for a in ret.args[1:]]
    return {"unknown_digest": uvals[0], "skip_pairs": pairs, "build": build}


# ---------------------------------------------------------------------------------------------
# word expressions
# ---------------------------------------------------------------------------------------------


def word_expr(e, env, where):
    """Gallina term of type `word` for the argument of hw.update.

    env maps Python variable names to (gallina term, type) with type in
    str | optstr | bool | fsig.
    """
    if isinstance(e, ast.Constant):
        if isinstance(e.value, str):
            if "\0" in e.value:
                raise TranslatorError(f"{where}: constant str word contains NUL")
            return f"WStr {coq_bytes(e.value.encode())}", ("const", e.value)
        if isinstance(e.value, bytes):
            return f"WBytes {coq_bytes(e.value)}", ("const", e.value)
        if e.value is None:
            return "WNone", ("const", None)
        raise TranslatorError(f"{where}: constant of unsupported type {type(e.value).__name__}")
    if isinstance(e, ast.Name):
        if e.id not in env:
            raise TranslatorError(f"{where}: unknown variable {e.id}")
        term, ty = env[e.id]
        if ty == "str":
            return f"WStr ({term})", ("var", e.id)
        if ty == "optstr":
            return f"opt_word ({term})", ("var", e.id)
        raise TranslatorError(f"{where}: variable {e.id} of type {ty} hashed directly")
    # bytes([int(b)])
    if (isinstance(e, ast.Call) and _is_name(e.func, "bytes") and len(e.args) == 1 and not e.keywords
            and isinstance(e.args[0], ast.List) and len(e.args[0].elts) == 1):
        inner = e.args[0].elts[0]
        if (isinstance(inner, ast.Call) and _is_name(inner.func, "int") and len(inner.args) == 1
                and _is_name(inner.args[0]) and env.get(inner.args[0].id, (None, None))[1] == "bool"):
            return f"WBytes [N.b2n ({env[inner.args[0].id][0]})]", ("bool", inner.args[0].id)
        raise TranslatorError(f"{where}: bytes([...]) of something else than int(<bool>)")
    # x.field.to_bytes(k)
    if (isinstance(e, ast.Call) and isinstance(e.func, ast.Attribute) and e.func.attr == "to_bytes"):
        tgt = e.func.value
        width = None
        if len(e.args) >= 1 and isinstance(e.args[0], ast.Constant) and isinstance(e.args[0].value, int) \
                and not isinstance(e.args[0].value, bool):
            width = e.args[0].value
        order = "big"
        if len(e.args) == 2 and isinstance(e.args[1], ast.Constant):
            order = e.args[1].value
        elif len(e.args) > 2:
            width = None
        for k in e.keywords:
            if k.arg == "byteorder" and isinstance(k.value, ast.Constant):
                order = k.value.value
            elif k.arg == "length" and isinstance(k.value, ast.Constant) and isinstance(k.value.value, int):
                width = k.value.value
            else:
                width = None
        if width is None or order != "big" or not (0 < width <= 64):
            raise TranslatorError(f"{where}: to_bytes is not fixed-width big-endian unsigned: {ast.unparse(e)}")
        if (isinstance(tgt, ast.Attribute) and _is_name(tgt.value) and env.get(tgt.value.id, (None, None))[1] == "fsig"
                and tgt.attr in FSIG_FIELDS and FSIG_FIELDS[tgt.attr][1] == "int"):
            return (f"WBytes (be_bytes {width} ({FSIG_FIELDS[tgt.attr][0]} {env[tgt.value.id][0]}))",
                    ("int", tgt.attr, width))
        raise TranslatorError(f"{where}: to_bytes of unsupported expression {ast.unparse(tgt)}")
    # x.digest
    if isinstance(e, ast.Attribute) and _is_name(e.value) and env.get(e.value.id, (None, None))[1] == "fsig":
        if e.attr in FSIG_FIELDS and FSIG_FIELDS[e.attr][1] == "bytes":
            return f"WBytes ({FSIG_FIELDS[e.attr][0]} {env[e.value.id][0]})", ("bytes", e.attr)
        raise TranslatorError(f"{where}: FileHash.{e.attr} hashed directly (only bytes fields can be)")
    # a if x.is_unknown else b
    if isinstance(e, ast.IfExp):
        test, neg = e.test, False
        if isinstance(test, ast.UnaryOp) and isinstance(test.op, ast.Not):
            test, neg = test.operand, True
        if (isinstance(test, ast.Attribute) and test.attr == "is_unknown" and _is_name(test.value)
                and env.get(test.value.id, (None, None))[1] == "fsig"):
            a, ia = word_expr(e.body, env, where)
            b, ib = word_expr(e.orelse, env, where)
            if neg:
                a, b, ia, ib = b, a, ib, ia
            return (f"(if fs_is_unknown {env[test.value.id][0]} then {a} else {b})", ("ifunknown", ia, ib))
        raise TranslatorError(f"{where}: conditional word with unsupported test {ast.unparse(e.test)}")
    raise TranslatorError(f"{where}: unsupported word expression {ast.unparse(e)}")


def sorted_iter(it, where):
    """Recognise `sorted(m)` / `sorted(m.items())` / `m` / `m.items()`.

    Returns (mapping name, items?, sorted?). An unsorted loop is translated faithfully (supplied
    order), so that the order-independence proof (not the translator) is what breaks.
    """
    is_sorted = False
    if isinstance(it, ast.Call) and _is_name(it.func, "sorted"):
        if len(it.args) != 1 or it.keywords:
            raise TranslatorError(f"{where}: sorted() with key=/reverse= is not supported")
        is_sorted, it = True, it.args[0]
    if _is_name(it):
        return it.id, False, is_sorted
    if (isinstance(it, ast.Call) and isinstance(it.func, ast.Attribute) and it.func.attr == "items"
            and _is_name(it.func.value) and not it.args and not it.keywords):
        return it.func.value.id, True, is_sorted
    raise TranslatorError(f"{where}: loop iterable not recognised: {ast.unparse(it)}")


def translate_update_file_hashes(tree):
    fn = find_function(tree, "_update_file_hashes")
    if [a.arg for a in fn.args.args] != ["hw", "file_hashes"]:
        raise TranslatorError("_update_file_hashes signature changed")
    if ast.unparse(fn.args.args[1].annotation) != "Mapping[str, FileHash]":
        raise TranslatorError("_update_file_hashes: file_hashes annotation changed")
    body = body_without_docstring(fn)
    if len(body) != 1 or not isinstance(body[0], ast.For) or body[0].orelse:
        raise TranslatorError("_update_file_hashes is not a single for loop")
    loop = body[0]
    name, items, is_sorted = sorted_iter(loop.iter, "_update_file_hashes")
    if name != "file_hashes":
        raise TranslatorError("_update_file_hashes: loop is not over file_hashes")
    stmts = list(loop.body)
    if items:
        if not (isinstance(loop.target, ast.Tuple) and len(loop.target.elts) == 2
                and all(_is_name(t) for t in loop.target.elts)):
            raise TranslatorError("_update_file_hashes: loop target is not `k, v`")
        kvar, vvar = (t.id for t in loop.target.elts)
    else:
        if not _is_name(loop.target):
            raise TranslatorError("_update_file_hashes: loop target is not a name")
        kvar = loop.target.id
        if not (stmts and isinstance(stmts[0], ast.Assign) and len(stmts[0].targets) == 1
                and _is_name(stmts[0].targets[0])
                and ast.unparse(stmts[0].value) == f"file_hashes[{kvar}]"):
            raise TranslatorError("_update_file_hashes: first statement is not `v = file_hashes[k]`")
        vvar = stmts[0].targets[0].id
        stmts = stmts[1:]
    env = {kvar: ("path", "str"), vvar: ("fs", "fsig")}
    words, infos = [], []
    for s in stmts:
        e = _is_hw_update(s)
        if e is None:
            raise TranslatorError(f"_update_file_hashes: statement is not hw.update(e): {ast.unparse(s)}")
        w, info = word_expr(e, env, "_update_file_hashes")
        words.append(w)
        infos.append(info)
    return {"words": words, "infos": infos, "sorted": is_sorted}


def translate_sequence(stmts, env, maps, where):
    """Translate a list of statements into segments (Gallina terms of type list word)."""
    segs, consts = [], []
    for s in stmts:
        e = _is_hw_update(s)
        if e is not None and isinstance(e, ast.IfExp) and isinstance(e.body, ast.Constant) \
                and isinstance(e.orelse, ast.Constant):
            # `A if m else B` / `A if not m else B` with m a mapping: a keyword that depends on
            # whether the mapping is empty
            test, neg = e.test, False
            if isinstance(test, ast.UnaryOp) and isinstance(test.op, ast.Not):
                test, neg = test.operand, True
            if not (_is_name(test) and test.id in maps and maps[test.id][1].startswith("map:")):
                raise TranslatorError(f"{where}: conditional keyword with unsupported test {ast.unparse(e.test)}")
            a, ia = word_expr(e.body, env, where)
            b, ib = word_expr(e.orelse, env, where)
            if neg:
                a, b, ia, ib = b, a, ib, ia
            name = f"kw{len(consts)}"
            consts.append((name, (a, b, test.id), (ia[1], ib[1])))
            segs.append(("const", None, ("condconst", test.id)))
            continue
        if e is not None:
            w, info = word_expr(e, env, where)
            if info[0] == "const":
                name = f"kw{len(consts)}"
                consts.append((name, w, info[1]))
                segs.append(("const", f"[{name}]", info))
            else:
                segs.append(("word", f"[{w}]", info))
            continue
        if (isinstance(s, ast.Expr) and isinstance(s.value, ast.Call) and _is_name(s.value.func, "_update_file_hashes")
                and len(s.value.args) == 2 and not s.value.keywords and _is_name(s.value.args[0], "hw")
                and _is_name(s.value.args[1])):
            m = s.value.args[1].id
            if maps.get(m, (None, None))[1] != "filemap":
                raise TranslatorError(f"{where}: _update_file_hashes on {m}, which is not a file map")
            segs.append(("files", f"files_words ({maps[m][0]})", ("files", m)))
            continue
        if isinstance(s, ast.For) and not s.orelse:
            m, items, is_sorted = sorted_iter(s.iter, where)
            if m not in maps or not maps[m][1].startswith("map:") or not items:
                raise TranslatorError(f"{where}: loop over {ast.unparse(s.iter)} not supported")
            if not (isinstance(s.target, ast.Tuple) and len(s.target.elts) == 2
                    and all(_is_name(t) for t in s.target.elts)):
                raise TranslatorError(f"{where}: loop target is not `k, v`")
            kvar, vvar = (t.id for t in s.target.elts)
            vty = maps[m][1][4:].rstrip("?")
            lenv = {kvar: ("fst kv", "str"), vvar: ("snd kv", vty)}
            words, infos = [], []
            for b in s.body:
                be = _is_hw_update(b)
                if be is None:
                    raise TranslatorError(f"{where}: loop body statement is not hw.update(e): {ast.unparse(b)}")
                w, info = word_expr(be, lenv, where)
                words.append(w)
                infos.append(info)
            src = f"sort_keys ({maps[m][0]})" if is_sorted else f"({maps[m][0]})"
            segs.append(("loop", f"flat_map (fun kv => [{'; '.join(words)}]) ({src})",
                         ("loop", m, tuple(infos), is_sorted)))
            continue
        raise TranslatorError(f"{where}: unsupported statement: {ast.unparse(s)[:80]}")
    return segs, consts


def translate_from_inp(tree):
    fn = find_function(tree, "from_inp", cls="StepHash")
    params = {}
    for a in fn.args.args[1:] + fn.args.kwonlyargs:
        key = (a.arg, ast.unparse(a.annotation) if a.annotation else "")
        if key not in FROM_INP_PARAMS:
            raise TranslatorError(f"from_inp: unknown parameter {key}")
        params[a.arg] = FROM_INP_PARAMS[key]
    missing = {k[0] for k in FROM_INP_PARAMS} - set(params)
    if missing:
        raise TranslatorError(f"from_inp: parameters missing: {sorted(missing)}")
    body = body_without_docstring(fn)
    # optional normalisation of a `| None` mapping
    normalised = set()
    while body and isinstance(body[0], ast.Assign) and not _is_name(body[0].targets[0], "hw"):
        txt = ast.unparse(body[0])
        tgt = body[0].targets[0]
        if _is_name(tgt) and txt == f"{tgt.id} = {{}} if {tgt.id} is None else {tgt.id}" \
                and params.get(tgt.id, (None, ""))[1].endswith("?"):
            normalised.add(tgt.id)
            body = body[1:]
        else:
            raise TranslatorError(f"from_inp: unsupported statement before hw = HashWords(): {txt}")
    for name, (term, ty) in params.items():
        if ty.endswith("?") and name not in normalised:
            raise TranslatorError(f"from_inp: optional mapping {name} is not normalised to {{}}")
    if not (body and ast.unparse(body[0]) == "hw = HashWords()"):
        raise TranslatorError("from_inp: expected `hw = HashWords()`")
    body = body[1:]
    # tail: inp_info = ...; return cls(hw.digest(), inp_info)
    if not (len(body) >= 2 and isinstance(body[-1], ast.Return) and isinstance(body[-1].value, ast.Call)
            and _is_name(body[-1].value.func, "cls") and len(body[-1].value.args) == 2
            and ast.unparse(body[-1].value.args[0]) == "hw.digest()"
            and isinstance(body[-2], ast.Assign) and _is_name(body[-2].targets[0], "inp_info")
            and _is_name(body[-1].value.args[1], "inp_info")):
        raise TranslatorError("from_inp: tail is not `inp_info = ...; return cls(hw.digest(), inp_info)`")
    if "hw" in {n.id for n in ast.walk(body[-2]) if isinstance(n, ast.Name)}:
        raise TranslatorError("from_inp: inp_info expression touches hw")
    env = {n: (t, ty) for n, (t, ty) in params.items() if ty in ("str", "bool")}
    maps = {n: (t, ty) for n, (t, ty) in params.items() if ty == "filemap" or ty.startswith("map:")}
    segs, consts = translate_sequence(body[:-2], env, maps, "from_inp")
    return segs, consts


def translate_with_out_hashes(tree):
    fn = find_function(tree, "with_out_hashes", cls="StepHash")
    args = [(a.arg, ast.unparse(a.annotation) if a.annotation else "") for a in fn.args.args]
    if args != [("self", ""), ("out_hashes", "Mapping[str, FileHash]")]:
        raise TranslatorError(f"with_out_hashes signature changed: {args}")
    body = body_without_docstring(fn)
    if not (body and ast.unparse(body[0]) == "hw = HashWords()"):
        raise TranslatorError("with_out_hashes: expected `hw = HashWords()`")
    if not (len(body) >= 3 and isinstance(body[-1], ast.Return) and isinstance(body[-1].value, ast.Call)
            and ast.unparse(body[-1].value.func) == "self.__class__" and len(body[-1].value.args) == 4
            and ast.unparse(body[-1].value.args[2]) == "hw.digest()"
            and ast.unparse(body[-1].value.args[0]) == "self.inp_digest"
            and isinstance(body[-2], ast.Assign) and _is_name(body[-2].targets[0], "out_info")):
        raise TranslatorError("with_out_hashes: tail is not `out_info = ...; return self.__class__(self.inp_digest, "
                              "self.inp_info, hw.digest(), out_info)`")
    if "hw" in {n.id for n in ast.walk(body[-2]) if isinstance(n, ast.Name)}:
        raise TranslatorError("with_out_hashes: out_info expression touches hw")
    segs, consts = translate_sequence(body[1:-2], {}, {"out_hashes": ("m", "filemap")}, "with_out_hashes")
    return segs, consts


# ---------------------------------------------------------------------------------------------
# required ingredients (fail closed when one is not hashed at all)
# ---------------------------------------------------------------------------------------------


def check_ingredients(file_infos, inp_segs, out_segs):
    kinds = [i[0] for i in file_infos]
    if ("var", "path") not in [(i[0], "path") for i in file_infos if i[0] == "var"]:
        raise TranslatorError("_update_file_hashes: the path is not hashed")
    ints = {i[1]: i[2] for i in file_infos if i[0] == "int"}
    for f in ("mode", "size"):
        if f not in ints:
            raise TranslatorError(f"_update_file_hashes: FileHash.{f} is not hashed")
    has_digest = any(i == ("bytes", "digest") or (i[0] == "ifunknown" and ("bytes", "digest") in i[1:])
                     for i in file_infos)
    if not has_digest:
        raise TranslatorError("_update_file_hashes: FileHash.digest is not hashed")
    if len(file_infos) != 4:
        raise TranslatorError(f"_update_file_hashes: {len(file_infos)} words per file (model: path, mode, size, digest)")
    del kinds
    shape = [s[0] if s[0] != "word" else s[2][0] for s in inp_segs]
    want = ["var", "const", "bool", "const", "files", "const", "loop", "const", "loop"]
    if shape != want:
        raise TranslatorError(f"from_inp: sequence shape {shape} (model: {want})")
    if inp_segs[0][2] != ("var", "step_label"):
        raise TranslatorError("from_inp: the first word is not the step label")
    if inp_segs[2][2] != ("bool", "shell"):
        raise TranslatorError("from_inp: the shell flag is not hashed")
    if inp_segs[4][2] != ("files", "inp_hashes"):
        raise TranslatorError("from_inp: inp_hashes are not hashed")
    l1, l2 = inp_segs[6][2], inp_segs[8][2]
    if l1[1] != "env_values" or l1[2] != (("var", l1[2][0][1]), ("var", l1[2][1][1])) or len(l1[2]) != 2:
        raise TranslatorError("from_inp: env_values loop is not (name, value)")
    if l2[1] != "env_overrides" or len(l2[2]) != 2 or any(i[0] != "var" for i in l2[2]):
        raise TranslatorError("from_inp: env_overrides loop is not (name, value)")
    if [s[0] for s in out_segs] != ["files"]:
        raise TranslatorError(f"with_out_hashes: sequence shape {[s[0] for s in out_segs]} (model: one file map)")
    return ints


def generate():
    import hashlib
    tree = parse_module(SRC)
    markers = translate_hashwords(tree)
    fh = translate_filehash(tree)
    files = translate_update_file_hashes(tree)
    inp_segs, inp_consts = translate_from_inp(tree)
    out_segs, out_consts = translate_with_out_hashes(tree)
    if out_consts:
        raise TranslatorError("with_out_hashes hashes constant words (model: none)")
    ints = check_ingredients(files["infos"], inp_segs, out_segs)
    if len(inp_consts) != 4:
        raise TranslatorError(f"from_inp: {len(inp_consts)} constant words (model: 4 section keywords)")
    digest_word = files["words"][3]
    file_src = "sort_keys m" if files["sorted"] else "m"
    cmp_ = {"mode": "fh_mode", "mtime": "fh_mtime", "size": "fh_size", "inode": "fh_inode", "digest": None}
    skip_terms = []
    for f, g in fh["skip_pairs"]:
        if cmp_.get(f) is None:
            raise TranslatorError(f"FileHash.refreshed: skip test compares {f}")
        skip_terms.append(f"({cmp_[f]} old =? {STAT_FIELDS[g]} st)")
    lines = [
        "(* GENERATED by translator/gen_hash.py from /repo/stepup/core/hash.py -- do not edit *)",
        "From Coq Require Import List NArith Bool.",
        "From SV Require Import lib.Bytes lib.KeySort model.HashTypes.",
        "Import ListNotations.",
        "Open Scope N_scope.",
        "(* HashWords.update: marker per word type; payload raw bytes / UTF-8 / nothing *)",
        f"Definition marker_bytes : str := {coq_bytes(markers['bytes'])}.",
        f"Definition marker_str : str := {coq_bytes(markers['str'])}.",
        f"Definition marker_none : str := {coq_bytes(markers['none'])}.",
        "(* HashWords._hash = hashlib.sha256: digest size *)",
        f"Definition digest_len : nat := {hashlib.sha256().digest_size}.",
        "(* FileHash.unknown() / is_unknown *)",
        f"Definition unknown_digest : str := {coq_bytes(fh['unknown_digest'])}.",
        "Definition fh_unknown : fhash := mk_fhash unknown_digest 0 0 0 0.",
        "Definition fs_is_unknown (fs : fsig) : bool := str_eqb (fs_digest fs) unknown_digest.",
        "Definition fh_is_unknown (h : fhash) : bool := str_eqb (fh_digest h) unknown_digest.",
        "(* FileHash.refreshed: the test that skips re-hashing, and the constructor call *)",
        "Definition refreshed_same (old : fhash) (st : fstat) : bool :=",
        "  " + " && ".join(skip_terms) + ".",
        "Definition refreshed_build (digest : str) (st : fstat) : fhash :=",
        "  mk_fhash digest " + " ".join(f"({STAT_FIELDS[g]} st)" for g in fh["build"]) + ".",
        "(* _update_file_hashes: words per file *)",
        f"Definition mode_width : nat := {ints['mode']}.",
        f"Definition size_width : nat := {ints['size']}.",
        f"Definition digest_word (fs : fsig) : word := {digest_word}.",
        "Definition file_words (path : str) (fs : fsig) : list word :=",
        "  [" + "; ".join(files["words"][:3] + ["digest_word fs"]) + "].",
        "Definition files_words (m : list (str * fsig)) : list word :=",
        f"  flat_map (fun kv => file_words (fst kv) (snd kv)) ({file_src}).",
        "(* StepHash.from_inp: constant words in order of appearance, then the sequence *)",
    ]
    for idx, (name, w, val) in enumerate(inp_consts):
        note = repr(val).replace("*)", "* )")
        if isinstance(w, tuple):
            if idx != 3 or w[2] != "env_overrides":
                raise TranslatorError(f"from_inp: conditional keyword #{idx} on {w[2]} (model: only the override "
                                      "keyword may depend on whether env_overrides is empty)")
            lines.append(f"Definition {name}_of (nonempty : bool) : word := if nonempty then {w[0]} else {w[1]}."
                         f"  (* {note} *)")
        elif idx == 3:
            lines.append(f"Definition {name}_of (nonempty : bool) : word := {w}.  (* {note} *)")
        else:
            lines.append(f"Definition {name} : word := {w}.  (* {note} *)")
    seg_terms = []
    nconst = 0
    for sg in inp_segs:
        if sg[0] == "const":
            seg_terms.append("[kw3_of (nonempty (cfg_ovrs c))]" if nconst == 3 else f"[kw{nconst}]")
            nconst += 1
        else:
            seg_terms.append(sg[1])
    lines.append("Definition inp_words (c : cfg) : list word :=")
    lines.append("  " + "\n  ++ ".join(seg_terms) + ".")
    lines.append("(* StepHash.with_out_hashes *)")
    lines.append("Definition out_words (m : list (str * fsig)) : list word :=")
    lines.append("  " + "\n  ++ ".join(s[1] for s in out_segs) + ".")
    lines.append("")
    facts = {"markers": {k: list(v) for k, v in markers.items()}, "unknown_digest": list(fh["unknown_digest"]),
             "skip_pairs": fh["skip_pairs"], "widths": ints, "files_sorted": files["sorted"],
             "keywords": [repr(v) for _, _, v in inp_consts],
             "digest_word": digest_word}
    return "\n".join(lines), facts


if __name__ == "__main__":
    print(generate()[0])
