"""Translator for C17, part 2: Python AST of stepup/core/nglob.py -> Gallina (coq/gen/GenNglobCode.v).

A REAL translation (not a fingerprint): the statements of

    _get_wildcard_name, NamedGlob._match_values, NamedGlob.extend, NamedGlob.reduce,
    NamedGlob.will_change, NamedGlob.files, convert_nglob_to_glob

are walked one by one and mapped to Gallina terms over the primitives of coq/model/NglobPy.v
(one primitive per Python builtin operation: dict.get, dict.setdefault, del d[k], set.add,
set.discard, set.update, list.append, x[-1], x[-1] = y, string comparisons of a pattern fragment,
RE_ANY_WILD.split).  proofs/NglobCodeTie.v proves, for ALL inputs, that the generated definitions
equal the hand-written model (model/Nglob.v) the C17 theorems are about, so the theorems are
re-checked against what the code says now:

  * a harmless rewrite (renaming a local, `if x is None: continue` instead of nesting, swapping
    the branches of an if/else, reordering independent elif branches) changes the generated
    text but the equality proofs still go through (or fail closed);
  * a semantic change (a dropped guard, a swapped extend/reduce order, popping a whole entry, a
    different merge rule) changes the generated definition and breaks the equality proof, which
    sends the harness into its failing-input search.

Fail closed: every AST node that is not covered by a rule below raises TranslatorError.

The Python subset: assignments to local names, `for x in <iterable>` (with
`enumerate(RE_ANY_WILD.split(..))` reduced to the parity of the index), if / elif / else,
`continue`, `return`, `raise ValueError` (mapped to the error kind by its message), expression
statements that mutate a dict / set / list through the operations listed above, aliasing of a
set obtained by `d.get(k)`, and pure expressions (comparisons with constants, boolean operators,
slices with constant bounds, conditional expressions, one list comprehension with a filter, one
generator expression inside tuple()).
"""

from __future__ import annotations

import ast

from .astutil import TranslatorError, body_without_docstring, coq_str, find_function, parse_module

NGLOB = "stepup/core/nglob.py"

ERR_KINDS = [
    ("Cannot convert an empty pattern", "EEmptyPattern"),
    ("A named wildcard must have a name", "EEmptyName"),
    ("Named wildcards not allowed", "ENamesNotAllowed"),
]

SELF_FIELDS = {"_results": ("results", "results"), "_regex": ("regex", "re"),
               "_used_names": ("used_names", "strlist"), "_pattern": ("pattern", "str"),
               "_subs": ("subs", "subs")}


def _fail(node, why):
    src = ast.unparse(node) if isinstance(node, ast.AST) else str(node)
    raise TranslatorError(f"gen_nglob_code: {why}: `{src[:100]}`")


def _is_self_attr(node, attr=None):
    return (isinstance(node, ast.Attribute) and isinstance(node.value, ast.Name) and node.value.id == "self"
            and (attr is None or node.attr == attr))


def _is_none(node):
    return isinstance(node, ast.Constant) and node.value is None


def _neg_index(node):
    """x[-k] -> k, else None."""
    if isinstance(node, ast.UnaryOp) and isinstance(node.op, ast.USub) and isinstance(node.operand, ast.Constant) \
            and isinstance(node.operand.value, int):
        return node.operand.value
    return None


class Fn:
    """Translation of one function body.

    kinds: python variable -> kind.  Kinds: tok (a fragment of RE_ANY_WILD.split), str, strlist,
    toks (list of fragments, forward), rtoks (list of fragments used as a stack: kept reversed),
    results (dict values-tuple -> set of paths), set, oset (result of d.get), okey, key, re, env,
    oenv, subs, obj (a NamedGlob copy, represented by its _results), bool.
    """

    def __init__(self, name, kinds, state, monadic=False, ret=None, helpers=None, gname=None,
                 lift_binders="", lift_args="", indent=""):
        self.name = name
        self.gname = gname or name
        self.lift_binders, self.lift_args, self.indent = lift_binders, lift_args, indent
        self.lifted = []                  # loop bodies, emitted as definitions of their own
        self.loops = 0
        self.kinds = dict(kinds)
        self.state = list(state)          # python names of the mutable variables carried along
        self.monadic = monadic            # result type cres T (the body may raise)
        self.ret = ret                    # 'option' when the function returns None or a value
        self.alias = {}                   # local set variable -> (dict expression text, key text)
        self.helpers = helpers or {}
        self.tmp = 0

    # ---- helpers ------------------------------------------------------------------------------
    def kind(self, node):
        if isinstance(node, ast.Name):
            if node.id not in self.kinds:
                _fail(node, f"{self.name}: unknown variable")
            return self.kinds[node.id]
        if _is_self_attr(node):
            if node.attr not in SELF_FIELDS:
                _fail(node, f"{self.name}: unknown attribute of self")
            return SELF_FIELDS[node.attr][1]
        if isinstance(node, ast.Attribute) and node.attr == "_results" and isinstance(node.value, ast.Name) \
                and self.kinds.get(node.value.id) == "obj":
            return "results"
        if isinstance(node, ast.Subscript) and _neg_index(node.slice) == 1 and self.kind(node.value) == "rtoks":
            return "otok"
        if isinstance(node, ast.Constant) and isinstance(node.value, str):
            return "str"
        if isinstance(node, ast.Call) and isinstance(node.func, ast.Name) and node.func.id == "Path":
            return "str"
        return None

    def var(self, name):
        return {"match": "match_v", "end": "end_v", "in": "in_v", "at": "at_v"}.get(name, name)

    def state_tuple(self):
        names = [self.var(s) for s in self.state]
        return names[0] if len(names) == 1 else "(" + ", ".join(names) + ")"

    def state_pat(self):
        names = [self.var(s) for s in self.state]
        return names[0] if len(names) == 1 else "'(" + ", ".join(names) + ")"

    def ok(self, text):
        return f"COk {text}" if self.monadic else text

    # ---- expressions --------------------------------------------------------------------------
    def E(self, n):
        if isinstance(n, ast.Name):
            self.kind(n)
            return self.var(n.id)
        if _is_self_attr(n):
            self.kind(n)
            return SELF_FIELDS[n.attr][0]
        if isinstance(n, ast.Attribute) and n.attr == "_results" and self.kind(n) == "results":
            return self.var(n.value.id)
        if isinstance(n, ast.Constant):
            if isinstance(n.value, str):
                return coq_str(n.value) if n.value else "(@nil N)"
            if n.value is None:
                return "None"
            _fail(n, "constant")
        if isinstance(n, ast.BoolOp):
            op = " && " if isinstance(n.op, ast.And) else " || "
            return "(" + op.join(self.E(v) for v in n.values) + ")"
        if isinstance(n, ast.UnaryOp) and isinstance(n.op, ast.Not):
            return f"(negb {self.E(n.operand)})"
        if isinstance(n, ast.IfExp):
            return f"(if {self.E(n.test)} then {self.E(n.body)} else {self.E(n.orelse)})"
        if isinstance(n, ast.Compare):
            return self.compare(n)
        if isinstance(n, ast.Subscript):
            return self.subscript(n)
        if isinstance(n, ast.Call):
            return self.call(n)
        if isinstance(n, ast.ListComp):
            return self.listcomp(n)
        _fail(n, f"{self.name}: expression not in the translated subset")

    def compare(self, n):
        if len(n.ops) != 1:
            _fail(n, "chained comparison")
        op, left, right = n.ops[0], n.left, n.comparators[0]
        # i % 2 == c on the enumerate index
        if isinstance(left, ast.BinOp) and isinstance(left.op, ast.Mod) and isinstance(left.left, ast.Name) \
                and self.kinds.get(left.left.id) == "index" and isinstance(left.right, ast.Constant) \
                and left.right.value == 2 and isinstance(right, ast.Constant) and right.value in (0, 1) \
                and isinstance(op, ast.Eq):
            v = self.var(left.left.id) + "_odd"
            return v if right.value == 1 else f"(negb {v})"
        # len(x) == 0 / len(x) > 0
        if isinstance(left, ast.Call) and isinstance(left.func, ast.Name) and left.func.id == "len" \
                and isinstance(right, ast.Constant) and right.value == 0 and isinstance(op, (ast.Eq, ast.Gt)):
            arg = left.args[0]
            k = self.kind(arg)
            ln = f"(t_len {self.E(arg)})" if k == "tok" else f"(length {self.E(arg)})"
            if k not in ("tok", "str", "set", "toks", "rtoks", "strlist"):
                _fail(n, f"len() of a value of kind {k}")
            t = f"(Nat.eqb {ln} 0)"
            return t if isinstance(op, ast.Eq) else f"(negb {t})"
        lk = self.kind(left)
        # fragment == "const" / != / in [..] / not in [..]
        if lk in ("tok", "otok"):
            pre = "t" if lk == "tok" else "ot"
            le = self.E(left)
            if isinstance(op, (ast.Eq, ast.NotEq)) and isinstance(right, ast.Constant) and isinstance(right.value, str):
                t = f"({pre}_eq {le} {self.E(right)})"
                return t if isinstance(op, ast.Eq) else f"(negb {t})"
            if isinstance(op, (ast.In, ast.NotIn)) and isinstance(right, ast.List) \
                    and all(isinstance(e, ast.Constant) and isinstance(e.value, str) for e in right.elts):
                t = f"({pre}_in {le} [" + "; ".join(self.E(e) for e in right.elts) + "])"
                return t if isinstance(op, ast.In) else f"(negb {t})"
            _fail(n, "comparison of a fragment")
        if lk == "results" and self.kind(right) == "results" and isinstance(op, ast.Eq):
            return f"(results_eqb keqb {self.E(left)} {self.E(right)})"
        _fail(n, f"{self.name}: comparison not in the translated subset")

    def subscript(self, n):
        k = self.kind(n.value)
        if k == "tok" and isinstance(n.slice, ast.Slice) and n.slice.step is None \
                and isinstance(n.slice.lower, ast.Constant) and isinstance(n.slice.lower.value, int) \
                and n.slice.lower.value >= 0 and _neg_index(n.slice.upper) is not None:
            return f"(t_slice {self.E(n.value)} {n.slice.lower.value} {_neg_index(n.slice.upper)})"
        if k == "rtoks" and _neg_index(n.slice) == 1:
            return f"(l_last {self.E(n.value)})"
        if k == "env":
            return f"(env_get {self.E(n.slice)} {self.E(n.value)})"
        _fail(n, f"{self.name}: subscript not in the translated subset")

    def call(self, n):
        f = n.func
        if n.keywords:
            _fail(n, "keyword arguments")
        if isinstance(f, ast.Name):
            if f.id == "Path" and len(n.args) == 1:
                return self.E(n.args[0])
            if f.id == "set" and not n.args:
                return "(@nil str)"
            if f.id == "sorted" and len(n.args) == 1 and self.kind(n.args[0]) == "set":
                return self.E(n.args[0])          # the order of a set is presentation
            if f.id == "tuple" and len(n.args) == 1 and isinstance(n.args[0], ast.GeneratorExp):
                g = n.args[0]
                if len(g.generators) != 1 or g.generators[0].ifs or not isinstance(g.generators[0].target, ast.Name):
                    _fail(n, "generator expression")
                tv = g.generators[0].target.id
                if self.kind(g.generators[0].iter) != "strlist":
                    _fail(n, "generator over something else than _used_names")
                saved = dict(self.kinds)
                self.kinds[tv] = "str"
                body = self.E(g.elt)
                self.kinds = saved
                return f"(map (fun {self.var(tv)} => {body}) {self.E(g.generators[0].iter)})"
            if f.id in self.helpers:
                _fail(n, "call of a function that may raise outside an assignment position")
        if isinstance(f, ast.Attribute):
            recv = f.value
            if _is_self_attr(recv, "_regex") and f.attr == "fullmatch" and len(n.args) == 1:
                return f"(first_match regex {self.E(n.args[0])})"
            if f.attr == "groupdict" and not n.args and self.kind(recv) == "env":
                return self.E(recv)
            if _is_self_attr(f, "_match_values") and len(n.args) == 1:
                return f"(mv {self.E(n.args[0])})"
            if f.attr in ("startswith", "endswith") and self.kind(recv) == "tok" and len(n.args) == 1 \
                    and isinstance(n.args[0], ast.Constant) and isinstance(n.args[0].value, str):
                return f"(t_{f.attr} {self.E(recv)} {self.E(n.args[0])})"
            if f.attr == "get" and self.kind(recv) == "results" and len(n.args) == 1:
                return f"(d_get keqb {self.E(n.args[0])} {self.E(recv)})"
            if f.attr == "get" and self.kind(recv) == "subs" and len(n.args) == 2:
                return f"(subs_get_default {self.E(n.args[0])} {self.E(recv)} {self.E(n.args[1])})"
            if f.attr == "values" and self.kind(recv) == "results" and not n.args:
                return f"(d_values {self.E(recv)})"
            if isinstance(recv, ast.Name) and recv.id == "RE_ANY_WILD" and f.attr == "split" and len(n.args) == 1:
                return f"(py_split_plain {self.E(n.args[0])})"
            if isinstance(recv, ast.Constant) and recv.value == "" and f.attr == "join" and len(n.args) == 1 \
                    and self.kind(n.args[0]) == "rtoks":
                return f"(flat_map tok_text (rev {self.E(n.args[0])}))"
            if isinstance(recv, ast.Name) and recv.id == "copy" and f.attr == "deepcopy" and len(n.args) == 1 \
                    and isinstance(n.args[0], ast.Name) and n.args[0].id == "self":
                return "results"
        _fail(n, f"{self.name}: call not in the translated subset")

    def listcomp(self, n):
        if len(n.generators) != 1:
            _fail(n, "list comprehension")
        g = n.generators[0]
        if not (isinstance(g.target, ast.Name) and isinstance(n.elt, ast.Name) and n.elt.id == g.target.id
                and len(g.ifs) == 1 and self.kind(g.iter) == "toks"):
            _fail(n, "list comprehension other than a filter over a list of fragments")
        saved = dict(self.kinds)
        self.kinds[g.target.id] = "tok"
        cond = self.E(g.ifs[0])
        self.kinds = saved
        return f"(filter (fun {self.var(g.target.id)} => {cond}) {self.E(g.iter)})"

    # ---- hoisting of calls that may raise ---------------------------------------------------------
    def hoist(self, expr):
        """Replace calls of helper functions that may raise by fresh variables.
        Returns (new expression, [(var, gallina call)])."""
        binds = []
        fn = self

        class H(ast.NodeTransformer):
            def visit_Call(self, node):
                self.generic_visit(node)
                if isinstance(node.func, ast.Name) and node.func.id in fn.helpers:
                    gname, nargs, used, rkind = fn.helpers[node.func.id]
                    if len(node.args) != nargs or node.keywords:
                        _fail(node, "helper call arity")
                    fn.tmp += 1
                    v = f"v{fn.tmp}"
                    args = " ".join(fn.E(node.args[i]) for i in used)
                    binds.append((v, f"{gname} {args}"))
                    fn.kinds[v] = rkind
                    return ast.copy_location(ast.Name(id=v, ctx=ast.Load()), node)
                return node

        new = H().visit(expr)
        return new, binds

    def with_binds(self, binds, inner):
        for v, callt in reversed(binds):
            if not self.monadic:
                _fail(callt, "a call that may raise inside a function that is not translated as one")
            inner = f"match {callt} with CErr e => CErr e | COk {v} => {inner} end"
        return inner

    # ---- statements -----------------------------------------------------------------------------
    def terminates(self, stmts):
        return bool(stmts) and isinstance(stmts[-1], (ast.Return, ast.Raise, ast.Continue))

    def block(self, stmts, cont):
        """Gallina for `stmts` followed by whatever `cont()` yields (the value of the block)."""
        if not stmts:
            return cont()
        s, rest = stmts[0], stmts[1:]
        saved_kinds, saved_alias = dict(self.kinds), dict(self.alias)
        try:
            return self.stmt(s, rest, cont)
        finally:
            # kinds introduced for the rest of the block are scoped to it
            self.kinds, self.alias = saved_kinds, saved_alias

    def stmt(self, s, rest, cont):
        if isinstance(s, ast.Pass):
            return self.block(rest, cont)
        if isinstance(s, ast.Continue):
            if rest:
                _fail(s, "code after continue")
            return self.ok(self.state_tuple())
        if isinstance(s, ast.Return):
            if rest:
                _fail(s, "code after return")
            return self.ret_value(s.value)
        if isinstance(s, ast.Raise):
            return self.raise_(s)
        if isinstance(s, ast.Assign):
            return self.assign(s, rest, cont)
        if isinstance(s, ast.Expr):
            return self.effect(s.value, rest, cont)
        if isinstance(s, ast.Delete):
            if len(s.targets) == 1 and isinstance(s.targets[0], ast.Subscript) \
                    and self.kind(s.targets[0].value) == "results":
                d = self.E(s.targets[0].value)
                return f"let {d} := d_del keqb {self.E(s.targets[0].slice)} {d} in {self.block(rest, cont)}"
            _fail(s, "del")
        if isinstance(s, ast.If):
            return self.if_(s, rest, cont)
        if isinstance(s, ast.For):
            return self.for_(s, rest, cont)
        _fail(s, f"{self.name}: statement not in the translated subset")

    def ret_value(self, v):
        if self.ret == "option":
            if v is None or _is_none(v):
                return "None"
            if isinstance(v, ast.IfExp):
                return f"(if {self.E(v.test)} then {self.ret_value(v.body)} else {self.ret_value(v.orelse)})"
            return f"Some {self.E(v)}"
        if v is None:
            _fail("return", "bare return")
        new, binds = self.hoist(v)
        return self.with_binds(binds, self.ok(self.E(new)))

    def raise_(self, s):
        if not self.monadic:
            _fail(s, "raise in a function that is not translated as one that may raise")
        e = s.exc
        if not (isinstance(e, ast.Call) and isinstance(e.func, ast.Name) and e.func.id == "ValueError" and len(e.args) == 1):
            _fail(s, "raise of something else than ValueError(message)")
        msg = e.args[0]
        text = "".join(v.value for v in msg.values if isinstance(v, ast.Constant)) if isinstance(msg, ast.JoinedStr) \
            else (msg.value if isinstance(msg, ast.Constant) else None)
        for prefix, kind in ERR_KINDS:
            if text is not None and text.startswith(prefix):
                return f"CErr {kind}"
        _fail(s, "ValueError with an unknown message")

    def assign(self, s, rest, cont):
        if len(s.targets) != 1:
            _fail(s, "multiple assignment")
        t = s.targets[0]
        # x[-1] = e on a stack
        if isinstance(t, ast.Subscript):
            if self.kind(t.value) == "rtoks" and _neg_index(t.slice) == 1:
                lv = self.E(t.value)
                return f"let {lv} := l_set_last {self.tok_value(s.value)} {lv} in {self.block(rest, cont)}"
            _fail(s, "assignment to a subscript")
        if not isinstance(t, ast.Name):
            _fail(s, "assignment target")
        value, binds = self.hoist(s.value)
        name = t.id
        # the kind of the new variable
        if isinstance(value, ast.List) and not value.elts:
            if name not in LIST_REPR.get(self.name, {}):
                _fail(s, "empty list assigned to a variable without a declared representation")
            k, text = LIST_REPR[self.name][name], "[]"
        elif isinstance(value, ast.Call) and isinstance(value.func, ast.Name) and value.func.id == "set" and not value.args:
            k, text = "set", "(@nil str)"
        else:
            text = self.E(value)
            k = self.infer(value)
        self.kinds[name] = k
        if k == "oset" and isinstance(value, ast.Call) and isinstance(value.func, ast.Attribute) \
                and value.func.attr == "get":
            # a set obtained by d.get(k) is an alias of the stored set
            self.alias[name] = (self.E(value.func.value), self.E(value.args[0]))
        inner = f"let {self.var(name)} := {text} in {self.block(rest, cont)}"
        return self.with_binds(binds, inner)

    def infer(self, v):
        k = self.kind(v)
        if k is not None:
            return k
        if isinstance(v, ast.Call):
            f = v.func
            if isinstance(f, ast.Attribute):
                if _is_self_attr(f, "_match_values"):
                    return "okey"
                if f.attr == "fullmatch":
                    return "oenv"
                if f.attr == "groupdict":
                    return "env"
                if f.attr == "get" and self.kind(f.value) == "results":
                    return "oset"
                if f.attr == "deepcopy":
                    return "obj"
            if isinstance(f, ast.Name) and f.id == "sorted":
                return "set"
        if isinstance(v, ast.Subscript) and self.kind(v.value) == "tok":
            return "str"
        if isinstance(v, ast.ListComp):
            return "toks"
        _fail(v, f"{self.name}: cannot determine the kind of this value")

    def tok_value(self, v):
        """A value stored into a list of fragments: a fragment variable or a string constant that is
        the text of a wildcard."""
        if isinstance(v, ast.Constant) and isinstance(v.value, str):
            table = {"?": "TQ", "*": "TStar", "**": "TDStar", "**/": "TDStarSlash"}
            if v.value not in table:
                _fail(v, "string constant stored as a fragment is not a wildcard text")
            USED_TOK_CONSTS.add(v.value)
            return table[v.value]
        if self.kind(v) == "tok":
            return self.E(v)
        _fail(v, "value stored into a list of fragments")

    def effect(self, c, rest, cont):
        if not isinstance(c, ast.Call) or not isinstance(c.func, ast.Attribute) or c.keywords:
            _fail(c, "expression statement")
        m, recv = c.func.attr, c.func.value
        c_args, binds = [], []
        for a in c.args:
            na, b = self.hoist(a)
            c_args.append(na)
            binds += b
        # d.setdefault(k, set()).add(p)
        if m == "add" and isinstance(recv, ast.Call) and isinstance(recv.func, ast.Attribute) \
                and recv.func.attr == "setdefault" and self.kind(recv.func.value) == "results" \
                and len(recv.args) == 2 and isinstance(recv.args[1], ast.Call) and isinstance(recv.args[1].func, ast.Name) \
                and recv.args[1].func.id == "set" and not recv.args[1].args and len(c_args) == 1:
            d = self.E(recv.func.value)
            k = self.E(recv.args[0])
            p = self.E(c_args[0])
            inner = (f"let {d} := d_setdefault keqb {k} {d} in "
                     f"let {d} := d_store keqb {k} (s_add {p} (opt_default (d_get keqb {k} {d}) [])) {d} in "
                     f"{self.block(rest, cont)}")
            return self.with_binds(binds, inner)
        rk = self.kind(recv)
        if m == "discard" and isinstance(recv, ast.Name) and recv.id in self.alias and len(c_args) == 1:
            d, k = self.alias[recv.id]
            x = self.var(recv.id)
            return (f"let {x} := s_discard {self.E(c_args[0])} {x} in let {d} := d_store keqb {k} {x} {d} in "
                    f"{self.block(rest, cont)}")
        if m == "update" and rk == "set" and len(c_args) == 1 and self.kind(c_args[0]) == "set":
            x = self.E(recv)
            return f"let {x} := s_update {x} {self.E(c_args[0])} in {self.block(rest, cont)}"
        if m == "append" and rk == "rtoks" and len(c_args) == 1:
            x = self.E(recv)
            return f"let {x} := l_append {self.tok_value(c_args[0])} {x} in {self.block(rest, cont)}"
        if m == "append" and rk == "toks" and len(c_args) == 1:
            x = self.E(recv)
            return f"let {x} := {x} ++ [{self.tok_value(c_args[0])}] in {self.block(rest, cont)}"
        if m == "extend" and rk == "toks" and len(c_args) == 1:
            x = self.E(recv)
            inner = f"let {x} := {x} ++ {self.E(c_args[0])} in {self.block(rest, cont)}"
            return self.with_binds(binds, inner)
        if m in ("extend", "reduce") and rk == "obj" and len(c_args) == 1:
            x = self.E(recv)
            return f"let {x} := gen_{m} {x} {self.E(c_args[0])} in {self.block(rest, cont)}"
        _fail(c, f"{self.name}: mutation not in the translated subset")

    def none_test(self, test):
        """`x is None` -> (x, True); `x is not None` -> (x, False); else None."""
        if isinstance(test, ast.Compare) and len(test.ops) == 1 and isinstance(test.left, ast.Name) \
                and _is_none(test.comparators[0]) and isinstance(test.ops[0], (ast.Is, ast.IsNot)):
            return test.left.id, isinstance(test.ops[0], ast.Is)
        return None

    def if_(self, s, rest, cont):
        nt = self.none_test(s.test)
        body, orelse = s.body, s.orelse
        if self.terminates(body) and not self.terminates(orelse):
            # if c: ...; return/raise/continue      <rest>   ==   if c: ... else: <orelse; rest>
            then_t = lambda: self.block(body, cont)
            else_t = lambda: self.block(orelse + rest, cont)
            return self.branch(s.test, nt, then_t, else_t)
        if self.terminates(orelse) and not self.terminates(body):
            then_t = lambda: self.block(body + rest, cont)
            else_t = lambda: self.block(orelse, cont)
            return self.branch(s.test, nt, then_t, else_t)
        if self.terminates(body) and self.terminates(orelse):
            if rest:
                _fail(s, "code after an if whose branches all leave")
            return self.branch(s.test, nt, lambda: self.block(body, cont), lambda: self.block(orelse, cont))
        # both branches fall through
        if not rest:
            return self.branch(s.test, nt, lambda: self.block(body, cont), lambda: self.block(orelse, cont))
        # ... and something follows: join on the state
        pat = self.state_pat()
        tup = lambda: self.ok(self.state_tuple())
        joined = self.branch(s.test, nt, lambda: self.block(body, tup), lambda: self.block(orelse, tup))
        after = self.block(rest, cont)
        if self.monadic:
            return f"match {joined} with CErr e => CErr e | COk {pat} => {after} end"
        return f"let {pat} := {joined} in {after}"

    def branch(self, test, nt, then_t, else_t):
        if nt is not None:
            name, is_none = nt
            k = self.kinds.get(name)
            if k not in ("okey", "oset", "oenv"):
                _fail(test, f"None test on a variable of kind {k}")
            inner = {"okey": "key", "oset": "set", "oenv": "env"}[k]
            v = self.var(name)
            saved = dict(self.kinds)
            none_t = then_t() if is_none else else_t()
            self.kinds[name] = inner
            some_t = else_t() if is_none else then_t()
            self.kinds = saved
            return f"match {v} with Some {v} => {some_t} | None => {none_t} end"
        c = self.E(test)
        return f"(if {c} then {then_t()} else {else_t()})"

    def for_(self, s, rest, cont):
        if s.orelse:
            _fail(s, "for ... else")
        it = s.iter
        saved = dict(self.kinds)
        binder_lets = ""
        if isinstance(it, ast.Call) and isinstance(it.func, ast.Name) and it.func.id == "enumerate" and len(it.args) == 1:
            inner = it.args[0]
            if not (isinstance(inner, ast.Call) and isinstance(inner.func, ast.Attribute) and inner.func.attr == "split"
                    and isinstance(inner.func.value, ast.Name) and inner.func.value.id == "RE_ANY_WILD"
                    and len(inner.args) == 1):
                _fail(s, "enumerate over something else than RE_ANY_WILD.split(..)")
            if not (isinstance(s.target, ast.Tuple) and len(s.target.elts) == 2
                    and all(isinstance(e, ast.Name) for e in s.target.elts)):
                _fail(s, "enumerate target")
            iv, pv = s.target.elts[0].id, s.target.elts[1].id
            self.kinds[iv] = "index"
            self.kinds[pv] = "tok"
            iter_t = f"(py_split_enum {self.E(inner.args[0])})"
            x = "ip"
            binder_lets = f"let {self.var(iv)}_odd := fst ip in let {self.var(pv)} := snd ip in "
        else:
            k = self.kind(it)
            if not isinstance(s.target, ast.Name):
                _fail(s, "loop target")
            elem = {"strlist": "str", "toks": "tok", "setlist": "set"}.get(k)
            if isinstance(it, ast.Call) and isinstance(it.func, ast.Attribute) and it.func.attr == "values" \
                    and self.kind(it.func.value) == "results":
                elem = "set"
            if elem is None:
                _fail(s, f"loop over a value of kind {k}")
            self.kinds[s.target.id] = elem
            iter_t = self.E(it)
            x = self.var(s.target.id)
        tup = lambda: self.ok(self.state_tuple())
        body = self.block(s.body, tup)
        self.kinds = saved
        fold = "fold_cres" if self.monadic else "fold_left"
        st = self.state_tuple()
        pat = self.state_pat()
        self.loops += 1
        lname = f"gen_{self.gname}_loop{self.loops}"
        self.lifted.append(f"{self.indent}Definition {lname}{self.lift_binders} :=\n{self.indent}  "
                           f"fun {pat} {x} => {binder_lets}{body}.")
        loop = f"{fold} ({lname}{self.lift_args}) {iter_t} {st}"
        after = self.block(rest, cont)
        if self.monadic:
            return f"match {loop} with CErr e => CErr e | COk {pat} => {after} end"
        return f"let {pat} := {loop} in {after}"


# representation of the list variables: forward list or stack (accessed through [-1])
LIST_REPR = {"convert_nglob_to_glob": {"parts": "toks", "texts": "rtoks"}}
USED_TOK_CONSTS: set[str] = set()


def _fn(name, cls=None):
    fn = find_function(parse_module(NGLOB), name, cls)
    return fn, body_without_docstring(fn)


def _args(fn):
    return [a.arg for a in fn.args.args]


def _uses_list_repr(body, name, want):
    """Check the declared representation: a stack is read/written only through [-1] / append / join,
    a forward list only through append / extend / iteration."""
    neg1 = any(isinstance(n, ast.Subscript) and isinstance(n.value, ast.Name) and n.value.id == name
               for s in body for n in ast.walk(s))
    if (want == "rtoks") != neg1:
        raise TranslatorError(f"gen_nglob_code: list `{name}` is {'not ' if want == 'rtoks' else ''}used as a stack")


def translate_get_wildcard_name():
    fn, body = _fn("_get_wildcard_name")
    if _args(fn) != ["part", "pattern"]:
        raise TranslatorError("_get_wildcard_name: signature changed")
    # `pattern` may only occur in the error message
    for s in body:
        for n in ast.walk(s):
            if isinstance(n, ast.Name) and n.id == "pattern":
                inside_raise = any(isinstance(r, ast.Raise) and any(m is n for m in ast.walk(r))
                                   for b in body for r in ast.walk(b))
                if not inside_raise:
                    raise TranslatorError("_get_wildcard_name: `pattern` is used outside the error message")
    t = Fn("_get_wildcard_name", {"part": "tok", "pattern": "str"}, [], monadic=True)
    text = t.block(body, lambda: _fail("_get_wildcard_name", "falls off the end"))
    return f"Definition gen_get_wildcard_name (part : tok) : cres str :=\n  {text}."


def translate_match_values():
    fn, body = _fn("_match_values", "NamedGlob")
    if _args(fn) != ["self", "path"]:
        raise TranslatorError("_match_values: signature changed")
    t = Fn("_match_values", {"path": "str"}, [], ret="option")
    text = t.block(body, lambda: _fail("_match_values", "falls off the end"))
    return ("Definition gen_match_values (regex : re) (used_names : list str) (path : str) : option key :=\n"
            f"  {text}.")


def translate_extend_reduce(name):
    fn, body = _fn(name, "NamedGlob")
    if _args(fn) != ["self", "paths"]:
        raise TranslatorError(f"{name}: signature changed")
    t = Fn(name, {"paths": "strlist"}, ["results"], indent="  ")
    # `self._results` is the one mutable variable; the method returns nothing
    text = t.block(body, lambda: "results")
    return ("\n".join(t.lifted) + "\n"
            + f"  Definition gen_{name} (results : Nglob.results K) (paths : list str) : Nglob.results K :=\n    {text}.")


def translate_will_change():
    fn, body = _fn("will_change", "NamedGlob")
    if _args(fn) != ["self", "deleted", "added"]:
        raise TranslatorError("will_change: signature changed")
    t = Fn("will_change", {"deleted": "strlist", "added": "strlist"}, [], ret="option")
    text = t.block(body, lambda: _fail("will_change", "falls off the end"))
    return ("  Definition gen_will_change (results : Nglob.results K) (deleted added : list str) : option (Nglob.results K) :=\n"
            f"    {text}.")


def translate_files():
    fn, body = _fn("files", "NamedGlob")
    if _args(fn) != ["self"]:
        raise TranslatorError("files: signature changed")
    t = Fn("files", {}, ["result"], indent="  ")
    text = t.block(body, lambda: _fail("files", "falls off the end"))
    return ("\n".join(t.lifted) + "\n"
            + f"  Definition gen_files (results : Nglob.results K) : list str :=\n    {text}.")


def translate_conv_glob():
    fn, body = _fn("convert_nglob_to_glob")
    if _args(fn) != ["pattern", "subs"]:
        raise TranslatorError("convert_nglob_to_glob: signature changed")
    # `if subs is None: subs = {}`: the model takes the dictionary itself
    if body and ast.unparse(body[0]) == "if subs is None:\n    subs = {}":
        body = body[1:]
    else:
        raise TranslatorError("convert_nglob_to_glob: the default of `subs` changed")
    for name, want in LIST_REPR["convert_nglob_to_glob"].items():
        _uses_list_repr(body, name, want)
    helpers = {"_get_wildcard_name": ("gen_get_wildcard_name", 2, [0], "str")}
    t = Fn("convert_nglob_to_glob", {"pattern": "str", "subs": "subs"}, ["parts", "texts"], monadic=True,
           helpers=helpers, gname="conv_glob", lift_binders=" (pattern : str) (subs : subs_t)",
           lift_args=" pattern subs")
    # split the body at the loops: each loop carries one list
    out = []
    # state handling: the first loop carries `parts`, the second `texts`; translate sequentially with
    # the state restricted to the variable the loop mutates
    text = _conv_glob_block(t, body)
    out += t.lifted
    out.append("Definition gen_conv_glob (pattern : str) (subs : subs_t) : cres str :=\n  " + text + ".")
    return "\n".join(out)


def _conv_glob_block(t, body):
    """Translate statement by statement; a for loop carries exactly the list it mutates."""
    if not body:
        _fail("convert_nglob_to_glob", "falls off the end")
    s, rest = body[0], body[1:]
    if isinstance(s, ast.For):
        mutated = sorted({n.func.value.id for n in ast.walk(s) if isinstance(n, ast.Call)
                          and isinstance(n.func, ast.Attribute) and n.func.attr in ("append", "extend")
                          and isinstance(n.func.value, ast.Name)}
                         | {n.value.id for n in ast.walk(s) if isinstance(n, ast.Subscript)
                            and isinstance(n.ctx, ast.Store) and isinstance(n.value, ast.Name)})
        if len(mutated) != 1 or mutated[0] not in t.kinds:
            _fail(s, "a loop that mutates other than one known list")
        t.state = mutated
        return t.for_(s, [], lambda: _conv_glob_block(t, rest))
    if isinstance(s, ast.Assign) and len(s.targets) == 1 and isinstance(s.targets[0], ast.Name):
        value = s.value
        name = s.targets[0].id
        if isinstance(value, ast.List) and not value.elts:
            k = LIST_REPR["convert_nglob_to_glob"].get(name)
            if k is None:
                _fail(s, "list without a declared representation")
            t.kinds[name] = k
            return f"let {t.var(name)} := [] in {_conv_glob_block(t, rest)}"
        text = t.E(value)
        t.kinds[name] = t.infer(value)
        return f"let {t.var(name)} := {text} in {_conv_glob_block(t, rest)}"
    if isinstance(s, ast.Return):
        if rest:
            _fail(s, "code after return")
        return f"COk {t.E(s.value)}"
    _fail(s, "convert_nglob_to_glob: top-level statement not in the translated subset")


HEADER = """(* GENERATED by translator/gen_nglob_code.py from /repo/stepup/core/nglob.py -- do not edit.
   Statement-by-statement translation of the Python code into Gallina over model/NglobPy.v. *)
From Coq Require Import List NArith Bool Arith.
From SV Require Import lib.Bytes.
From SV Require Import lib.Regex.
From SV Require Import model.Nglob.
From SV Require Import model.NglobPy.
Import ListNotations.
Open Scope N_scope.
"""


def generate():
    USED_TOK_CONSTS.clear()
    parts = [HEADER]
    parts.append("(* _get_wildcard_name(part, pattern) *)")
    parts.append(translate_get_wildcard_name())
    parts.append("\n(* NamedGlob._match_values(self, path) *)")
    parts.append(translate_match_values())
    parts.append("\nSection GenResults.\n  Variable K : Type.\n  Variable keqb : K -> K -> bool.\n"
                 "  Variable mv : str -> option K.   (* self._match_values *)\n")
    parts.append("  (* NamedGlob.extend(self, paths) *)")
    parts.append(translate_extend_reduce("extend"))
    parts.append("\n  (* NamedGlob.reduce(self, paths) *)")
    parts.append(translate_extend_reduce("reduce"))
    parts.append("\n  (* NamedGlob.will_change(self, deleted, added) *)")
    parts.append(translate_will_change())
    parts.append("\n  (* NamedGlob.files(self) *)")
    parts.append(translate_files())
    parts.append("End GenResults.\n")
    parts.append("(* convert_nglob_to_glob(pattern, subs) *)")
    parts.append(translate_conv_glob())
    consts = sorted(USED_TOK_CONSTS)
    table = {"?": "TQ", "*": "TStar", "**": "TDStar", "**/": "TDStarSlash"}
    parts.append("\n(* string constants that the code stores as fragments, with the token the translator chose:\n"
                 "   proofs/NglobCodeTie.v checks tok_text of the token is the constant *)")
    parts.append("Definition gen_tok_consts : list (tok * str) := ["
                 + "; ".join(f"({table[c]}, {coq_str(c)})" for c in consts) + "].")
    parts.append("")
    return "\n".join(parts), {"translated_functions": ["_get_wildcard_name", "NamedGlob._match_values",
                                                        "NamedGlob.extend", "NamedGlob.reduce",
                                                        "NamedGlob.will_change", "NamedGlob.files",
                                                        "convert_nglob_to_glob"]}


if __name__ == "__main__":
    print(generate()[0])
