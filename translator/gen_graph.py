"""Translator for C09: the constant tables behind coq/model/Graph.v.

Re-reads, on every run, from the repo given by VERIF_REPO / PYTHONPATH:

  a. the integer values of FileState, StepState, Need, HashUpdateCause, FileRole (enums.py);
  b. FILE_STATES_BY_ROLE / FILE_ROLE_BY_STATE (enums.py);
  c. `_HASH_TRANSITIONS` (workflow.py; the imported dict cross-checked against the AST of the literal);
  d. the WHEN clause of the `file_clear_hash` trigger (file.py, FILE_SCHEMA);
  e. the CHECK constraints of the `file` table (the one that demands a hash);
  f. the WHEN clauses of step_reset_holding, step_clear_deferred, step_reset_defer_count and the
     CHECKs of the `step` table on state / need / deferred (step.py, STEP_SCHEMA);
  g. the kind tables of node_check_creator_kind_ins/_upd and dependency_check_kinds_ins
     (workflow.py, WORKFLOW_SCHEMA) and the `kind()` strings of Root/File/Step/StaticTree;
  h. `_DECLARABLE_STATES` (workflow.py);
  plus the state of the file_check_undeclared_detached_ins/_upd triggers and a census of ALL
  triggers of the four schema scripts: a trigger that writes a table/column the model describes,
  or that RAISEs, and that is not one of the triggers translated here, is an unrecognised source
  shape.

Writes coq/gen/GenGraph.v: definitions only (N codes, lists, association lists).  The theorems
that the hand-written tables of model/Graph.v equal these for all arguments are in
coq/proofs/GraphTables.v.  Fail closed: every shape that is not recognised raises TranslatorError.

Usage:  harness:  `from translator import gen_graph; gen_graph.generate(ctx)`
        by hand:  `gen_graph.render()` returns the text of GenGraph.v.
"""

from __future__ import annotations

import ast
import enum
import importlib
import re

from . import sqlexpr
from .astutil import TranslatorError, parse_module, REPO

CORE = "stepup/core"

# Coding of the node kinds (fixed by the model: proofs/GraphTables.v `kind_code`).
KIND_CLASSES = [("root", "trellis", "Root", 0), ("file", "file", "File", 1),
                ("step", "step", "Step", 2), ("st", "static_tree", "StaticTree", 3)]
# Coding of the action column of _HASH_TRANSITIONS (proofs/GraphTables.v `action_code`).
ACTION_CODES = {"updated": 1, "deleted": 2, "completed": 3}
ENUMS = ["FileState", "StepState", "Need", "HashUpdateCause", "FileRole"]
_KIND_BASE = 9000  # string literals of kinds are replaced by _KIND_BASE + code before parsing


# ---------------------------------------------------------------------------------------------
# Imports of the repo modules (working tree given by VERIF_REPO / PYTHONPATH)
# ---------------------------------------------------------------------------------------------


def _import(name):
    try:
        mod = importlib.import_module(name)
    except Exception as e:  # noqa: BLE001
        raise TranslatorError(f"cannot import {name}: {type(e).__name__}: {e}") from e
    path = getattr(mod, "__file__", "") or ""
    if not path.startswith(str(REPO)):
        raise TranslatorError(f"{name} imported from {path}, not from {REPO}")
    return mod


def _const(mod, name):
    if not hasattr(mod, name) or not isinstance(getattr(mod, name), str):
        raise TranslatorError(f"{mod.__name__}.{name} is not a string constant any more")
    return getattr(mod, name)


def _norm(s: str) -> str:
    return re.sub(r"\s+", " ", s).strip()


# ---------------------------------------------------------------------------------------------
# a, b. enums
# ---------------------------------------------------------------------------------------------


def tr_enums(enums):
    out = {}
    for name in ENUMS:
        cls = getattr(enums, name, None)
        if not (isinstance(cls, type) and issubclass(cls, enum.IntEnum)):
            raise TranslatorError(f"enums.{name} is not an IntEnum any more")
        members = [(m.name, int(m.value)) for m in cls]
        if len(cls.__members__) != len(members):
            raise TranslatorError(f"enums.{name} has aliases: {sorted(cls.__members__)}")
        for n, v in members:
            if not re.fullmatch(r"[A-Z][A-Z0-9_]*", n) or v < 0:
                raise TranslatorError(f"enums.{name}.{n} = {v}: unexpected member")
        if len({v for _, v in members}) != len(members):
            raise TranslatorError(f"enums.{name}: values not distinct")
        out[name] = sorted(members, key=lambda nv: nv[1])
    return out


def tr_roles(enums):
    by_role = getattr(enums, "FILE_STATES_BY_ROLE", None)
    by_state = getattr(enums, "FILE_ROLE_BY_STATE", None)
    if not isinstance(by_role, dict) or not isinstance(by_state, dict):
        raise TranslatorError("FILE_STATES_BY_ROLE / FILE_ROLE_BY_STATE are not dicts")
    if set(by_role) != set(enums.FileRole) or not all(type(k) is enums.FileRole for k in by_role):
        raise TranslatorError(f"FILE_STATES_BY_ROLE keys are not exactly the FileRole members: {list(by_role)}")
    inv = {}
    for role, states in by_role.items():
        if not isinstance(states, frozenset) or not states or \
                not all(type(s) is enums.FileState for s in states):
            raise TranslatorError(f"FILE_STATES_BY_ROLE[{role!r}] is not a non-empty frozenset of FileState")
        for s in states:
            if s in inv:
                raise TranslatorError(f"FILE_STATES_BY_ROLE: {s!r} has two roles")
            inv[s] = role
    if not all(type(k) is enums.FileState and type(v) is enums.FileRole for k, v in by_state.items()):
        raise TranslatorError("FILE_ROLE_BY_STATE is not a FileState -> FileRole dict")
    if dict(by_state) != inv:
        raise TranslatorError("FILE_ROLE_BY_STATE is not the inverse of FILE_STATES_BY_ROLE")
    role_by_state = sorted((int(s), int(r)) for s, r in by_state.items())
    states_by_role = sorted((int(r), sorted(int(s) for s in ss)) for r, ss in by_role.items())
    return role_by_state, states_by_role


# ---------------------------------------------------------------------------------------------
# c, h. _HASH_TRANSITIONS and _DECLARABLE_STATES: AST of the literal + the imported object
# ---------------------------------------------------------------------------------------------


def _module_assign(tree, name):
    hits = []
    for node in tree.body:
        if isinstance(node, ast.AnnAssign) and isinstance(node.target, ast.Name) and node.target.id == name:
            hits.append(node.value)
        elif isinstance(node, ast.Assign) and any(isinstance(t, ast.Name) and t.id == name for t in node.targets):
            hits.append(node.value)
    if len(hits) != 1 or hits[0] is None:
        raise TranslatorError(f"workflow.py: expected exactly one module-level assignment of {name}, found {len(hits)}")
    return hits[0]


def _enum_attr(node, enums, cls_name):
    if not (isinstance(node, ast.Attribute) and isinstance(node.value, ast.Name) and node.value.id == cls_name):
        raise TranslatorError(f"expected {cls_name}.<MEMBER>, found {ast.unparse(node)}")
    cls = getattr(enums, cls_name)
    if node.attr not in cls.__members__:
        raise TranslatorError(f"{cls_name}.{node.attr} is not a member")
    return int(cls[node.attr])


def _name_uses(tree, name):
    """The contexts (Load/Store) of every occurrence of the name `name` in the module."""
    uses = []
    for node in ast.walk(tree):
        if isinstance(node, ast.Name) and node.id == name:
            uses.append(type(node.ctx).__name__)
    return uses


def tr_hash_transitions(enums, wf):
    tree = parse_module(f"{CORE}/workflow.py")
    lit = _module_assign(tree, "_HASH_TRANSITIONS")
    if not isinstance(lit, ast.Dict):
        raise TranslatorError("_HASH_TRANSITIONS is not a dict literal")
    rows = []
    for k, v in zip(lit.keys, lit.values):
        if not (isinstance(k, ast.Tuple) and len(k.elts) == 3 and isinstance(v, ast.Tuple) and len(v.elts) == 2):
            raise TranslatorError(f"_HASH_TRANSITIONS row shape: {ast.unparse(k) if k else k}")
        c = _enum_attr(k.elts[0], enums, "HashUpdateCause")
        o = _enum_attr(k.elts[1], enums, "FileState")
        kn = k.elts[2]
        if not (isinstance(kn, ast.Constant) and isinstance(kn.value, bool)):
            raise TranslatorError(f"_HASH_TRANSITIONS: hash_known is not a bool literal in {ast.unparse(k)}")
        n = _enum_attr(v.elts[0], enums, "FileState")
        a = v.elts[1]
        if not (isinstance(a, ast.Constant) and (a.value is None or a.value in ACTION_CODES)):
            raise TranslatorError(f"_HASH_TRANSITIONS: unknown action in {ast.unparse(v)}")
        rows.append(((c, o, kn.value), (n, a.value)))
    if len({k for k, _ in rows}) != len(rows):
        raise TranslatorError("_HASH_TRANSITIONS: duplicate key in the literal")
    obj = getattr(wf, "_HASH_TRANSITIONS", None)
    if not isinstance(obj, dict):
        raise TranslatorError("workflow._HASH_TRANSITIONS is not a dict")
    try:
        live = [((int(c), int(o), k), (int(n), a)) for (c, o, k), (n, a) in obj.items()]
        typed = all(type(c) is enums.HashUpdateCause and type(o) is enums.FileState and type(k) is bool
                    and type(n) is enums.FileState for (c, o, k), (n, a) in obj.items())
    except (TypeError, ValueError) as e:
        raise TranslatorError(f"workflow._HASH_TRANSITIONS: unexpected row: {e}") from e
    if not typed or live != rows:
        raise TranslatorError("_HASH_TRANSITIONS at run time differs from its literal (mutated after definition?)")
    # the only use: the lookup in update_file_hashes
    if sorted(_name_uses(tree, "_HASH_TRANSITIONS")) != ["Load", "Store"]:
        raise TranslatorError(f"_HASH_TRANSITIONS: uses changed: {_name_uses(tree, '_HASH_TRANSITIONS')}")
    src = (REPO / CORE / "workflow.py").read_text()
    if src.count("_HASH_TRANSITIONS.get((cause, old_state, not new_fh.is_unknown))") != 1:
        raise TranslatorError("update_file_hashes: the _HASH_TRANSITIONS lookup changed")
    return rows


def tr_declarable(enums, wf):
    tree = parse_module(f"{CORE}/workflow.py")
    lit = _module_assign(tree, "_DECLARABLE_STATES")
    if not isinstance(lit, (ast.Tuple, ast.List, ast.Set)):
        raise TranslatorError("_DECLARABLE_STATES is not a tuple/list/set literal")
    codes = [_enum_attr(e, enums, "FileState") for e in lit.elts]
    obj = getattr(wf, "_DECLARABLE_STATES", None)
    if not isinstance(obj, (tuple, list, set, frozenset)) or \
            not all(type(s) is enums.FileState for s in obj) or sorted(int(s) for s in obj) != sorted(codes):
        raise TranslatorError("_DECLARABLE_STATES at run time differs from its literal")
    if len(set(codes)) != len(codes):
        raise TranslatorError("_DECLARABLE_STATES: duplicate member")
    if sorted(_name_uses(tree, "_DECLARABLE_STATES")) != ["Load", "Store"]:
        raise TranslatorError("_DECLARABLE_STATES: uses changed")
    src = (REPO / CORE / "workflow.py").read_text()
    if len(re.findall(r"\n        if file_state not in _DECLARABLE_STATES:\n", src)) != 1:
        raise TranslatorError("_declare_file: the _DECLARABLE_STATES guard changed")
    return sorted(codes)


# ---------------------------------------------------------------------------------------------
# SQL scripts: triggers and CHECK constraints
# ---------------------------------------------------------------------------------------------

_TRIGGER_RE = re.compile(
    r"CREATE (TEMP )?TRIGGER IF NOT EXISTS (\w+) (AFTER|BEFORE|INSTEAD OF) "
    r"(INSERT|DELETE|UPDATE(?: OF [\w, ]+?)?) ON (\w+)\s+(?:WHEN (.*?)\s+)?BEGIN\s+(.*?)\bEND;", re.S)


def triggers_of(script: str, where: str):
    """{name: dict(temp, timing, event, table, when, body)} of one schema script (comments stripped)."""
    text = sqlexpr.strip_comments(script)
    out = {}
    for m in _TRIGGER_RE.finditer(text):
        temp, name, timing, event, table, when, body = m.groups()
        if name in out:
            raise TranslatorError(f"{where}: trigger {name} defined twice")
        out[name] = dict(temp=bool(temp), timing=timing, event=_norm(event), table=table,
                         when=None if when is None else _norm(when), body=_norm(body), where=where)
    n = len(re.findall(r"\bCREATE\s+(?:TEMP\s+|TEMPORARY\s+)?TRIGGER\b", text, re.I))
    if n != len(out):
        raise TranslatorError(f"{where}: {n} CREATE TRIGGER statements but {len(out)} recognised")
    return out


def _get_trigger(trigs, name, event, table):
    t = trigs.get(name)
    if t is None:
        raise TranslatorError(f"trigger {name} not found")
    if t["temp"] or t["timing"] != "AFTER" or t["event"] != event or t["table"] != table:
        raise TranslatorError(f"trigger {name}: header changed: {t['timing']} {t['event']} ON {t['table']}"
                              f"{' (TEMP)' if t['temp'] else ''}")
    return t


def _matching_paren(text, i):
    depth = 0
    for j in range(i, len(text)):
        if text[j] == "(":
            depth += 1
        elif text[j] == ")":
            depth -= 1
            if depth == 0:
                return j
    raise TranslatorError("unbalanced parentheses in a schema script")


def table_checks(script: str, table: str):
    """The bodies of all CHECK(...) constraints (column and table level) of CREATE TABLE <table>."""
    text = sqlexpr.strip_comments(script)
    ms = list(re.finditer(rf"CREATE TABLE IF NOT EXISTS {table}\s*\(", text))
    if len(ms) != 1:
        raise TranslatorError(f"CREATE TABLE {table}: found {len(ms)} times")
    start = ms[0].end() - 1
    end = _matching_paren(text, start)
    body = text[start + 1:end]
    checks = []
    for m in re.finditer(r"\bCHECK\s*\(", body):
        i = m.end() - 1
        j = _matching_paren(body, i)
        checks.append(_norm(body[i + 1:j]))
    return checks


def _col(e, table, name):
    return e == ("col", table, name)


def _flatten(e, op):
    if e[0] == op:
        return _flatten(e[1], op) + _flatten(e[2], op)
    return [e]


def _state_set(e, table, col="state"):
    """`T.col = n` or `T.col IN (n, ...)` -> list of n; anything else -> None."""
    if e[0] == "cmp" and e[1] == "eq" and _col(e[2], table, col) and e[3][0] == "const":
        return [e[3][1]]
    if e[0] == "in" and _col(e[1], table, col):
        return list(e[2])
    return None


def _require_members(codes, members, what):
    vals = {v for _, v in members}
    for c in codes:
        if c not in vals:
            raise TranslatorError(f"{what}: {c} is not a value of the enum")
    if len(set(codes)) != len(codes):
        raise TranslatorError(f"{what}: duplicate value in {codes}")


# ---- d. file_clear_hash ---------------------------------------------------------------------


def tr_clear_hash(trigs, fstates):
    t = _get_trigger(trigs, "file_clear_hash", "UPDATE OF state", "file")
    if t["body"] != "UPDATE file SET hash = NULL WHERE node = NEW.node;":
        raise TranslatorError(f"file_clear_hash: action changed: {t['body']}")
    if t["when"] is None:
        raise TranslatorError("file_clear_hash: no WHEN clause")
    e = sqlexpr.parse(t["when"])
    requires_hash = False
    if e[0] == "and" and e[2] == ("notnull", ("col", "NEW", "hash")):
        requires_hash = True
        e = e[1]
    disjuncts = []
    for d in _flatten(e, "or"):
        parts = _flatten(d, "and")
        new = _state_set(parts[0], "NEW")
        if new is None or len(parts) > 2:
            raise TranslatorError(f"file_clear_hash: WHEN disjunct not recognised: {d}")
        old = None
        if len(parts) == 2:
            old = _state_set(parts[1], "OLD")
            if old is None:
                raise TranslatorError(f"file_clear_hash: WHEN disjunct not recognised: {d}")
            _require_members(old, fstates, "file_clear_hash OLD.state")
        _require_members(new, fstates, "file_clear_hash NEW.state")
        disjuncts.append((new, old))
    return disjuncts, requires_hash


# ---- e. CHECKs of the file table ------------------------------------------------------------


def tr_file_checks(script, fstates):
    checks = table_checks(script, "file")
    lo, hi = min(v for _, v in fstates), max(v for _, v in fstates)
    needs = None
    for c in checks:
        if c == f"state >= {lo} AND state <= {hi}" or c == "hash IS NULL OR json_valid(hash)":
            continue
        e = sqlexpr.parse(c)
        if (e[0] == "or" and e[1][0] == "notin" and _col(e[1][1], None, "state")
                and e[2] == ("notnull", ("col", None, "hash")) and needs is None):
            needs = list(e[1][2])
            continue
        raise TranslatorError(f"file table: CHECK not recognised: {c}")
    if needs is None:
        raise TranslatorError("file table: the CHECK (state NOT IN (...) OR hash IS NOT NULL) is gone")
    _require_members(needs, fstates, "file table CHECK")
    return sorted(needs)


# ---- f. step triggers and CHECKs ------------------------------------------------------------


def tr_step(trigs, script, sstates, needs):
    t = _get_trigger(trigs, "step_reset_holding", "UPDATE OF state", "step")
    if t["body"] != "UPDATE step SET _holding = 0 WHERE node = NEW.node;" or t["when"] is None:
        raise TranslatorError(f"step_reset_holding: action changed: {t['body']}")
    e = sqlexpr.parse(t["when"])
    if not (e[0] == "and" and e[1][0] == "cmp" and e[1][1] == "ne" and _col(e[1][2], "NEW", "state")
            and e[1][3][0] == "const" and e[2] == ("cmp", "ne", ("col", "NEW", "_holding"), ("const", 0))):
        raise TranslatorError(f"step_reset_holding: WHEN not `NEW.state != k AND NEW._holding != 0`: {t['when']}")
    kept = e[1][3][1]

    t = _get_trigger(trigs, "step_clear_deferred", "UPDATE OF state", "step")
    if t["body"] != "UPDATE step SET deferred = FALSE WHERE node = NEW.node;" or t["when"] is None:
        raise TranslatorError(f"step_clear_deferred: action changed: {t['body']}")
    clear = _state_set(sqlexpr.parse(t["when"]), "NEW")
    if clear is None:
        raise TranslatorError(f"step_clear_deferred: WHEN not `NEW.state IN (...)`: {t['when']}")

    t = _get_trigger(trigs, "step_reset_defer_count", "UPDATE OF state", "step")
    if t["body"] != "UPDATE step SET defer_count = 0 WHERE node = NEW.node;" or t["when"] is None:
        raise TranslatorError(f"step_reset_defer_count: action changed: {t['body']}")
    reset = _state_set(sqlexpr.parse(t["when"]), "NEW")
    if reset is None or len(reset) != 1:
        raise TranslatorError(f"step_reset_defer_count: WHEN not `NEW.state = k`: {t['when']}")

    # CHECKs of the step table that mention a column the model describes
    lo, hi = min(v for _, v in sstates), max(v for _, v in sstates)
    modelled = re.compile(r"\b(state|need|deferred|defer_count|_holding)\b")
    known = {f"state >= {lo} AND state <= {hi}", "deferred IN (0, 1)", "defer_count >= 0", "_holding >= 0"}
    pending = need_vals = None
    for c in table_checks(script, "step"):
        if not modelled.search(c) or c in known:
            continue
        e = sqlexpr.parse(c)
        if e[0] == "in" and _col(e[1], None, "need") and need_vals is None:
            need_vals = list(e[2])
        elif (e[0] == "or" and e[1] == ("not", ("col", None, "deferred")) and e[2][0] == "cmp"
              and e[2][1] == "eq" and _col(e[2][2], None, "state") and e[2][3][0] == "const"
              and pending is None):
            pending = e[2][3][1]
        else:
            raise TranslatorError(f"step table: CHECK not recognised: {c}")
    if pending is None:
        raise TranslatorError("step table: CHECK (NOT deferred OR state = k) is gone")
    if need_vals is None:
        raise TranslatorError("step table: CHECK (need IN (...)) is gone")
    _require_members([kept], sstates, "step_reset_holding")
    _require_members(clear, sstates, "step_clear_deferred")
    _require_members(reset, sstates, "step_reset_defer_count")
    _require_members([pending], sstates, "step table CHECK")
    _require_members(need_vals, needs, "step table CHECK need")
    return kept, sorted(clear), reset[0], pending, sorted(need_vals)


# ---- 84081f2: re-attachment clears the deferred flag of the consumers ------------------------


_UNDEFER_BASE = ("UPDATE step SET deferred = FALSE WHERE deferred AND node IN "
                 "(SELECT sink FROM dependency WHERE source = NEW.i)")
# canonical text of the "unusable dynamic input" subquery (aliases removed, {N} = the node expression)
_UNUSABLE_CANON = ("SELECT 1 FROM dependency JOIN dynamic_dep ON dynamic_dep.i = dependency.i "
                   "JOIN node ON node.i = dependency.source JOIN file ON file.node = dependency.source "
                   "WHERE dependency.sink = {N} AND ( node.detached OR file.state NOT IN (%d, %d) )")


def _canon_unusable(sql: str, node_expr: str, enums) -> bool:
    t = _norm(sqlexpr.strip_comments(sql))
    for alias, table in (("dyn_dep", "dependency"), ("dyn_node", "node"), ("dyn_file", "file")):
        t = t.replace(f"{table} AS {alias}", table)
        t = re.sub(rf"\b{alias}\b", table, t)
    t = re.sub(r"\(\s+", "( ", t)
    t = re.sub(r"\s+\)", " )", t)
    want = (_UNUSABLE_CANON % (int(enums.FileState.CONFIRMED), int(enums.FileState.BUILT))).replace("{N}", node_expr)
    return _norm(t) == _norm(want)


def tr_undefer(trigs, enums, stepm):
    """step_node_undefer_reattached (modelled by undefer_post_with of model/GraphExt.v) in one of its two
    forms -- the first form of 84081f2 (every deferred consumer of the re-attached node) or the
    refinement (... AND NOT EXISTS (unusable dynamic input of the step)) -- and the query of
    Step.has_unusable_dynamic_input, inline or through the shared fragment unusable_dynamic_input_sql.
    Returns refined : bool."""
    t = _get_trigger(trigs, "step_node_undefer_reattached", "UPDATE OF detached", "node")
    if t["when"] != "OLD.detached AND NOT NEW.detached":
        raise TranslatorError(f"step_node_undefer_reattached: WHEN changed: {t['when']}")
    body = t["body"]
    if body == _UNDEFER_BASE + ";":
        refined = False
    else:
        m = re.fullmatch(re.escape(_UNDEFER_BASE) + r" AND NOT EXISTS \((.*)\);", body)
        if not m or not _canon_unusable(m.group(1), "step.node", enums):
            raise TranslatorError(f"step_node_undefer_reattached: action not recognised: {body}")
        refined = True
    # Step.has_unusable_dynamic_input: SELECT EXISTS (<the same subquery for ?>)
    fn = None
    for node in ast.walk(parse_module(f"{CORE}/step.py")):
        if isinstance(node, ast.FunctionDef) and node.name == "has_unusable_dynamic_input":
            fn = node
    if fn is None:
        raise TranslatorError("Step.has_unusable_dynamic_input not found")
    frag = getattr(stepm, "unusable_dynamic_input_sql", None)
    src = ast.unparse(fn)
    if frag is not None and "unusable_dynamic_input_sql('?')" in src:
        if _norm(src).count("SELECT EXISTS ({unusable_dynamic_input_sql('?')})") != 1:
            raise TranslatorError("has_unusable_dynamic_input: not `SELECT EXISTS (<fragment>)`")
        sub = frag("?")
    else:
        lits = [n for n in ast.walk(fn) if isinstance(n, ast.JoinedStr)]
        if len(lits) != 1:
            raise TranslatorError("has_unusable_dynamic_input: expected one f-string query")
        text = "".join(v.value if isinstance(v, ast.Constant) else
                       str(int(eval(compile(ast.Expression(v.value), "<q>", "eval"), {"FileState": enums.FileState})))
                       for v in lits[0].values)
        m = re.fullmatch(r"SELECT EXISTS \((.*)\)", _norm(text))
        if not m:
            raise TranslatorError("has_unusable_dynamic_input: not `SELECT EXISTS (...)`")
        sub = m.group(1)
    if not _canon_unusable(sub, "?", enums):
        raise TranslatorError(f"has_unusable_dynamic_input: query not recognised: {_norm(sub)}")
    if "return bool(self.db.execute(sql, (self.i,)).fetchone()[0])" not in src:
        raise TranslatorError("has_unusable_dynamic_input: result expression changed")
    src = (REPO / CORE / "executor.py").read_text()
    if src.count("step.set_state(StepState.PENDING, step.has_unusable_dynamic_input())") != 1:
        raise TranslatorError("validate_dynamic_job: the deferred flag is no longer has_unusable_dynamic_input()")
    return refined


# ---- undeclared => detached -----------------------------------------------------------------


def tr_undeclared(trigs, fstates):
    vals = []
    for name, event in (("file_check_undeclared_detached_ins", "INSERT"),
                        ("file_check_undeclared_detached_upd", "UPDATE OF state")):
        t = _get_trigger(trigs, name, event, "file")
        if not re.fullmatch(r"SELECT RAISE\(ABORT, '[^']*'\) FROM node WHERE node\.i = NEW\.node AND NOT node\.detached;",
                            t["body"]) or t["when"] is None:
            raise TranslatorError(f"{name}: action changed: {t['body']}")
        s = _state_set(sqlexpr.parse(t["when"]), "NEW")
        if s is None or len(s) != 1:
            raise TranslatorError(f"{name}: WHEN not `NEW.state = k`: {t['when']}")
        vals.append(s[0])
    if vals[0] != vals[1]:
        raise TranslatorError(f"file_check_undeclared_detached_ins/_upd disagree: {vals}")
    _require_members(vals[:1], fstates, "file_check_undeclared_detached")
    return vals[0]


# ---- g. kind tables -------------------------------------------------------------------------


def tr_kinds():
    names = {}
    for expect, modname, clsname, code in KIND_CLASSES:
        mod = _import(f"stepup.core.{modname}")
        cls = getattr(mod, clsname, None)
        if cls is None:
            raise TranslatorError(f"{modname}.{clsname} not found")
        k = cls.kind()
        if not isinstance(k, str) or not re.fullmatch(r"[a-z_]+", k):
            raise TranslatorError(f"{clsname}.kind() = {k!r}")
        names[k] = code
    if len(names) != len(KIND_CLASSES):
        raise TranslatorError(f"kind() strings not distinct: {names}")
    return names


def _kind_literals(sql, names):
    def rep(m):
        if m.group(1) not in names:
            raise TranslatorError(f"unknown kind literal {m.group(0)} in a kind trigger")
        return str(_KIND_BASE + names[m.group(1)])
    if re.search(r"\b\d+\b", sql):
        raise TranslatorError(f"integer literal in a kind expression: {sql}")
    return re.sub(r"'([^']*)'", rep, sql)


def _kind_set(e, table):
    s = _state_set(e, table, "kind")
    if s is None:
        return None
    if not all(_KIND_BASE <= v < _KIND_BASE + len(KIND_CLASSES) for v in s) or len(set(s)) != len(s):
        return None
    return [v - _KIND_BASE for v in s]


def tr_creator_kinds(trigs, names):
    tables, exempts = [], []
    for name, event, msg in (("node_check_creator_kind_ins", "INSERT", None),
                             ("node_check_creator_kind_upd", "UPDATE OF creator", None)):
        t = _get_trigger(trigs, name, event, "node")
        if t["when"] is None:
            raise TranslatorError(f"{name}: no WHEN clause")
        parts = _flatten(sqlexpr.parse(_kind_literals(t["when"], names)), "and")
        if not parts or parts[0] != ("notnull", ("col", "NEW", "creator")):
            raise TranslatorError(f"{name}: WHEN does not start with NEW.creator IS NOT NULL: {t['when']}")
        exempt = []
        for p in parts[1:]:
            if not (p[0] == "cmp" and p[1] == "ne" and _col(p[2], "NEW", "kind") and p[3][0] == "const"
                    and _KIND_BASE <= p[3][1] < _KIND_BASE + len(KIND_CLASSES)):
                raise TranslatorError(f"{name}: WHEN conjunct not `NEW.kind != '<kind>'`: {t['when']}")
            exempt.append(p[3][1] - _KIND_BASE)
        m = re.fullmatch(r"SELECT RAISE\(ABORT, '[^']*'\) FROM node AS c WHERE c\.i = NEW\.creator AND NOT \((.*)\);",
                         t["body"])
        if not m:
            raise TranslatorError(f"{name}: body not recognised: {t['body']}")
        table = []
        for d in _flatten(sqlexpr.parse(_kind_literals(m.group(1), names)), "or"):
            parts = _flatten(d, "and")
            child = _kind_set(parts[0], "NEW") if len(parts) == 2 else None
            parents = _kind_set(parts[1], "c") if len(parts) == 2 else None
            if child is None or len(child) != 1 or parents is None:
                raise TranslatorError(f"{name}: disjunct not `NEW.kind = k AND c.kind IN (...)`: {d}")
            if child[0] in [c for c, _ in table]:
                raise TranslatorError(f"{name}: child kind {child[0]} listed twice")
            table.append((child[0], parents))
        tables.append(table)
        exempts.append(sorted(exempt))
    canon = lambda tb: sorted((c, sorted(ps)) for c, ps in tb)
    if canon(tables[0]) != canon(tables[1]) or exempts[0] != exempts[1]:
        raise TranslatorError(f"node_check_creator_kind_ins and _upd disagree: {tables} / {exempts}")
    if len(set(exempts[0])) != len(exempts[0]):
        raise TranslatorError(f"creator-kind triggers: duplicate exempt kind {exempts[0]}")
    return tables[0], exempts[0]


def tr_dependency_kinds(trigs, names):
    t = _get_trigger(trigs, "dependency_check_kinds_ins", "INSERT", "dependency")
    if t["when"] is not None:
        raise TranslatorError(f"dependency_check_kinds_ins: unexpected WHEN clause: {t['when']}")
    m = re.fullmatch(r"SELECT RAISE\(ABORT, '[^']*'\) FROM node AS s, node AS k "
                     r"WHERE s\.i = NEW\.source AND k\.i = NEW\.sink AND NOT \((.*)\);", t["body"])
    if not m:
        raise TranslatorError(f"dependency_check_kinds_ins: body not recognised: {t['body']}")
    pairs = []
    for d in _flatten(sqlexpr.parse(_kind_literals(m.group(1), names)), "or"):
        parts = _flatten(d, "and")
        src = _kind_set(parts[0], "s") if len(parts) == 2 else None
        snk = _kind_set(parts[1], "k") if len(parts) == 2 else None
        if src is None or snk is None or len(src) != 1 or len(snk) != 1:
            raise TranslatorError(f"dependency_check_kinds_ins: disjunct not `s.kind = a AND k.kind = b`: {d}")
        pairs.append((src[0], snk[0]))
    if len(set(pairs)) != len(pairs):
        raise TranslatorError(f"dependency_check_kinds_ins: duplicate pair in {pairs}")
    return pairs


# ---- census of all triggers -----------------------------------------------------------------

# tables (and, for `step`, columns) that model/Graph.v describes
_MODELLED_TABLES = {"node", "file", "dependency", "dynamic_dep", "env_var", "step_hash"}
_MODELLED_STEP_COLUMNS = {"state", "need", "deferred", "defer_count", "_holding"}
# the triggers translated above: name -> what they may do
_KNOWN_WRITERS = {
    "file_clear_hash": {"file.hash"},
    "step_reset_holding": {"step._holding"},
    "step_clear_deferred": {"step.deferred"},
    "step_reset_defer_count": {"step.defer_count"},
}
_KNOWN_WRITERS["step_node_undefer_reattached"] = {"step.deferred"}
_KNOWN_RAISERS = {"node_check_creator_kind_ins", "node_check_creator_kind_upd", "dependency_check_kinds_ins",
                  "file_check_undeclared_detached_ins", "file_check_undeclared_detached_upd"}


def _writes(body):
    out = set()
    for m in re.finditer(r"\bUPDATE (?:OR \w+ )?(\w+) SET (.*?)(?: WHERE |;)", body):
        table, sets = m.group(1), m.group(2)
        cols = re.findall(r"(?:^|,)\s*(\w+)\s*=", sets)
        if not cols:
            raise TranslatorError(f"trigger census: cannot read the SET list of: {m.group(0)}")
        out |= {f"{table}.{c}" for c in cols}
    for m in re.finditer(r"\b(?:INSERT|REPLACE)(?: OR \w+)? INTO (\w+)", body):
        out.add(f"{m.group(1)}.*")
    for m in re.finditer(r"\bDELETE FROM (\w+)", body):
        out.add(f"{m.group(1)}.*")
    return out


def census(all_trigs):
    rows = []
    for name in sorted(all_trigs):
        t = all_trigs[name]
        writes = _writes(t["body"])
        modelled = {w for w in writes
                    if (w.split(".")[0] in _MODELLED_TABLES)
                    or (w.split(".")[0] == "step" and (w.split(".")[1] in _MODELLED_STEP_COLUMNS or w.endswith(".*")))}
        raises = "RAISE" in t["body"].upper()
        if modelled != _KNOWN_WRITERS.get(name, set()):
            raise TranslatorError(f"trigger {name} ({t['where']}) writes {sorted(modelled)}; the model knows "
                                  f"{sorted(_KNOWN_WRITERS.get(name, set()))}")
        if raises != (name in _KNOWN_RAISERS):
            raise TranslatorError(f"trigger {name} ({t['where']}): RAISE = {raises}, not what the model knows")
        if not writes and not raises:
            raise TranslatorError(f"trigger {name} ({t['where']}): body has no recognised effect: {t['body']}")
        rows.append((name, t["event"], t["table"], sorted(writes), raises))
    missing = (set(_KNOWN_WRITERS) | _KNOWN_RAISERS) - set(all_trigs)
    if missing:
        raise TranslatorError(f"triggers not found: {sorted(missing)}")
    return rows


# ---------------------------------------------------------------------------------------------
# Assembly
# ---------------------------------------------------------------------------------------------


def facts():
    enums = _import("stepup.core.enums")
    trellis = _import("stepup.core.trellis")
    filem = _import("stepup.core.file")
    stepm = _import("stepup.core.step")
    wf = _import("stepup.core.workflow")
    scripts = {"trellis.TRELLIS_SCHEMA": _const(trellis, "TRELLIS_SCHEMA"),
               "file.FILE_SCHEMA": _const(filem, "FILE_SCHEMA"),
               "step.STEP_SCHEMA": _const(stepm, "STEP_SCHEMA"),
               "workflow.WORKFLOW_SCHEMA": _const(wf, "WORKFLOW_SCHEMA")}
    # every *_SCHEMA constant of stepup/core must be one of these four
    for path in sorted((REPO / CORE).glob("*.py")):
        for m in re.finditer(r"^(\w*_SCHEMA)\s*(?::[^=]*)?=", path.read_text(), re.M):
            if f"{path.stem}.{m.group(1)}" not in scripts:
                raise TranslatorError(f"unknown schema script {path.name}:{m.group(1)}")
    all_trigs = {}
    for where, script in scripts.items():
        for name, t in triggers_of(script, where).items():
            if name in all_trigs:
                raise TranslatorError(f"trigger {name} defined in two scripts")
            all_trigs[name] = t

    en = tr_enums(enums)
    role_by_state, states_by_role = tr_roles(enums)
    names = tr_kinds()
    creator_kinds, creator_exempt = tr_creator_kinds(all_trigs, names)
    clear_disj, clear_req = tr_clear_hash(all_trigs, en["FileState"])
    kept, clear_def, reset_dc, pending, need_vals = tr_step(all_trigs, scripts["step.STEP_SCHEMA"],
                                                             en["StepState"], en["Need"])
    return {
        "enums": en,
        "role_by_state": role_by_state,
        "states_by_role": states_by_role,
        "hash_transitions": tr_hash_transitions(enums, wf),
        "clear_hash_disjuncts": clear_disj,
        "clear_hash_requires_hash": clear_req,
        "needs_hash_states": tr_file_checks(scripts["file.FILE_SCHEMA"], en["FileState"]),
        "reset_holding_kept_state": kept,
        "clear_deferred_states": clear_def,
        "reset_defer_count_state": reset_dc,
        "deferred_check_state": pending,
        "need_column_values": need_vals,
        "undeclared_detached_state": tr_undeclared(all_trigs, en["FileState"]),
        "kind_names": names,
        "creator_kinds": creator_kinds,
        "creator_kind_exempt": creator_exempt,
        "dependency_kinds": tr_dependency_kinds(all_trigs, names),
        "declarable_states": tr_declarable(enums, wf),
        "undefer_refined": tr_undefer(all_trigs, enums, stepm),
        "census": census(all_trigs),
    }


def _nl(xs):
    return "[" + "; ".join(str(x) for x in xs) + "]"


def _opt(x, f=str):
    return "None" if x is None else f"Some {f(x)}"


def render_facts(f) -> str:
    L = [
        "(* GENERATED by translator/gen_graph.py from stepup/core/{enums,workflow,file,step,trellis,static_tree}.py."
        " Do not edit. *)",
        "From Coq Require Import List NArith Bool.",
        "Import ListNotations.",
        "Open Scope N_scope.",
        "",
        "(* a. enums.py: integer values; the *_codes lists are sorted by value and complete *)",
    ]
    for name in ENUMS:
        for m, v in f["enums"][name]:
            L.append(f"Definition gen_{name}_{m} : N := {v}.")
        L.append(f"Definition gen_{name}_codes : list N := {_nl(v for _, v in f['enums'][name])}.")
    L += [
        "",
        "(* b. FILE_ROLE_BY_STATE (checked to be the inverse of FILE_STATES_BY_ROLE): state -> role *)",
        "Definition gen_file_role_by_state : list (N * N) := "
        + "[" + "; ".join(f"({s}, {r})" for s, r in f["role_by_state"]) + "].",
        "Definition gen_file_states_by_role : list (N * list N) := "
        + "[" + "; ".join(f"({r}, {_nl(ss)})" for r, ss in f["states_by_role"]) + "].",
        "",
        "(* c. workflow._HASH_TRANSITIONS, in source order:",
        "      (cause, old state, hash_known) -> (new state, action)",
        "      action: \"updated\" = Some 1, \"deleted\" = Some 2, \"completed\" = Some 3, None = None *)",
        "Definition gen_hash_transitions : list ((N * N * bool) * (N * option N)) := [",
        ";\n".join(f"  (({c}, {o}, {'true' if k else 'false'}), ({n}, {_opt(a, lambda x: str(ACTION_CODES[x]))}))"
                   for (c, o, k), (n, a) in f["hash_transitions"]),
        "].",
        "",
        "(* d. file_clear_hash WHEN clause: a disjunction; each disjunct",
        "      (NEW.state codes, Some OLD.state codes | None = no condition on OLD.state);",
        "      requires_hash: the whole disjunction is conjoined with NEW.hash IS NOT NULL *)",
        "Definition gen_clear_hash_disjuncts : list (list N * option (list N)) := "
        + "[" + "; ".join(f"({_nl(n)}, {_opt(o, _nl)})" for n, o in f["clear_hash_disjuncts"]) + "].",
        f"Definition gen_clear_hash_requires_hash : bool := {'true' if f['clear_hash_requires_hash'] else 'false'}.",
        "",
        "(* e. file table: CHECK (state NOT IN (...) OR hash IS NOT NULL) *)",
        f"Definition gen_needs_hash_states : list N := {_nl(f['needs_hash_states'])}.",
        "(*    file_check_undeclared_detached_ins/_upd: WHEN NEW.state = k *)",
        f"Definition gen_undeclared_detached_state : N := {f['undeclared_detached_state']}.",
        "",
        "(* f. step triggers (AFTER UPDATE OF state ON step) and CHECKs of the step table *)",
        "(*    step_reset_holding: WHEN NEW.state != k AND NEW._holding != 0 -> _holding = 0 *)",
        f"Definition gen_step_reset_holding_kept_state : N := {f['reset_holding_kept_state']}.",
        "(*    step_clear_deferred: WHEN NEW.state IN (...) -> deferred = FALSE *)",
        f"Definition gen_step_clear_deferred_states : list N := {_nl(f['clear_deferred_states'])}.",
        "(*    step_reset_defer_count: WHEN NEW.state = k -> defer_count = 0 *)",
        f"Definition gen_step_reset_defer_count_state : N := {f['reset_defer_count_state']}.",
        "(*    CHECK (NOT deferred OR state = k) *)",
        f"Definition gen_step_deferred_check_state : N := {f['deferred_check_state']}.",
        "(*    CHECK (need IN (...)): the Need values that can be stored in step.need *)",
        f"Definition gen_step_need_column_values : list N := {_nl(f['need_column_values'])}.",
        "",
        "(*    step_node_undefer_reattached (AFTER UPDATE OF detached ON node WHEN OLD.detached AND NOT NEW.detached:",
        "      deferred = FALSE for the steps that consume the node) and validate_dynamic_job's flag:",
        "      recognised in their exact shape; modelled by undefer_post / has_unusable_dynamic_input of model/GraphExt.v *)",
        "Definition gen_undefer_reattached : bool := true.",
        "(*    ... AND NOT EXISTS (unusable dynamic input of the step): the refined form of the trigger *)",
        f"Definition gen_undefer_refined : bool := {'true' if f['undefer_refined'] else 'false'}.",
        "",
        "(* g. node kinds: " + ", ".join(f"{k!r} = {c}" for k, c in sorted(f["kind_names"].items(), key=lambda kc: kc[1]))
        + " (Root/File/Step/StaticTree.kind()) *)",
    ]
    by_code = sorted(f["kind_names"].items(), key=lambda kc: kc[1])
    for (k, c), (_, _, clsname, _) in zip(by_code, KIND_CLASSES):
        L.append(f"Definition gen_kind_{clsname} : N := {c}.")
    L += [
        f"Definition gen_kind_codes : list N := {_nl(c for _, c in by_code)}.",
        "Definition gen_kind_names : list (N * list N) := "
        + "[" + "; ".join(f"({c}, {_nl(ord(ch) for ch in k)})" for k, c in by_code) + "].",
        "(*    node_check_creator_kind_ins = node_check_creator_kind_upd:",
        "      WHEN NEW.creator IS NOT NULL AND NEW.kind != <exempt> ...; (child kind, allowed creator kinds) *)",
        f"Definition gen_creator_kind_exempt : list N := {_nl(f['creator_kind_exempt'])}.",
        "Definition gen_creator_kinds : list (N * list N) := "
        + "[" + "; ".join(f"({c}, {_nl(ps)})" for c, ps in f["creator_kinds"]) + "].",
        "(*    dependency_check_kinds_ins: allowed (source kind, sink kind) *)",
        "Definition gen_dependency_kinds : list (N * N) := "
        + "[" + "; ".join(f"({a}, {b})" for a, b in f["dependency_kinds"]) + "].",
        "",
        "(* h. workflow._DECLARABLE_STATES *)",
        f"Definition gen_declarable_states : list N := {_nl(f['declarable_states'])}.",
        "",
        "(* census of all triggers of TRELLIS/FILE/STEP/WORKFLOW_SCHEMA (name: event ON table -> writes):",
    ]
    for name, event, table, writes, raises in f["census"]:
        shown = ", ".join(w.replace(".*", ".<row>") for w in writes) if writes else "-"
        L.append(f"     {name}: {event} ON {table} -> {shown}{' RAISE' if raises else ''}")
    L += ["   only the triggers translated above write a column described by model/Graph.v or RAISE. *)", ""]
    return "\n".join(L)


def render() -> str:
    return render_facts(facts())


def generate(ctx):
    f = facts()
    ctx.write_gen("GenGraph.v", render_facts(f))
    try:
        ctx.stats["graph_tables"] = {"hash_transitions": len(f["hash_transitions"]),
                                     "triggers": len(f["census"])}
    except AttributeError:
        pass
    return f
