"""Translator for C08: FileRole tables and the collision message builders of workflow.py.

Emits coq/gen/GenClaims.v (definitions only):
  * FileRole / FileState values, FILE_STATES_BY_ROLE, FILE_ROLE_BY_STATE, _DECLARABLE_STATES;
  * the f-string templates of the message builders as `tmpl` values (literal pieces and holes
    numbered in a fixed, documented argument order);
  * _FILE_ROLE_VERBS, _FILE_COLLISION_HINTS, _STEPUP_COLLISION_HINTS as association lists.

Fail closed: the control flow of each builder is compared (AST dump with string constants masked)
with the skeleton the hand-written printer in coq/model/Claims.v was written against; any change
of the logic, of a signature, of the hole expressions or of the field order of `Decl` raises
TranslatorError.
"""

from __future__ import annotations

import ast
import hashlib

from .astutil import (TranslatorError, body_without_docstring, coq_str, find_function, parse_module)

WF = "stepup/core/workflow.py"


# ---------------------------------------------------------------------------------------------
# AST helpers
# ---------------------------------------------------------------------------------------------


class _Mask(ast.NodeTransformer):
    def visit_Constant(self, node):
        if isinstance(node.value, str):
            return ast.copy_location(ast.Constant(value="§"), node)
        return node

    def visit_JoinedStr(self, node):
        # keep the hole expressions, drop the literal text
        vals = []
        for v in node.values:
            if isinstance(v, ast.FormattedValue):
                if v.conversion != -1 or v.format_spec is not None:
                    raise TranslatorError("f-string with conversion or format spec")
                vals.append(ast.FormattedValue(value=v.value, conversion=-1, format_spec=None))
        return ast.copy_location(ast.JoinedStr(values=vals), node)


class _RenameLocals(ast.NodeTransformer):
    def __init__(self, names):
        self.names = names

    def visit_Name(self, node):
        if node.id in self.names:
            return ast.copy_location(ast.Name(id=self.names[node.id], ctx=node.ctx), node)
        return node


def canon_locals(fn):
    """A copy of `fn` in which every local variable (a name the body binds, not a parameter) is called
    L0, L1, ... in the order of its first binding: the names of locals are the author's business, the
    skeleton and the templates are compared after this renaming."""
    import copy
    fn = copy.deepcopy(fn)
    a = fn.args
    params = {x.arg for x in a.posonlyargs + a.args + a.kwonlyargs}
    params |= {x.arg for x in (a.vararg, a.kwarg) if x is not None}
    stores = sorted({(n.lineno, n.col_offset, n.id) for n in ast.walk(fn)
                     if isinstance(n, ast.Name) and isinstance(n.ctx, ast.Store) and n.id not in params})
    names = {}
    for _, _, ident in stores:
        names.setdefault(ident, f"L{len(names)}")
    fn = _RenameLocals(names).visit(fn)
    ast.fix_missing_locations(fn)
    return fn


def skeleton(fn) -> str:
    import copy
    fn2 = copy.deepcopy(fn)
    fn2.body = body_without_docstring(fn2)
    fn2.returns = None
    fn2.decorator_list = []
    masked = _Mask().visit(fn2)
    return hashlib.sha256(ast.dump(masked, annotate_fields=False).encode()).hexdigest()[:16]


def template(node, holes: dict[str, int], where: str):
    """A (possibly implicitly concatenated / f-) string expression as a list of pieces."""
    if isinstance(node, ast.Constant) and isinstance(node.value, str):
        return [("L", node.value)]
    if isinstance(node, ast.JoinedStr):
        out = []
        for v in node.values:
            if isinstance(v, ast.Constant) and isinstance(v.value, str):
                out.append(("L", v.value))
            elif isinstance(v, ast.FormattedValue):
                if v.conversion != -1 or v.format_spec is not None:
                    raise TranslatorError(f"{where}: f-string hole with conversion/format spec")
                key = ast.unparse(v.value)
                if key not in holes:
                    raise TranslatorError(f"{where}: unexpected hole expression {{{key}}}")
                out.append(("H", holes[key]))
            else:
                raise TranslatorError(f"{where}: unexpected f-string part")
        return out
    raise TranslatorError(f"{where}: not a string literal / f-string: {ast.dump(node)[:80]}")


def used_holes(t):
    return sorted({v for k, v in t if k == "H"})


def coq_tmpl(t) -> str:
    parts = []
    for k, v in t:
        parts.append(f"L {coq_str(v)}" if k == "L" else f"H {v}")
    return "[" + "; ".join(parts) + "]"


def args_of(fn):
    return [a.arg for a in fn.args.args]


def single_return(fn, where):
    body = body_without_docstring(fn)
    if len(body) != 1 or not isinstance(body[0], ast.Return):
        raise TranslatorError(f"{where}: body is not a single return")
    return body[0].value


def assigned_strings(fn, name, where):
    """All expressions assigned to variable `name` in fn, in source order."""
    out = []
    for n in ast.walk(fn):
        if isinstance(n, ast.Assign) and len(n.targets) == 1 and isinstance(n.targets[0], ast.Name) \
                and n.targets[0].id == name:
            out.append((n.lineno, n.value))
    out.sort(key=lambda x: x[0])
    if not out:
        raise TranslatorError(f"{where}: no assignment to {name}")
    return [v for _, v in out]


# Skeletons (control flow with the texts masked) the model's printer was written against.
EXPECTED_SKELETONS = {
    "_static_tree_file_message": None,
    "_static_tree_product_message": None,
    "_glob_product_message": None,
    "_creator_phrase": None,
    "_file_collision_message": None,
    "_duplicate_step_message": None,
    "_duplicate_static_tree_message": None,
    "_claim_collision_message": None,
    "_volatile_input_message": None,
}


def load_expected():
    import json
    from pathlib import Path
    p = Path(__file__).with_name("gen_claims_skeletons.json")
    return json.loads(p.read_text())


def translate_messages(check_skeletons=True):
    tree = parse_module(WF)
    out = {}
    skel = {}
    fns = {name: canon_locals(find_function(tree, name)) for name in EXPECTED_SKELETONS}
    for name, fn in fns.items():
        skel[name] = skeleton(fn)
    if check_skeletons:
        exp = load_expected()
        for name in EXPECTED_SKELETONS:
            if exp.get(name) != skel[name]:
                raise TranslatorError(
                    f"{name}: control flow / hole structure changed (skeleton {skel[name]}, expected "
                    f"{exp.get(name)}); the message printer of model/Claims.v must be re-reviewed")
    # simple single-return builders -----------------------------------------------------------
    for name, sig in (("_static_tree_file_message", ["tree_path", "path"]),
                      ("_static_tree_product_message", ["tree_path", "path"]),
                      ("_glob_product_message", ["pattern", "glob_step_label", "path", "step_label"]),
                      ("_volatile_input_message", ["path", "producer", "consumer"])):
        fn = fns[name]
        if args_of(fn) != sig:
            raise TranslatorError(f"{name}: signature changed: {args_of(fn)}")
        t = template(single_return(fn, name), {a: i for i, a in enumerate(sig)}, name)
        if used_holes(t) != list(range(len(sig))):
            raise TranslatorError(f"{name}: not every argument is printed")
        out[name] = t
    # _creator_phrase -------------------------------------------------------------------------
    fn = fns["_creator_phrase"]
    if args_of(fn) != ["kind", "label"]:
        raise TranslatorError("_creator_phrase: signature changed")
    body = body_without_docstring(fn)
    if not (len(body) == 3 and isinstance(body[0], ast.If) and isinstance(body[1], ast.If)
            and isinstance(body[2], ast.Raise)):
        raise TranslatorError("_creator_phrase: body shape changed")
    conds = [ast.unparse(body[0].test), ast.unparse(body[1].test)]
    if conds != ["kind == Step.kind()", "kind == Root.kind()"]:
        raise TranslatorError(f"_creator_phrase: tests changed: {conds}")
    out["phrase_step"] = template(body[0].body[0].value, {"label": 0}, "_creator_phrase")
    out["phrase_root"] = template(body[1].body[0].value, {}, "_creator_phrase")
    # _file_collision_message -----------------------------------------------------------------
    fn = fns["_file_collision_message"]
    if args_of(fn) != ["path", "decl_a", "decl_b"]:
        raise TranslatorError("_file_collision_message: signature changed")
    # locals in binding order: L0, L1 = sorted parties; L2, L3 = their verbs; L4 = clash; L5 = hint
    holes = {"L2": 0, "L3": 1, "L0.creator": 2, "L1.creator": 3}
    clashes = assigned_strings(fn, "L4", "_file_collision_message")
    if len(clashes) != 3:
        raise TranslatorError("_file_collision_message: expected three clash variants")
    c_same_role, c_same_creator, c_diff = (template(c, holes, "_file_collision_message") for c in clashes)
    if used_holes(c_same_role) != [0, 2, 3] or used_holes(c_same_creator) != [0, 1, 2] \
            or used_holes(c_diff) != [0, 1, 2, 3]:
        raise TranslatorError("_file_collision_message: clash variants print unexpected parties")
    out["clash_same_role"], out["clash_same_creator"], out["clash_diff"] = c_same_role, c_same_creator, c_diff
    rets = [n for n in ast.walk(fn) if isinstance(n, ast.Return)]
    if len(rets) != 1:
        raise TranslatorError("_file_collision_message: expected one return")
    t = template(rets[0].value, {"path": 0, "L4": 1, "L5": 2}, "_file_collision_message")
    if used_holes(t) != [0, 1, 2]:
        raise TranslatorError("_file_collision_message: final text does not print path, clash, hint")
    out["file_collision"] = t
    # the sort that fixes the order of the two parties
    srt = [n for n in body_without_docstring(fn) if isinstance(n, ast.Assign)][0]
    if ast.unparse(srt) not in ("(L0, L1) = sorted([decl_a, decl_b])", "L0, L1 = sorted([decl_a, decl_b])"):
        raise TranslatorError(f"_file_collision_message: party order is not sorted([decl_a, decl_b]): {ast.unparse(srt)}")
    # Decl field order (the sort key)
    decl = [n for n in ast.walk(tree) if isinstance(n, ast.ClassDef) and n.name == "Decl"]
    if len(decl) != 1:
        raise TranslatorError("class Decl not found")
    fields = [n.target.id for n in decl[0].body if isinstance(n, ast.AnnAssign) and isinstance(n.target, ast.Name)]
    if fields != ["role", "creator", "authored"]:
        raise TranslatorError(f"Decl field order changed: {fields}")
    deco = [ast.unparse(d) for d in decl[0].decorator_list]
    if deco != ["attrs.define(frozen=True, order=True)"]:
        raise TranslatorError(f"Decl decorator changed: {deco}")
    # _duplicate_step_message -----------------------------------------------------------------
    fn = fns["_duplicate_step_message"]
    if args_of(fn) != ["step_label", "creator_a", "creator_b"]:
        raise TranslatorError("_duplicate_step_message: signature changed")
    holes = {"L0": 0, "L1": 1}      # L0, L1 = the sorted creators; L2 = clash
    clashes = assigned_strings(fn, "L2", "_duplicate_step_message")
    if len(clashes) != 2:
        raise TranslatorError("_duplicate_step_message: expected two clash variants")
    out["dupstep_twice"] = template(clashes[0], holes, "_duplicate_step_message")
    out["dupstep_both"] = template(clashes[1], holes, "_duplicate_step_message")
    if used_holes(out["dupstep_twice"]) != [0] or used_holes(out["dupstep_both"]) != [0, 1]:
        raise TranslatorError("_duplicate_step_message: clash variants print unexpected parties")
    rets = [n for n in ast.walk(fn) if isinstance(n, ast.Return)]
    out["dupstep"] = template(rets[0].value, {"step_label": 0, "L2": 1}, "_duplicate_step_message")
    if used_holes(out["dupstep"]) != [0, 1]:
        raise TranslatorError("_duplicate_step_message: final text changed")
    # _duplicate_static_tree_message ----------------------------------------------------------
    fn = fns["_duplicate_static_tree_message"]
    if args_of(fn) != ["tree_path", "creator_a", "creator_b"]:
        raise TranslatorError("_duplicate_static_tree_message: signature changed")
    rets = [n for n in ast.walk(fn) if isinstance(n, ast.Return)]
    out["duptree"] = template(rets[0].value, {"tree_path": 0, "L0": 1, "L1": 2},
                              "_duplicate_static_tree_message")
    if used_holes(out["duptree"]) != [0, 1, 2]:
        raise TranslatorError("_duplicate_static_tree_message: final text changed")
    return out, skel


def translate_tables():
    try:
        from stepup.core import enums, workflow
    except Exception as e:  # noqa: BLE001
        raise TranslatorError(f"cannot import stepup.core: {e}") from e
    FileRole, FileState = enums.FileRole, enums.FileState
    roles = [(r.name, int(r.value)) for r in FileRole]
    if [n for n, _ in roles] != ["STATIC", "OUTPUT", "VOLATILE"]:
        raise TranslatorError(f"FileRole members changed: {roles}")
    states = [(s.name, int(s.value)) for s in FileState]
    by_role = {}
    for r in FileRole:
        if r not in enums.FILE_STATES_BY_ROLE:
            raise TranslatorError(f"FILE_STATES_BY_ROLE lacks {r}")
        by_role[int(r.value)] = sorted(int(s.value) for s in enums.FILE_STATES_BY_ROLE[r])
    if set(enums.FILE_STATES_BY_ROLE) != set(FileRole):
        raise TranslatorError("FILE_STATES_BY_ROLE has unexpected keys")
    role_by_state = sorted((int(s.value), int(r.value)) for s, r in enums.FILE_ROLE_BY_STATE.items())
    declarable = [int(s.value) for s in workflow._DECLARABLE_STATES]
    decl_names = [s.name for s in workflow._DECLARABLE_STATES]
    if decl_names != ["UNCONFIRMED", "PLANNED", "VOLATILE"]:
        raise TranslatorError(f"_DECLARABLE_STATES changed: {decl_names}")
    verbs = workflow._FILE_ROLE_VERBS
    if set(verbs) != set(FileRole) or not all(isinstance(v, str) for v in verbs.values()):
        raise TranslatorError("_FILE_ROLE_VERBS shape changed")
    hints = workflow._FILE_COLLISION_HINTS
    for k, v in hints.items():
        if not (isinstance(k, tuple) and len(k) == 2 and all(isinstance(x, FileRole) for x in k) and isinstance(v, str)):
            raise TranslatorError("_FILE_COLLISION_HINTS shape changed")
    shints = workflow._STEPUP_COLLISION_HINTS
    if not all(isinstance(k, FileRole) and isinstance(v, str) for k, v in shints.items()):
        raise TranslatorError("_STEPUP_COLLISION_HINTS shape changed")
    from stepup.core.constants import STEPUP_DIR
    return {
        "roles": roles, "states": states, "by_role": by_role, "role_by_state": role_by_state,
        "declarable": declarable,
        "verbs": sorted((int(k.value), v) for k, v in verbs.items()),
        "hints": sorted(((int(a.value), int(b.value)), v) for (a, b), v in hints.items()),
        "shints": sorted((int(k.value), v) for k, v in shints.items()),
        "stepup_dir": str(STEPUP_DIR),
    }


def translate_variants():
    """Two structural facts of the code that the model is parameterised by (fail closed)."""
    tree = parse_module(WF)
    # -- _find_owning_static_tree: is the probe `Path(path) / ""` or the path itself?
    fn = find_function(tree, "_find_owning_static_tree", cls="Workflow")
    if args_of(fn) != ["self", "path"]:
        raise TranslatorError("_find_owning_static_tree: signature changed")
    consts = [c.value for c in ast.walk(fn) if isinstance(c, ast.Constant) and isinstance(c.value, str)]
    if not any("label = substr(?, 1, length(label))" in c for c in consts):
        raise TranslatorError("_find_owning_static_tree: the owner test is no longer label = substr(?, 1, length(label))")
    assigns = [n for n in ast.walk(fn) if isinstance(n, ast.Assign)
               and any(isinstance(t, ast.Name) and t.id == "path" for t in n.targets)]
    if len(assigns) == 0:
        appends = False
    elif len(assigns) == 1 and ast.unparse(assigns[0]) == "path = Path(path) / ''":
        appends = True
    else:
        raise TranslatorError("_find_owning_static_tree: unexpected rewriting of `path`: "
                              + "; ".join(ast.unparse(a) for a in assigns))
    execs = [n for n in ast.walk(fn) if isinstance(n, ast.Call) and isinstance(n.func, ast.Attribute)
             and n.func.attr == "execute"]
    if len(execs) != 1 or ast.unparse(execs[0].args[1]) != "(path,)":
        raise TranslatorError("_find_owning_static_tree: the query is not executed with (path,)")
    # -- register_nglob: recorded matches only, or the regex against every attached product?
    fn = find_function(tree, "register_nglob", cls="Workflow")
    src = ast.unparse(fn)
    consts = " ".join(c.value for c in ast.walk(fn) if isinstance(c, ast.Constant) and isinstance(c.value, str))
    calls = [ast.unparse(n.func) for n in ast.walk(fn) if isinstance(n, ast.Call)]
    uses_path_list = "IN (SELECT path FROM path_list)" in consts
    fullmatch = [c for c in calls if c.endswith(".fullmatch")]
    if uses_path_list and not fullmatch and "LIMIT 1" in consts:
        scans = False
    elif not uses_path_list and fullmatch == ["regex.fullmatch"] and "ORDER BY node.label" in consts \
            and "convert_nglob_to_regex(ng.pattern, ng.subs)" in src and "LIMIT" not in consts:
        scans = True
    else:
        raise TranslatorError("register_nglob: product check has an unrecognised shape")
    if "_glob_product_message(ng.pattern, step.label, path, creator_label)" not in src:
        raise TranslatorError("register_nglob: the product message arguments changed")
    return {"owner_appends_slash": appends, "glob_scans_products": scans}


# ---------------------------------------------------------------------------------------------
# The statements that write the `nglob` table (life cycle of registrations, model/GlobRows.v)
# ---------------------------------------------------------------------------------------------

import re as _re

_NGLOB_WRITE = _re.compile(
    r"\b(DELETE\s+FROM|INSERT\s+(?:OR\s+\w+\s+)?INTO|REPLACE\s+INTO|UPDATE(?:\s+OR\s+\w+)?|"
    r"DROP\s+TABLE(?:\s+IF\s+EXISTS)?|ALTER\s+TABLE|CREATE\s+TRIGGER[^;]*?\bON)\s+nglob\b[^;]*",
    _re.IGNORECASE | _re.DOTALL)

# callers of the writers: (file, function) that may call them
EXPECTED_NGLOB_CALLERS = {
    "add_nglob": [("stepup/core/workflow.py", "Workflow.register_nglob")],
    "persist_nglob_matches": [("stepup/core/startup.py", "rescan_nglobs"),
                              ("stepup/core/workflow.py", "Workflow.process_nglob_changes")],
    "reset_for_rerun": [("stepup/core/executor.py", None)],
}
_NGLOB_DDL = ("CREATE TABLE IF NOT EXISTS nglob ( i INTEGER PRIMARY KEY, node INTEGER NOT NULL, pattern TEXT NOT NULL, "
              "regex TEXT NOT NULL, data TEXT NOT NULL, FOREIGN KEY (node) REFERENCES node(i) ON DELETE CASCADE )")


def _norm_sql(text):
    return " ".join(text.split())


def translate_nglob_sites():
    """Enumerate every SQL statement in stepup/core that writes the nglob table, the table's DDL,
    the statements that delete node rows (ON DELETE CASCADE) and the callers of the writers.
    Returns (facts, error): error is a message when anything differs from what model/GlobRows.v
    was written against (a new DELETE FROM nglob, a writer called from a new place, ...)."""
    from .astutil import REPO, functions_with_parents
    core = REPO / "stepup" / "core"
    writes, node_deletes, callers, ddl = [], [], {k: [] for k in EXPECTED_NGLOB_CALLERS}, []
    for path in sorted(core.glob("*.py")):
        rel = str(path.relative_to(REPO))
        tree = parse_module(rel)
        owner = {}
        for qn, fn in functions_with_parents(tree):
            for n in ast.walk(fn):
                owner[id(n)] = qn          # innermost wins: inner functions are visited later
        for n in ast.walk(tree):
            if isinstance(n, ast.Constant) and isinstance(n.value, str):
                text = n.value
                # SQL comment lines (the schema documents itself in `-- ...` lines)
                text = "\n".join(ln for ln in text.splitlines() if not ln.strip().startswith("--"))
                for m in _NGLOB_WRITE.finditer(text):
                    writes.append((rel, owner.get(id(n), "<module>"), _norm_sql(m.group(0))))
                for m in _re.finditer(r"CREATE\s+TABLE[^;]*?\bnglob\s*\([^;]*", text, _re.IGNORECASE | _re.DOTALL):
                    ddl.append(_norm_sql(m.group(0)))
                for m in _re.finditer(r"DELETE\s+FROM\s+node\b[^;]*", text, _re.IGNORECASE):
                    node_deletes.append((rel, owner.get(id(n), "<module>"), _norm_sql(m.group(0))))
            if isinstance(n, ast.Call) and isinstance(n.func, ast.Attribute) and n.func.attr in callers:
                callers[n.func.attr].append((rel, owner.get(id(n), "<module>")))
    facts = {"writes": sorted(set(writes)), "node_deletes": sorted(set(node_deletes)),
             "callers": {k: sorted(set(v)) for k, v in callers.items()}, "ddl": ddl}
    errs = []
    # ---- statement-level translation of every writer ------------------------------------------
    model = {"register_pre_delete": [], "reset_deletes_rows": False, "insert_sites": [], "update_sites": []}
    colcode = {"node": 1, "pattern": 2, "regex": 3}
    for rel, fn, stmt in facts["writes"]:
        try:
            parsed = parse_nglob_write(stmt)
        except TranslatorError as e:
            errs.append(f"{rel}:{fn}: {e}")
            continue
        where = f"{rel}:{fn}: {stmt!r}"
        if parsed[0] == "insert":
            if sorted(parsed[1]) != ["data", "node", "pattern", "regex"]:
                errs.append(f"{where}: an INSERT that does not fill exactly node, pattern, regex, data")
            elif fn not in ("Step.add_nglob", "Workflow.register_nglob"):
                errs.append(f"{where}: rows are inserted outside register_nglob / add_nglob (no model operation)")
            else:
                model["insert_sites"].append(fn)
        elif parsed[0] == "update":
            if fn == "Workflow.persist_nglob_matches" and parsed[1] == ["data"] and parsed[2] == ["i"]:
                model["update_sites"].append(fn)
            else:
                errs.append(f"{where}: an UPDATE other than `SET data WHERE i` in persist_nglob_matches (no model operation)")
        else:
            cols = parsed[1]
            if fn == "Step.reset_for_rerun" and cols == ["node"]:
                model["reset_deletes_rows"] = True
            elif fn == "Workflow.register_nglob" and cols and all(c in colcode for c in cols) \
                    and not model["register_pre_delete"]:
                # translated: the registration first deletes the rows that agree with it on these columns
                model["register_pre_delete"] = sorted(colcode[c] for c in cols)
            else:
                errs.append(f"{where}: a DELETE that is none of: all rows of the step in reset_for_rerun; rows "
                            "agreeing with the new registration on node/pattern/regex in register_nglob")
    if len(model["insert_sites"]) != 1:
        errs.append(f"expected exactly one INSERT INTO nglob on the register_nglob path, found {model['insert_sites']!r}")
    if model["update_sites"] != ["Workflow.persist_nglob_matches"]:
        errs.append(f"persist_nglob_matches no longer rewrites `data` of one row: {model['update_sites']!r}")
    if _norm_sql(" ".join(facts["ddl"])).lower() != _NGLOB_DDL.lower() or len(facts["ddl"]) != 1:
        errs.append(f"DDL of the nglob table changed: {facts['ddl']!r}")
    nd = [(rel, fn, _re.sub(r"\s+", " ", st).lower()) for rel, fn, st in facts["node_deletes"]]
    if [(a, b) for a, b, _ in nd] != [("stepup/core/trellis.py", "Trellis.delete_detached")] \
            or not _re.fullmatch(r"delete from node where i = (\?|:\w+)", nd[0][2]):
        errs.append(f"node rows are deleted (ON DELETE CASCADE removes nglob rows) at unexpected sites: {facts['node_deletes']!r}")
    for name, exp in EXPECTED_NGLOB_CALLERS.items():
        for rel, fn in facts["callers"][name]:
            if not any(rel == e_rel and (e_fn is None or e_fn == fn) for e_rel, e_fn in exp):
                errs.append(f"{name} is called from an unexpected place: {rel}:{fn}")
    # register_nglob itself: besides the translated nglob statements it may write the scratch table
    # path_list and call add_nglob / watch_nglob_dirs; the pre-delete must precede the insertion
    fn = find_function(parse_module(WF), "register_nglob", cls="Workflow")
    ins_line, del_line = None, None
    for x in ast.walk(fn):
        if isinstance(x, ast.Constant) and isinstance(x.value, str):
            c = _norm_sql(x.value)
            if _re.match(r"(?i)\s*(DELETE|INSERT|UPDATE|REPLACE|DROP|ALTER)\b", c):
                if _re.search(r"(?i)\bnglob\b", c):
                    if _re.match(r"(?i)\s*DELETE", c):
                        del_line = x.lineno
                    elif _re.match(r"(?i)\s*INSERT", c):
                        ins_line = x.lineno
                elif not _re.search(r"(?i)\b(FROM|INTO)\s+path_list\b", c):
                    errs.append(f"register_nglob writes another table: {c!r}")
        if isinstance(x, ast.Call) and isinstance(x.func, ast.Attribute) and isinstance(x.func.value, ast.Name) \
                and x.func.value.id in ("step", "self"):
            name = ast.unparse(x.func)
            if name == "step.add_nglob":
                ins_line = x.lineno if "Step.add_nglob" in model["insert_sites"] else ins_line
            elif name != "self.watch_nglob_dirs":
                errs.append(f"register_nglob calls an unexpected method of the step / workflow: {name}")
    if ins_line is None:
        errs.append("register_nglob no longer inserts the registration")
    elif del_line is not None and del_line > ins_line:
        errs.append("register_nglob deletes rows AFTER inserting the new one (not translatable)")
    facts["model"] = model
    return facts, ("; ".join(errs) if errs else None)


_SQLPARAM = r"(?:\?\d*|[:@$]\w+)"


def _where_cols(text, what):
    if text is None:
        raise TranslatorError(f"{what}: a write without WHERE touches every row (not translatable)")
    cols = []
    for cond in _re.split(r"(?i)\s+AND\s+", text.strip()):
        m = _re.fullmatch(rf"(?i)\(?\s*(?:nglob\.)?(\w+)\s*(?:=|==|IS)\s*{_SQLPARAM}\s*\)?", cond.strip())
        if not m:
            raise TranslatorError(f"{what}: cannot translate the condition {cond!r}")
        cols.append(m.group(1).lower())
    return sorted(cols)


def parse_nglob_write(stmt):
    """One SQL statement that writes nglob, as structure: ('insert', cols) | ('update', set cols,
    where cols) | ('delete', where cols). Keyword case, whitespace, parameter style (?, ?1, :name),
    `nglob.` qualification and the order of columns / conditions do not matter."""
    s = _norm_sql(stmt).rstrip(";").strip()
    m = _re.fullmatch(r"(?i)DELETE FROM nglob(?: WHERE (.*))?", s)
    if m:
        return ("delete", _where_cols(m.group(1), s))
    m = _re.fullmatch(r"(?i)INSERT INTO nglob ?\(([^)]*)\) ?VALUES ?\(([^)]*)\)", s)
    if m:
        cols = [c.strip().lower() for c in m.group(1).split(",")]
        vals = [v.strip() for v in m.group(2).split(",")]
        if len(cols) != len(vals) or not all(_re.fullmatch(_SQLPARAM, v) for v in vals):
            raise TranslatorError(f"{s!r}: INSERT values are not one parameter per column")
        return ("insert", cols)
    m = _re.fullmatch(r"(?i)UPDATE nglob SET (.*?) WHERE (.*)", s)
    if m:
        sets = []
        for a in m.group(1).split(","):
            mm = _re.fullmatch(rf"(?i)\s*(\w+)\s*=\s*{_SQLPARAM}\s*", a)
            if not mm:
                raise TranslatorError(f"{s!r}: cannot translate the assignment {a!r}")
            sets.append(mm.group(1).lower())
        return ("update", sorted(sets), _where_cols(m.group(2), s))
    raise TranslatorError(f"cannot translate the statement {s!r}")


def generate(check_skeletons=True):
    msgs, skel = translate_messages(check_skeletons)
    tab = translate_tables()
    var = translate_variants()
    sites, sites_error = translate_nglob_sites()
    L = ["(* GENERATED by translator/gen_claims.py from /repo -- do not edit *)",
         "From Coq Require Import List NArith.",
         "From SV Require Import lib.Bytes lib.Tmpl.",
         "Import ListNotations.",
         "Open Scope N_scope.",
         "(* enums.py: FileRole, FileState, FILE_STATES_BY_ROLE, FILE_ROLE_BY_STATE; workflow.py: _DECLARABLE_STATES *)"]
    for n, v in tab["roles"]:
        L.append(f"Definition role_{n.lower()}_val : N := {v}.")
    for n, v in tab["states"]:
        L.append(f"Definition state_{n.lower()}_val : N := {v}.")
    L.append("Definition all_states : list N := [" + "; ".join(str(v) for _, v in tab["states"]) + "].")
    L.append("Definition states_by_role : list (N * list N) := ["
             + "; ".join(f"({r}, [{'; '.join(str(s) for s in ss)}])" for r, ss in sorted(tab["by_role"].items())) + "].")
    L.append("Definition role_by_state : list (N * N) := ["
             + "; ".join(f"({s}, {r})" for s, r in tab["role_by_state"]) + "].")
    L.append("Definition declarable_states : list N := [" + "; ".join(str(v) for v in tab["declarable"]) + "].")
    L.append(f"Definition stepup_dir : str := {coq_str(tab['stepup_dir'])}.")
    L.append("(* workflow.py: _find_owning_static_tree probes Path(path) / '' (true) or path (false);"
             " register_nglob tests the regex against every attached product (true) or looks up the recorded"
             " matches only (false) *)")
    L.append(f"Definition owner_appends_slash : bool := {'true' if var['owner_appends_slash'] else 'false'}.")
    L.append(f"Definition glob_scans_products : bool := {'true' if var['glob_scans_products'] else 'false'}.")
    L.append("(* workflow.py: _FILE_ROLE_VERBS, _FILE_COLLISION_HINTS, _STEPUP_COLLISION_HINTS *)")
    L.append("Definition role_verbs : list (N * str) := [\n  "
             + ";\n  ".join(f"({k}, {coq_str(v)}) (* {v} *)" for k, v in tab["verbs"]) + "].")
    L.append("Definition collision_hints : list ((N * N) * str) := [\n  "
             + ";\n  ".join(f"(({a}, {b}), {coq_str(v)}) (* {v} *)" for (a, b), v in tab["hints"]) + "].")
    L.append("Definition stepup_hints : list (N * str) := [\n  "
             + ";\n  ".join(f"({k}, {coq_str(v)}) (* {v} *)" for k, v in tab["shints"]) + "].")
    doc = {
        "_static_tree_file_message": "holes: 0 tree_path, 1 path",
        "_static_tree_product_message": "holes: 0 tree_path, 1 path",
        "_glob_product_message": "holes: 0 pattern, 1 glob_step_label, 2 path, 3 step_label",
        "_volatile_input_message": "holes: 0 path, 1 producer, 2 consumer",
        "phrase_step": "_creator_phrase, kind == Step.kind(); holes: 0 label",
        "phrase_root": "_creator_phrase, kind == Root.kind()",
        "clash_same_role": "_file_collision_message, decl1.role == decl2.role; holes: 0 verb1, 2 decl1.creator, 3 decl2.creator",
        "clash_same_creator": "_file_collision_message, same creator; holes: 0 verb1, 1 verb2, 2 decl1.creator",
        "clash_diff": "_file_collision_message, otherwise; holes: 0 verb1, 1 verb2, 2 decl1.creator, 3 decl2.creator",
        "file_collision": "_file_collision_message result; holes: 0 path, 1 clash, 2 hint",
        "dupstep_twice": "_duplicate_step_message, creator1 == creator2; holes: 0 creator1",
        "dupstep_both": "_duplicate_step_message, otherwise; holes: 0 creator1, 1 creator2",
        "dupstep": "_duplicate_step_message result; holes: 0 step_label, 1 clash",
        "duptree": "_duplicate_static_tree_message; holes: 0 tree_path, 1 creator1, 2 creator2",
    }
    names = {"_static_tree_file_message": "tmpl_tree_file", "_static_tree_product_message": "tmpl_tree_product",
             "_glob_product_message": "tmpl_glob_product", "_volatile_input_message": "tmpl_volatile_input"}
    for key, t in msgs.items():
        nm = names.get(key, "tmpl_" + key)
        L.append(f"(* {doc[key]} *)")
        L.append(f"Definition {nm} : tmpl := {coq_tmpl(t)}.")
    L.append("(* skeletons: " + ", ".join(f"{k}={v}" for k, v in sorted(skel.items())) + " *)")
    L.append("(* every statement of stepup/core that writes the nglob table (model/GlobRows.v: OAdd, OReset, OPersist;"
             " OPurge is the ON DELETE CASCADE of Trellis.delete_detached): (file, function, statement) *)")
    L.append(f"(* translated: register_nglob first deletes the rows that agree with the new registration on these"
             f" columns (1 node, 2 pattern, 3 regex; [] = it deletes nothing); Step.reset_for_rerun deletes the rows of the step *)")
    L.append("Definition register_pre_delete : list N := [" + "; ".join(str(c) for c in sites["model"]["register_pre_delete"]) + "].")
    L.append(f"Definition reset_deletes_rows : bool := {'true' if sites['model']['reset_deletes_rows'] else 'false'}.")
    L.append("Definition nglob_writes : list (str * (str * str)) := [\n  "
             + ";\n  ".join(f"({coq_str(a)}, ({coq_str(b)}, {coq_str(c)})) (* {a}:{b}: {c} *)" for a, b, c in sites["writes"])
             + "].")
    return "\n".join(L) + "\n", {"skeletons": skel, "tables": tab, "variants": var,
                                  "messages": {k: v for k, v in msgs.items()},
                                  "nglob_sites": sites, "nglob_sites_error": sites_error}


if __name__ == "__main__":
    import json
    import sys
    if len(sys.argv) > 1 and sys.argv[1] == "--record-skeletons":
        _, skel = translate_messages(check_skeletons=False)
        from pathlib import Path
        Path(__file__).with_name("gen_claims_skeletons.json").write_text(json.dumps(skel, indent=1, sort_keys=True) + "\n")
        print(json.dumps(skel, indent=1))
    else:
        print(generate()[0])
