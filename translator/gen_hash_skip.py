"""Translator for C13, skip decision: hash.py compute_inp_hashes + executor.py try_skip_job /
validate_dynamic_job / execute_job + step.py mark_completed / get_hash / set_hash
-> coq/gen/GenHashSkip.v.

Read from the AST on every run, fail closed on any other shape:

  * compute_inp_hashes: the head of the loop (refreshed called directly, or inside `try ... except (HashFailedError,
    OSError)` whose handler puts FileHash.unknown() in place of the new hash and marks the path `unreadable`)
    -> inp_on_unreadable; what happens to one path after `all_inp_hashes[path] = new_file_hash`
    (an if-tree over `new_file_hash != old_file_hash`, `.is_unknown` of either hash, whose leaves
    append to `messages`, raise, or do nothing) -> inp_entry_outcome
  * Executor.try_skip_job: the statement sequence
        run, new_hash = await self._new_run(job_i, step, inp_hashes, env_deps)
        if new_hash is None: return
        if <test 1>: NOSKIP ... return
        new_hash, new_out_hashes = await self._compute_out_step_hash(run, new_hash)
        if new_hash is None: ... return
        if <test 2>: NOSKIP ... return
        ... step.mark_completed(new_hash, False) ...
    with <test i> of the form `step_hash.<digest> != new_hash.<digest>` -> skip_inp_differs (test 1),
    skip_out_differs (test 2); the expressions are translated as they are (a test that compares another
    attribute or a slice changes the generated text or fails closed: the proofs break, not the translator)
  * Executor.validate_dynamic_job: the one test -> validate_inp_differs
  * Executor.execute_job: the hash that is recorded is the result of _compute_full_step_hash or None
    (_classify_execution only ever replaces it by None)
  * Step.mark_completed stores new_hash with set_hash (to_json), get_hash loads it (from_json),
    Scheduler._derive_job hands it to the job, job.py hands it to try_skip_job / validate_dynamic_job
"""

from __future__ import annotations

import ast

from .astutil import TranslatorError, body_without_docstring, find_function, parse_module

EXE = "stepup/core/executor.py"
STEP = "stepup/core/step.py"
HASH = "stepup/core/hash.py"
SCHED = "stepup/core/scheduler.py"
JOB = "stepup/core/job.py"


def _u(node) -> str:
    return ast.unparse(node)


# ---------------------------------------------------------------------------------------------
# compute_inp_hashes: per-path outcome
# ---------------------------------------------------------------------------------------------

_ATOMS = {
    "new_file_hash != old_file_hash": "differs",
    "old_file_hash != new_file_hash": "differs",
    "new_file_hash == old_file_hash": "negb differs",
    "old_file_hash == new_file_hash": "negb differs",
    "new_file_hash.is_unknown": "new_unknown",
    "old_file_hash.is_unknown": "old_unknown",
    "unreadable is not None": "unreadable",
    "unreadable is None": "negb unreadable",
}


def _cond(test, where):
    txt = _u(test)
    if txt in _ATOMS:
        return _ATOMS[txt]
    if isinstance(test, ast.UnaryOp) and isinstance(test.op, ast.Not):
        return f"negb ({_cond(test.operand, where)})"
    if isinstance(test, ast.BoolOp):
        op = "&&" if isinstance(test.op, ast.And) else "||"
        return "(" + f" {op} ".join(_cond(v, where) for v in test.values) + ")"
    raise TranslatorError(f"{where}: unsupported test `{txt}`")


def _block_outcome(stmts, where):
    """Outcome term of a block: ignored bookkeeping, then at most one of append / raise / if."""
    out = None
    for st in stmts:
        txt = _u(st)
        if out is not None and out != "InpMessage":
            raise TranslatorError(f"{where}: statement after the deciding one: {txt[:80]}")
        if txt == "new_inp_hashes[path] = new_file_hash":
            continue
        if isinstance(st, ast.Pass):
            continue
        if isinstance(st, ast.Expr) and isinstance(st.value, ast.Call) and _u(st.value.func) == "messages.append":
            out = "InpMessage"
            continue
        if isinstance(st, ast.Raise):
            if out == "InpMessage":
                raise TranslatorError(f"{where}: raise after a message")
            return "InpRaise"
        if isinstance(st, ast.If):
            c = _cond(st.test, where)
            a = _block_outcome(st.body, where)
            b = _block_outcome(st.orelse, where) if st.orelse else "InpSame"
            if out == "InpMessage":
                # a message was already appended: the branch can only add a raise
                a = "InpRaise" if a == "InpRaise" else "InpMessage"
                b = "InpRaise" if b == "InpRaise" else "InpMessage"
            out = f"(if {c} then {a} else {b})"
            continue
        raise TranslatorError(f"{where}: unsupported statement `{txt[:80]}`")
    return out or "InpSame"


CAUGHT_OK = {"HashFailedError", "OSError", "PermissionError", "IsADirectoryError", "FileNotFoundError"}


def parse_inp_loop_head(lb):
    """The statements of the loop of compute_inp_hashes up to `all_inp_hashes[path] = new_file_hash`.

    Two shapes:
      old_file_hash = inp_hashes[path]; new_file_hash = old_file_hash.refreshed(path, cancel_event); all_..[path] = ..
          -> (None, rest): an exception of refreshed leaves the function
      old_file_hash = inp_hashes[path]
      try: new_file_hash = old_file_hash.refreshed(path, cancel_event)
      except (<subset of HashFailedError, OSError and its subclasses>) as exc:
          unreadable = <not None>; new_file_hash = FileHash.unknown()
      else: unreadable = None
      all_..[path] = ..
          -> ("fh_unknown", rest): the hash that stands for an input that can no longer be hashed
    """
    where = "compute_inp_hashes"
    first, refresh, store = ("old_file_hash = inp_hashes[path]", "new_file_hash = old_file_hash.refreshed(path, cancel_event)",
                             "all_inp_hashes[path] = new_file_hash")
    if len(lb) < 3 or _u(lb[0]) != first:
        raise TranslatorError(f"{where}: the loop does not start with `{first}`")
    if _u(lb[1]) == refresh:
        if _u(lb[2]) != store:
            raise TranslatorError(f"{where}: `{store}` does not follow the refresh")
        return None, lb[3:]
    t = lb[1]
    if not (isinstance(t, ast.Try) and [_u(x) for x in t.body] == [refresh] and len(t.handlers) == 1
            and not t.finalbody):
        raise TranslatorError(f"{where}: the second statement is neither `{refresh}` nor a try around it: {_u(t)[:100]}")
    h = t.handlers[0]
    if h.type is None:
        raise TranslatorError(f"{where}: bare except around refreshed")
    names = [_u(e) for e in (h.type.elts if isinstance(h.type, ast.Tuple) else [h.type])]
    if not set(names) <= CAUGHT_OK:
        raise TranslatorError(f"{where}: the handler catches {names} (model: a subset of {sorted(CAUGHT_OK)}; "
                              "cancellation, ConsistencyError and ValueError must leave the function)")
    binds = {}
    for st in h.body:
        if not (isinstance(st, ast.Assign) and len(st.targets) == 1 and isinstance(st.targets[0], ast.Name)):
            raise TranslatorError(f"{where}: unsupported statement in the handler: {_u(st)[:80]}")
        binds[st.targets[0].id] = st.value
    if set(binds) != {"unreadable", "new_file_hash"}:
        raise TranslatorError(f"{where}: the handler binds {sorted(binds)} (model: unreadable, new_file_hash)")
    if _u(binds["new_file_hash"]) != "FileHash.unknown()":
        raise TranslatorError(f"{where}: the handler sets new_file_hash = {_u(binds['new_file_hash'])[:60]} "
                              "(model: FileHash.unknown())")
    u = binds["unreadable"]
    if (isinstance(u, ast.Constant) and u.value is None) or not (
            isinstance(u, ast.Call) and _u(u.func) in ("str", "repr") or isinstance(u, (ast.JoinedStr,))
            or (isinstance(u, ast.Constant) and isinstance(u.value, (str, bool)) and u.value)):
        raise TranslatorError(f"{where}: the handler sets unreadable = {_u(u)[:60]} (model: a value that is not None)")
    if [_u(x) for x in t.orelse] != ["unreadable = None"]:
        raise TranslatorError(f"{where}: the else branch of the try is not `unreadable = None`")
    if len(lb) < 3 or _u(lb[2]) != store:
        raise TranslatorError(f"{where}: `{store}` does not follow the try")
    return "fh_unknown", lb[3:]


def translate_inp_entry(hash_tree):
    fn = find_function(hash_tree, "compute_inp_hashes")
    body = body_without_docstring(fn)
    loops = [s for s in body if isinstance(s, ast.For)]
    if len(loops) != 1 or _u(loops[0].iter) != "sorted(inp_hashes)":
        raise TranslatorError("compute_inp_hashes: not one loop `for path in sorted(inp_hashes)`")
    on_unreadable, rest = parse_inp_loop_head(loops[0].body)
    # messages is only appended to, and returned as the first field
    for n in ast.walk(fn):
        if isinstance(n, ast.Assign) and any(_u(t) == "messages" for t in n.targets) and _u(n) != "messages = []":
            raise TranslatorError(f"compute_inp_hashes: messages rebound: {_u(n)}")
        if isinstance(n, ast.Call) and isinstance(n.func, ast.Attribute) and _u(n.func.value) == "messages" \
                and n.func.attr != "append":
            raise TranslatorError(f"compute_inp_hashes: messages.{n.func.attr}")
    ret = body[-1]
    if not (isinstance(ret, ast.Return) and _u(ret.value) == "HashComputeResult(messages, new_inp_hashes, all_inp_hashes)"):
        raise TranslatorError("compute_inp_hashes: does not return HashComputeResult(messages, new_inp_hashes, all_inp_hashes)")
    # `!=` of FileHash objects is attrs equality (eq=True is the default of attrs.define)
    if on_unreadable is None:
        for n in rest:
            if "unreadable" in {m.id for m in ast.walk(n) if isinstance(m, ast.Name)}:
                raise TranslatorError("compute_inp_hashes: `unreadable` is read but never bound")
    return on_unreadable, _block_outcome(rest, "compute_inp_hashes")


# ---------------------------------------------------------------------------------------------
# executor.py
# ---------------------------------------------------------------------------------------------

_DIGEST = {"inp_digest": ("str_eqb", "sh_inp"), "out_digest": ("opt_str_eqb", "sh_out")}


def _digest_test(test, where):
    """`step_hash.<d> != new_hash.<d>` -> Gallina bool over (old new : shash)."""
    if isinstance(test, ast.BoolOp) and isinstance(test.op, ast.Or):
        return "(" + " || ".join(_digest_test(v, where) for v in test.values) + ")"
    if not (isinstance(test, ast.Compare) and len(test.ops) == 1 and isinstance(test.ops[0], ast.NotEq)):
        raise TranslatorError(f"{where}: the test is not `a != b`: {_u(test)}")
    sides = []
    for e in (test.left, test.comparators[0]):
        if not (isinstance(e, ast.Attribute) and isinstance(e.value, ast.Name)
                and e.value.id in ("step_hash", "new_hash") and e.attr in _DIGEST):
            raise TranslatorError(f"{where}: unsupported operand `{_u(e)}` (model: step_hash.<digest> / new_hash.<digest>)")
        sides.append(({"step_hash": "old", "new_hash": "new"}[e.value.id], e.attr))
    (w1, a1), (w2, a2) = sides
    if _DIGEST[a1][0] != _DIGEST[a2][0]:
        raise TranslatorError(f"{where}: compares {a1} with {a2}")
    return f"negb ({_DIGEST[a1][0]} ({_DIGEST[a1][1]} {w1}) ({_DIGEST[a2][1]} {w2}))"


def _ends_in_return(block):
    return bool(block) and isinstance(block[-1], ast.Return) and block[-1].value is None


def _noskip_block(st, where):
    txt = [_u(s) for s in st.body]
    if not (_ends_in_return(st.body) and not st.orelse
            and any("self._reset_step_to_pending(step)" in t for t in txt)):
        raise TranslatorError(f"{where}: the branch does not reset the step to PENDING and return")


def translate_try_skip(exe_tree):
    fn = find_function(exe_tree, "try_skip_job", cls="Executor")
    ps = [a.arg for a in fn.args.args]
    if ps != ["self", "job_i", "step", "inp_hashes", "env_deps", "step_hash"]:
        raise TranslatorError(f"try_skip_job parameters: {ps}")
    for n in ast.walk(fn):
        if isinstance(n, (ast.Assign, ast.AugAssign)):
            for t in (n.targets if isinstance(n, ast.Assign) else [n.target]):
                if "step_hash" in {m.id for m in ast.walk(t) if isinstance(m, ast.Name)}:
                    raise TranslatorError(f"try_skip_job: step_hash is rebound: {_u(n)[:80]}")
    body = body_without_docstring(fn)
    where = "try_skip_job"
    if len(body) < 7:
        raise TranslatorError(f"{where}: {len(body)} statements (model: at least 7)")
    if _u(body[0]) != "run, new_hash = await self._new_run(job_i, step, inp_hashes, env_deps)":
        raise TranslatorError(f"{where}: first statement is `{_u(body[0])[:90]}`")
    for i in (1, 4):
        st = body[i]
        if not (isinstance(st, ast.If) and _u(st.test) == "new_hash is None" and _ends_in_return(st.body)
                and not st.orelse):
            raise TranslatorError(f"{where}: statement {i} is not `if new_hash is None: ... return`")
    if _u(body[3]) != "new_hash, new_out_hashes = await self._compute_out_step_hash(run, new_hash)":
        raise TranslatorError(f"{where}: statement 3 is `{_u(body[3])[:90]}`")
    tests = []
    for i in (2, 5):
        st = body[i]
        if not isinstance(st, ast.If):
            raise TranslatorError(f"{where}: statement {i} is not an `if`")
        _noskip_block(st, f"{where}: statement {i}")
        tests.append(_digest_test(st.test, f"{where}: statement {i}"))
    rest = body[6:]
    marks = [n for st in rest for n in ast.walk(st) if isinstance(n, ast.Call) and isinstance(n.func, ast.Attribute)
             and n.func.attr == "mark_completed"]
    if len(marks) != 1 or _u(marks[0]) != "step.mark_completed(new_hash, False)":
        raise TranslatorError(f"{where}: the skip does not record `step.mark_completed(new_hash, False)`")
    # the record is written only in the branch where no input record was overtaken; the other branch keeps the
    # step PENDING and writes no hash (statement level: any `if <name>:` / `if not <name>:` split is accepted)
    for st in rest:
        for n in ast.walk(st):
            if isinstance(n, ast.If) and any(m is marks[0] for b in n.body + n.orelse for m in ast.walk(b)):
                other = n.orelse if any(m is marks[0] for b in n.body for m in ast.walk(b)) else n.body
                for b in other:
                    for m in ast.walk(b):
                        if isinstance(m, ast.Call) and isinstance(m.func, ast.Attribute) \
                                and m.func.attr in ("mark_completed", "set_hash", "update_file_hashes"):
                            raise TranslatorError(f"{where}: the branch that does not record the skip calls {_u(m)[:60]}")
    # no other comparison of digests after the two tests
    for st in rest:
        for n in ast.walk(st):
            if isinstance(n, ast.Attribute) and n.attr in _DIGEST:
                raise TranslatorError(f"{where}: a digest is read after the two tests: {_u(n)}")
    return tests


def translate_validate(exe_tree):
    fn = find_function(exe_tree, "validate_dynamic_job", cls="Executor")
    body = body_without_docstring(fn)
    where = "validate_dynamic_job"
    if not (len(body) >= 3 and _u(body[0]) == "run, new_hash = await self._new_run(job_i, step, inp_hashes, env_deps)"
            and isinstance(body[1], ast.If) and _u(body[1].test) == "new_hash is None" and _ends_in_return(body[1].body)
            and isinstance(body[2], ast.If)):
        raise TranslatorError(f"{where}: unexpected statement sequence")
    _noskip_block(body[2], where)
    for st in body[3:]:
        for n in ast.walk(st):
            if isinstance(n, ast.Attribute) and n.attr in _DIGEST:
                raise TranslatorError(f"{where}: a digest is read after the test: {_u(n)}")
    return _digest_test(body[2].test, where)


def check_recording(exe_tree, step_tree):
    ej = find_function(exe_tree, "execute_job", cls="Executor")
    txt = [_u(n) for n in ast.walk(ej) if isinstance(n, ast.Assign)]
    for want in ("(new_hash, new_inp_hashes, new_out_hashes) = await self._compute_full_step_hash(run)",
                 "(new_hash, wants_defer) = self._classify_execution(run, new_hash, new_inp_hashes, unexpected_input_changes)",
                 "run.interrupted_defer = step.mark_completed(new_hash, wants_defer)"):
        if want not in txt and want.replace("(new_hash, new_inp_hashes, new_out_hashes)", "new_hash, new_inp_hashes, new_out_hashes") \
                .replace("(new_hash, wants_defer)", "new_hash, wants_defer") not in txt:
            raise TranslatorError(f"execute_job: `{want}` not found")
    ce = find_function(exe_tree, "_classify_execution", cls="Executor")
    for n in ast.walk(ce):
        if isinstance(n, ast.Assign) and any(_u(t) == "new_hash" for t in n.targets) and _u(n.value) != "None":
            raise TranslatorError(f"_classify_execution: new_hash = {_u(n.value)[:60]} (model: only None)")
    rets = [n for n in ast.walk(ce) if isinstance(n, ast.Return)]
    if len(rets) != 1 or _u(rets[0].value) != "(new_hash, wants_defer)":
        raise TranslatorError("_classify_execution does not return (new_hash, wants_defer)")
    # every other mark_completed in executor.py records nothing
    others = [_u(n) for n in ast.walk(exe_tree) if isinstance(n, ast.Call) and isinstance(n.func, ast.Attribute)
              and n.func.attr == "mark_completed"]
    if sorted(others) != sorted(["step.mark_completed(new_hash, False)", "step.mark_completed(new_hash, wants_defer)",
                                 "run.step.mark_completed(None, False)"]):
        raise TranslatorError(f"executor.py: mark_completed calls are {others}")
    mc = find_function(step_tree, "mark_completed", cls="Step")
    sets = [_u(n) for n in ast.walk(mc) if isinstance(n, ast.Call) and isinstance(n.func, ast.Attribute)
            and n.func.attr in ("set_hash", "delete_hash")]
    if sorted(sets) != ["self.delete_hash()", "self.set_hash(new_hash)"]:
        raise TranslatorError(f"Step.mark_completed: hash is written by {sets}")
    top = body_without_docstring(mc)
    branch = [s for s in top if isinstance(s, ast.If) and _u(s.test) == "new_hash is None"]
    if len(branch) != 1 or not any("self.set_hash(new_hash)" == _u(s) for s in branch[0].orelse) \
            or not any("self.delete_hash()" == _u(s) for s in branch[0].body):
        raise TranslatorError("Step.mark_completed: not `if new_hash is None: ... delete_hash() else: ... set_hash(new_hash)`")
    sh = body_without_docstring(find_function(step_tree, "set_hash", cls="Step"))
    if not (len(sh) == 1 and "INSERT OR REPLACE INTO step_hash VALUES (?, ?)" in _u(sh[0])
            and "(self.i, step_hash.to_json())" in _u(sh[0])):
        raise TranslatorError("Step.set_hash does not store step_hash.to_json()")
    gh = body_without_docstring(find_function(step_tree, "get_hash", cls="Step"))
    if not (len(gh) == 2 and "SELECT hash FROM step_hash WHERE node = ?" in _u(gh[0])
            and _u(gh[1]) == "return None if row is None else StepHash.from_json(row[0])"):
        raise TranslatorError("Step.get_hash does not return StepHash.from_json(<stored>)")
    # all writers of set_hash in the package
    dj = find_function(parse_module(SCHED), "_derive_job", cls="Scheduler")
    if "step_hash = step.get_hash()" not in [_u(n) for n in ast.walk(dj) if isinstance(n, ast.Assign)]:
        raise TranslatorError("Scheduler._derive_job: `step_hash = step.get_hash()` not found")
    job_txt = _u(parse_module(JOB)).replace("\n", " ")
    for frag in ("executor.try_skip_job(self.job_i, self.step, self.inp_hashes, self.env_deps, self.step_hash)",
                 "executor.validate_dynamic_job(self.job_i, self.step, self.inp_hashes, self.env_deps, self.step_hash)"):
        if frag not in job_txt:
            raise TranslatorError(f"job.py: `{frag}` not found")


def check_set_hash_callers():
    from .astutil import REPO
    found = []
    for path in sorted((REPO / "stepup/core").rglob("*.py")):
        rel = str(path.relative_to(REPO))
        for n in ast.walk(parse_module(rel)):
            if isinstance(n, ast.Call) and isinstance(n.func, ast.Attribute) and n.func.attr == "set_hash":
                found.append(f"{rel}:{_u(n)}")
    if found != [f"{STEP}:self.set_hash(new_hash)"]:
        raise TranslatorError(f"set_hash is called from {found} (model: Step.mark_completed only)")


def generate():
    exe_tree = parse_module(EXE)
    step_tree = parse_module(STEP)
    on_unreadable, outcome = translate_inp_entry(parse_module(HASH))
    t1, t2 = translate_try_skip(exe_tree)
    tv = translate_validate(exe_tree)
    check_recording(exe_tree, step_tree)
    check_set_hash_callers()
    lines = [
        "(* GENERATED by translator/gen_hash_skip.py from /repo/stepup/core/{hash,executor,step,scheduler,job}.py",
        "   -- do not edit *)",
        "From Coq Require Import List NArith Bool.",
        "From SV Require Import lib.Bytes model.HashTypes gen.GenHash model.HashSkipTypes.",
        "Import ListNotations.",
        "Open Scope N_scope.",
        "(* hash.py compute_inp_hashes: the statements after `all_inp_hashes[path] = new_file_hash` *)",
        "(* hash.py compute_inp_hashes: what stands for the new hash when FileHash.refreshed raises HashFailedError /",
        "   OSError (directory, unreadable file); None: the exception leaves the function *)",
        "Definition inp_on_unreadable : option fhash := " + ("None" if on_unreadable is None else f"Some {on_unreadable}") + ".",
        "Definition inp_entry_outcome (differs new_unknown old_unknown unreadable : bool) : inp_outcome :=",
        f"  {outcome}.",
        "(* executor.py Executor.try_skip_job: the tests that send the step back to PENDING, in order *)",
        f"Definition skip_inp_differs (old new : shash) : bool := {t1}.",
        f"Definition skip_out_differs (old new : shash) : bool := {t2}.",
        "(* Executor.validate_dynamic_job *)",
        f"Definition validate_inp_differs (old new : shash) : bool := {tv}.",
        "",
    ]
    facts = {"inp_on_unreadable": on_unreadable, "inp_entry_outcome": outcome, "skip_tests": [t1, t2], "validate_test": tv}
    return "\n".join(lines), facts


if __name__ == "__main__":
    print(generate()[0])
