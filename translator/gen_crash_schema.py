"""Translator for C05: the order of the autocommitted statements of DBSession.apply_schema.

`apply_schema` runs OUTSIDE any transaction (`async with self._autocommit_con() as con`): every
statement it executes is committed on its own, so a kill between two of them leaves a prefix.
Fail closed: the body of that block must consist of exactly these statements, in some order:

  10  is_fresh = con.execute("SELECT count(*) FROM sqlite_master").fetchone()[0] == 0
  11  (inside `if not is_fresh:`) application_id read and compared, `raise ValueError` on mismatch
  12  (inside `if not is_fresh:`) user_version read and compared, `_wipe_database(con)` + is_fresh = True
   1  con.execute(f"PRAGMA application_id = ...")
   2  con.execute(f"PRAGMA user_version = ...")
   3  for script in schema_scripts: con.executescript(script)
   4  if is_fresh: con.execute("VACUUM")

Output coq/gen/GenCrashSchema.v: `apply_schema_sequence` (all codes in source order) and
`apply_schema_writes` (the codes 1, 2, 3 in source order: what model/CrashSchema.v executes).

The schema scripts themselves are taken from the classes of the repository under translation exactly
as Trellis.initialize assembles them (`[self.schema()] + [cls.schema() for the node classes]`, here for
Workflow and its default node classes), split into statements (sqlite3.complete_statement, comments
stripped) and classified: a statement that is run again on a file that already holds its effect must
not fail, i.e. it is `CREATE [TEMP] [UNIQUE] TABLE|INDEX|TRIGGER|VIEW IF NOT EXISTS ...`.
`schema_statements_idempotent` is false as soon as one statement is not of that form (it is listed in
a comment of the generated file); `schema_persistent_objects` counts the non-TEMP ones (what a killed
first start can leave a prefix of); `schema_temp_objects` the TEMP ones (gone with the connection).
"""
from __future__ import annotations

import ast
import re
import sys

from .astutil import REPO, TranslatorError, body_without_docstring, find_function, parse_module


def _src(node) -> str:
    return ast.unparse(node)


def apply_schema_sequence() -> list:
    fn = find_function(parse_module("stepup/core/sqlite3.py"), "apply_schema", cls="DBSession")
    body = body_without_docstring(fn)
    withs = [s for s in body if isinstance(s, ast.AsyncWith)]
    if len(withs) != 1 or "_autocommit_con" not in _src(withs[0].items[0].context_expr):
        raise TranslatorError("apply_schema: expected exactly one `async with self._autocommit_con() as con` block")
    for s in body:
        if s is not withs[0] and not isinstance(s, ast.Return):
            raise TranslatorError(f"apply_schema: statement outside the autocommit block: {_src(s)[:80]}")
    codes = []

    def classify(stmt, top=True):
        t = _src(stmt)
        if isinstance(stmt, ast.Assign) and t.startswith("is_fresh =") and "sqlite_master" in t and top:
            return [10]
        if isinstance(stmt, ast.If) and _src(stmt.test) == "not is_fresh" and not stmt.orelse and top:
            out, i = [], 0
            inner = stmt.body
            while i < len(inner):
                ti = _src(inner[i])
                if isinstance(inner[i], ast.Assign) and "PRAGMA application_id" in ti and i + 1 < len(inner) \
                        and isinstance(inner[i + 1], ast.If) and "raise ValueError" in _src(inner[i + 1]) \
                        and "application_id" in _src(inner[i + 1].test):
                    out.append(11)
                    i += 2
                elif isinstance(inner[i], ast.Assign) and "PRAGMA user_version" in ti and i + 1 < len(inner) \
                        and isinstance(inner[i + 1], ast.If) and "_wipe_database(con)" in _src(inner[i + 1]) \
                        and "is_fresh = True" in _src(inner[i + 1]) and "schema_version" in _src(inner[i + 1].test):
                    out.append(12)
                    i += 2
                else:
                    raise TranslatorError(f"apply_schema: unrecognised statement in `if not is_fresh`: {ti[:80]}")
            return out
        if isinstance(stmt, ast.Expr) and t.startswith("con.execute(f'PRAGMA application_id = "):
            return [1]
        if isinstance(stmt, ast.Expr) and t.startswith("con.execute(f'PRAGMA user_version = "):
            return [2]
        if isinstance(stmt, ast.For) and _src(stmt.iter) == "schema_scripts" and len(stmt.body) == 1 \
                and _src(stmt.body[0]) == f"con.executescript({_src(stmt.target)})" and not stmt.orelse:
            return [3]
        if isinstance(stmt, ast.If) and _src(stmt.test) == "is_fresh" and not stmt.orelse and len(stmt.body) == 1 \
                and _src(stmt.body[0]) == "con.execute('VACUUM')":
            return [4]
        raise TranslatorError(f"apply_schema: unrecognised statement in the autocommit block: {t[:100]}")

    for stmt in withs[0].body:
        codes += classify(stmt)
    if sorted(codes) != [1, 2, 3, 4, 10, 11, 12]:
        raise TranslatorError(f"apply_schema: expected each of the seven statements once, found {codes}")
    if codes[:3] != [10, 11, 12]:
        raise TranslatorError(f"apply_schema: the checks of the database as found must come first, found {codes}")
    return codes


_DROP = re.compile(r"^DROP\s+(TABLE|INDEX|TRIGGER|VIEW)\s+IF\s+EXISTS\s+(?P<name>\w+)$", re.I)
_CREATE = re.compile(r"^CREATE\s+(?P<temp>TEMP\s+|TEMPORARY\s+)?(UNIQUE\s+)?(TABLE|INDEX|TRIGGER|VIEW)\s+"
                     r"(?P<ine>IF\s+NOT\s+EXISTS\s+)?(?P<name>\w+)?", re.I)


def schema_statements() -> list:
    """The statements of the schema scripts in execution order: (text, persistent?, idempotent?)."""
    import importlib
    import sqlite3
    for name in [m for m in list(sys.modules) if m == "stepup" or m.startswith("stepup.")]:
        path = getattr(sys.modules[name], "__file__", None) or ""
        if not path.startswith(str(REPO)):
            del sys.modules[name]          # a module of another tree (VERIF_REPO changed)
    try:
        wf = importlib.import_module("stepup.core.workflow")
        if not str(getattr(wf, "__file__", "")).startswith(str(REPO)):
            raise TranslatorError(f"stepup.core.workflow was imported from {wf.__file__}, not from {REPO}")
        cls = wf.Workflow
        scripts = [cls.schema()]
        scripts += [s for s in (nc.schema() for nc in cls.default_node_classes()) if s is not None]
    except TranslatorError:
        raise
    except Exception as exc:  # noqa: BLE001
        raise TranslatorError(f"cannot assemble the schema scripts: {type(exc).__name__}: {exc}") from exc
    out = []
    for script in scripts:
        buf = ""
        for line in script.splitlines(keepends=True):
            buf += line
            if sqlite3.complete_statement(buf):
                text = " ".join(ln.split("--", 1)[0].strip() for ln in buf.splitlines()).strip().rstrip(";").strip()
                text = " ".join(text.split())
                if text:
                    m = _CREATE.match(text)
                    out.append((text, bool(m) and not m.group("temp"), bool(m) and bool(m.group("ine"))))
                buf = ""
        if buf.strip() and any(ln.split("--", 1)[0].strip() for ln in buf.splitlines()):
            raise TranslatorError(f"schema script ends inside a statement: {buf.strip()[:80]}")
    if not out:
        raise TranslatorError("no schema statement found")
    return out


def generate() -> str:
    stmts = schema_statements()
    # `DROP x IF EXISTS name` directly followed by `CREATE x IF NOT EXISTS name` (the way a changed
    # trigger body reaches existing databases) cannot fail either; the model executes it (SDrop)
    bad, drops, npers, ntemp = [], [], 0, 0
    for i, (text, pers, idem) in enumerate(stmts):
        d = _DROP.match(text)
        if d:
            nxt = _CREATE.match(stmts[i + 1][0]) if i + 1 < len(stmts) else None
            if nxt and nxt.group("ine") and not nxt.group("temp") and (nxt.group("name") or "").lower() == d.group("name").lower():
                drops.append(npers)          # the number the next persistent object gets
            else:
                bad.append(text)
            continue
        if not idem:
            bad.append(text)
        if pers:
            npers += 1
        elif _CREATE.match(text):
            ntemp += 1
    seq = apply_schema_sequence()
    writes = [c for c in seq if c in (1, 2, 3)]

    def lst(xs):
        return "[" + "; ".join(str(x) for x in xs) + "]"

    return ("(* GENERATED by translator/gen_crash_schema.py from stepup/core/sqlite3.py and the schema scripts of "
            "Workflow -- do not edit *)\n"
            "From Coq Require Import List NArith.\nImport ListNotations.\n\n"
            f"Definition apply_schema_sequence : list N := {lst([str(c) + '%N' for c in seq])}.\n"
            f"Definition apply_schema_writes : list N := {lst([str(c) + '%N' for c in writes])}.\n"
            + "".join(f"(* can fail when run again: {t[:100].replace('*)', '* )')} *)\n" for t in bad)
            + f"Definition schema_statements_idempotent : bool := {'true' if not bad else 'false'}.\n"
            f"Definition schema_persistent_objects : nat := {npers}.\n"
            f"Definition schema_temp_objects : nat := {ntemp}.\n"
            f"Definition schema_drops : list nat := {lst(drops)}.\n")
